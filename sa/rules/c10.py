"""C10 — archive members come out as themselves: right bytes, name, order."""
from __future__ import annotations

import ast

from sa.engine.callgraph import _local_assignments, calls_in, resolve_call
from sa.engine.consts import UNKNOWN
from sa.engine.context import Ctx
from sa.engine.guards import path_conditions
from sa.engine.loader import anorm, local_names, AnalysisError, dotted, norm, short, walk_own
from sa.engine.report import Finding, RuleReport
from sa.rules.c01 import _handler_names, _is_log_only, _nonraising
from sa.rules.common import X, exception_family

ARCH = X + "archive_extractor.py"
SZ = X + "util/sevenzip.py"

EXPLANATION = (
    "Byte equality with direct extraction is a value-level statement and is not decided. Decided necessary conditions: "
    "(LABEL) the per-member step receives, in the same loop iteration, the name of the member, the bytes read for that "
    "same member and the base name derived from that name; it labels results `archive!/member` and feeds exactly those "
    "bytes to the routed extractor. (ORDER) member sequences are never sorted, reversed or passed through a set between "
    "listing and yielding. (SIB) the three per-member loops agree: reading and processing one member is enclosed by a "
    "catch-all that logs and continues; exceptions converted to another class are encryption-only (C08-OVER). (FOLDER) in "
    "the 7z reader the arguments that position the read of each folder depend on the folder being decoded. (DISPATCH) the "
    "archive types the magic-byte detector can return are exactly the ones read_archive handles, and the tar mode derived "
    "from each is one tarfile understands. (STEP) in the per-member step every normal path reaches the routed extractor; the only early exit is the MAX_ARCHIVE_FILE_SIZE test on the member's bytes. (KIND) the kEmptyFile vector is read and decides, with the right polarity, whether an entry without a stream is a zero-length file or a directory; extractall creates the zero-length files. (ENDIAN) every integer conversion of the 7z reader is little-endian, as 7zFormat.txt specifies. (FOLDER, continued) a sub-stream size and a folder slot are taken exactly by entries whose kEmptyStream bit is clear (propositional check over the atoms of the directory flag)."
)
NOT_DECIDED = ["identity of member content with direct extraction (bytes, decompression correctness of LZMA/LZMA2/deflate)", "7z header parsing arithmetic (pack sizes, substream sizes, file-to-folder map) as values"]
TRUSTED = ["zipfile.infolist / tarfile.getmembers return members in archive order", "CFG / lexical path conditions"]
FLOORS = {"C10-EXACT": 8, "C10-CODEC": 6, "C10-LABEL": 10, "C10-STEP": 2, "C10-ENDIAN": 4, "C10-KIND": 3, "C10-ORDER": 4, "C10-SIB": 6, "C10-FOLDER": 3, "C10-DISPATCH": 6, "C10-TABLES": 50}

READS = {"_extract_from_zip_optimized": ("read", "info"), "_extract_from_tar_optimized": ("extractfile", "member")}  # method that reads one member


def _pe_calls(ctx):
    m = ctx.p.module(ARCH)
    out = []
    for fi in m.functions.values():
        for c in calls_in(fi):
            if any(g.qual == "_process_archive_entry" for g in resolve_call(ctx.p, fi, c).funcs):
                out.append((fi, c))
    return out


def _enclosing_loop(fn, node):
    best = None
    for n in walk_own(fn):
        if isinstance(n, (ast.For, ast.While)) and any(x is node for b in n.body for x in ast.walk(b)):
            if best is None or any(x is n for x in ast.walk(best)):
                best = n
    return best


def rule_label(ctx: Ctx) -> RuleReport:
    rep = RuleReport("C10-LABEL", "name, bytes and base name handed to the per-member step belong to the same member; results are labelled archive!/member")
    pe = ctx.p.func(ARCH, "_process_archive_entry")
    params = [a.arg for a in pe.node.args.args]
    if params[:4] != ["filename", "file_data", "archive_path", "basename"]:
        raise AnalysisError(f"C10-LABEL: signature of _process_archive_entry changed: {params}")
    calls = _pe_calls(ctx)
    if len(calls) < 3:
        raise AnalysisError("C10-LABEL: fewer than 3 call sites of _process_archive_entry")
    for fi, c in calls:
        rep.unit(fi.key)
        loop = _enclosing_loop(fi.node, c)
        if loop is None or not isinstance(loop, ast.For):
            rep.fail(Finding("C10-LABEL", ARCH, fi.qual, short(c), "per-member step is not inside a member loop", line=c.lineno))
            continue
        loopvars = {n.id for n in ast.walk(loop.target) if isinstance(n, ast.Name)}
        args = {p: (c.args[i] if i < len(c.args) else None) for i, p in enumerate(params[:4])}
        for k in c.keywords:
            args[k.arg] = k.value
        inloop = {}
        for n in ast.walk(ast.Module(body=loop.body, type_ignores=[])):
            if isinstance(n, ast.Assign) and len(n.targets) == 1 and isinstance(n.targets[0], ast.Name):
                inloop.setdefault(n.targets[0].id, []).append(n.value)

        def origin(e, depth=0):
            """set of loop variables the expression is computed from (following assignments inside the iteration)"""
            out = set()
            if e is None or depth > 5:
                return out
            for n in ast.walk(e):
                if isinstance(n, ast.Name):
                    if n.id in loopvars:
                        out.add(n.id)
                    elif n.id in inloop:
                        for v in inloop[n.id]:
                            out |= origin(v, depth + 1)
            return out

        # name
        fn_arg = args.get("filename")
        fn_origin = origin(fn_arg)
        name_like = isinstance(fn_arg, ast.Name) and (fn_arg.id in loopvars or any(isinstance(v, ast.Attribute) and v.attr in ("filename", "name") for v in inloop.get(fn_arg.id, [])))
        if fn_origin and name_like:
            rep.ok({"site": fi.qual, "filename_from": sorted(fn_origin)})
        else:
            rep.fail(Finding("C10-LABEL", ARCH, fi.qual, short(c), f"the name passed to the per-member step (`{norm(fn_arg) if fn_arg else '?'}`) is not the name of the member of this iteration", line=c.lineno))
        # basename derived from that same name
        bn = args.get("basename")
        ok_bn = False
        if isinstance(bn, ast.Name):
            defs = inloop.get(bn.id, [])
            if bn.id in loopvars:
                ok_bn = True  # unpacked from the work list; checked where the list is built
            for v in defs:
                if isinstance(v, ast.Call) and dotted(v.func) == "os.path.basename" and v.args and isinstance(fn_arg, ast.Name) and norm(v.args[0]) == fn_arg.id:
                    ok_bn = True
        if ok_bn:
            rep.ok({"site": fi.qual, "basename": "os.path.basename(<that name>)"})
        else:
            rep.fail(Finding("C10-LABEL", ARCH, fi.qual, short(c), "the base name used to choose the extractor is not derived from this member's name", line=c.lineno))
        # bytes read for the same member
        fd = args.get("file_data")
        fd_or = origin(fd)
        if fi.qual == "_process_7z_files_sequential":
            # bytes are re-read from the extraction directory under this member's name
            defs = inloop.get(fd.id, []) if isinstance(fd, ast.Name) else []
            # the bytes are <f>.read() of a file opened on a path computed from this member's name
            opened = {}  # with open(P, ..) as F  ->  F: P
            for w in ast.walk(ast.Module(body=loop.body, type_ignores=[])):
                if isinstance(w, ast.With):
                    for it in w.items:
                        if isinstance(it.optional_vars, ast.Name) and isinstance(it.context_expr, ast.Call) and dotted(it.context_expr.func) == "open" and it.context_expr.args:
                            opened[it.optional_vars.id] = it.context_expr.args[0]
            def reads_member(v):
                return isinstance(v, ast.Call) and isinstance(v.func, ast.Attribute) and v.func.attr == "read" and isinstance(v.func.value, ast.Name) and v.func.value.id in opened \
                    and bool(origin(opened[v.func.value.id]) & fn_origin)
            # `data = None` on the way where the file is missing, and the step called under `data is not None`, is the same thing as skipping
            none_defs = [v for v in defs if isinstance(v, ast.Constant) and v.value is None]
            if none_defs and isinstance(fd, ast.Name):
                conds_, _o, _l = path_conditions(fi.node, c)
                if any(str(k) == f"{fd.id} is not None" for k in conds_):
                    defs = [v for v in defs if v not in none_defs]
            path_ok = bool(defs)
            if path_ok and defs and all(reads_member(v) for v in defs):
                rep.ok({"site": fi.qual, "bytes_from": "file written for this member name"})
            else:
                rep.fail(Finding("C10-LABEL", ARCH, fi.qual, short(c), "7z member bytes are not read back from the file extracted under this member's name", line=c.lineno))
        elif fd_or and (fd_or & fn_origin or (isinstance(loop.target, ast.Tuple) and fd_or <= loopvars and fn_origin <= loopvars)):
            rep.ok({"site": fi.qual, "bytes_from": sorted(fd_or)})
        else:
            rep.fail(Finding("C10-LABEL", ARCH, fi.qual, short(c), f"the bytes passed (`{norm(fd) if fd else '?'}`, from {sorted(fd_or)}) do not come from the member whose name is passed (from {sorted(fn_origin)})", line=c.lineno))
        ap = args.get("archive_path")
        if isinstance(ap, ast.Name) and ap.id in {a.arg for a in fi.node.args.args + fi.node.args.kwonlyargs}:
            rep.ok()
        else:
            rep.fail(Finding("C10-LABEL", ARCH, fi.qual, short(c), "the archive path is not passed through to the per-member step", line=c.lineno))
    # a member is read through its own directory record (ZipInfo / TarInfo), never by name: two members may share a name
    # (tar -r revisions, zip updates) and a read by name returns the last one for both
    for fq, (meth, lister) in {"_extract_from_zip_optimized": ("read", "infolist"), "_extract_from_tar_optimized": ("extractfile", "getmembers")}.items():
        fi = ctx.p.func(ARCH, fq)

        def kind_of(e, depth=0):
            """'record' when e is the object a listing loop iterates, 'name' when it is a string taken from it"""
            if depth > 5 or e is None:
                return "unknown"
            if isinstance(e, ast.Attribute):
                return "name"
            if isinstance(e, ast.Call):
                return "name"
            if isinstance(e, ast.Name):
                for l in walk_own(fi.node):
                    if isinstance(l, ast.For) and isinstance(l.target, ast.Name) and l.target.id == e.id and isinstance(l.iter, ast.Call) and isinstance(l.iter.func, ast.Attribute) and l.iter.func.attr == lister:
                        return "record"
                for a in walk_own(fi.node):
                    if isinstance(a, ast.Assign) and len(a.targets) == 1 and isinstance(a.targets[0], ast.Name) and a.targets[0].id == e.id:
                        return kind_of(a.value, depth + 1)
                for l in walk_own(fi.node):
                    if isinstance(l, ast.For):
                        tg = l.target
                        if isinstance(tg, ast.Tuple):
                            for i, el in enumerate(tg.elts):
                                if isinstance(el, ast.Name) and el.id == e.id and isinstance(l.iter, ast.Name):
                                    for ap in walk_own(fi.node):
                                        if isinstance(ap, ast.Call) and isinstance(ap.func, ast.Attribute) and ap.func.attr == "append" and isinstance(ap.func.value, ast.Name) and ap.func.value.id == l.iter.id and ap.args and isinstance(ap.args[0], ast.Tuple) and i < len(ap.args[0].elts):
                                            return kind_of(ap.args[0].elts[i], depth + 1)
                for a in walk_own(fi.node):
                    if isinstance(a, ast.Assign) and len(a.targets) == 1 and isinstance(a.targets[0], ast.Name) and a.targets[0].id == e.id:
                        return kind_of(a.value, depth + 1)
            return "unknown"

        reads = [c for c in calls_in(fi) if isinstance(c.func, ast.Attribute) and c.func.attr == meth and c.args]
        if not reads:
            raise AnalysisError(f"C10-LABEL: {fq} no longer reads members with .{meth}(...)")
        for c in reads:
            k = kind_of(c.args[0])
            if k == "record":
                rep.ok({"site": fq, "read": short(c, 40), "by": "directory record"})
            elif k == "name":
                rep.fail(Finding("C10-LABEL", ARCH, fq, f"{meth} by name: " + anorm(c, fi.node), f"`{short(c, 50)}` reads the member by its name instead of its directory record: when a path occurs twice in the archive every occurrence gets the bytes of the last one", line=c.lineno))
            else:
                raise AnalysisError(f"C10-LABEL: cannot tell what `{short(c, 50)}` in {fq} is applied to")
    # inside the step: path label and bytes
    from sa.engine.shape import compare

    body_try = [n for n in pe.node.body if isinstance(n, ast.Try)]
    if not body_try:
        raise AnalysisError("C10-LABEL: _process_archive_entry has no try body")
    stmts = body_try[0].body

    def val(e):
        """the expression a local stands for (single plain binding in the step), the expression itself otherwise"""
        hops = 0
        while isinstance(e, ast.Name) and hops < 4:
            defs = [a.value for st_ in stmts for a in ast.walk(st_) if isinstance(a, ast.Assign) and len(a.targets) == 1 and isinstance(a.targets[0], ast.Name) and a.targets[0].id == e.id]
            if len(defs) != 1:
                break
            e, hops = defs[0], hops + 1
        return e

    want = ["v0 = f'{archive_path}!/{filename}' if archive_path else filename", "v0 = _get_file_extractor_cached(basename)", "v0 = io.BytesIO(file_data)"]
    loops = [n for n in stmts if isinstance(n, ast.For)]
    it0 = loops[0].iter if loops and isinstance(loops[0].iter, ast.Call) else None
    got = {}
    if it0 is not None:
        kwp = next((k.value for k in it0.keywords if k.arg == "path"), None)
        got = {want[0]: kwp, want[1]: it0.func, want[2]: it0.args[0] if len(it0.args) == 1 else None}
    for w in want:
        e_ = got.get(w)
        if e_ is not None and "v0 = " + norm(val(e_)) == w:
            rep.ok({"_process_archive_entry": w})
        else:
            rep.fail(Finding("C10-LABEL", ARCH, pe.qual, w, f"the per-member step no longer performs `{w}` (v0 = a local)", line=pe.node.lineno))
    label_txt = want[0][5:]
    good_loop = False
    if loops and it0 is not None and isinstance(loops[0].target, ast.Name):
        it = it0
        tv = loops[0].target.id
        lb = loops[0].body
        yields = [st for st in lb if norm(st) == f"yield {tv}"]
        exits = [x for st in lb for x in ast.walk(st) if isinstance(x, (ast.Continue, ast.Break, ast.Return, ast.Raise))]
        rebinds = [x for st in lb for x in ast.walk(st) if isinstance(x, (ast.Assign, ast.AugAssign)) and any(isinstance(t, ast.Name) and t.id == tv for t in (x.targets if isinstance(x, ast.Assign) else [x.target]))]
        v_ext = it.func.id if isinstance(it.func, ast.Name) else None
        good_loop = all("v0 = " + norm(val(got[w])) == w for w in want if got.get(w) is not None) and all(got.get(w) is not None for w in want) and set(k.arg for k in it.keywords) == {"path"} and len(yields) == 1 and not exits and not rebinds
        # the member's label is derived from the member name alone (no lookup on the host): populate_from_path(<label>, resolve=False)
        relabel = [c for st in lb for c in ast.walk(st) if isinstance(c, ast.Call) and isinstance(c.func, ast.Attribute) and c.func.attr == "populate_from_path"]
        lexical = [c for c in relabel if c.args and norm(val(c.args[0])) == label_txt and any(k.arg == "resolve" and isinstance(k.value, ast.Constant) and k.value.value is False for k in c.keywords)
                   and norm(c.func.value) == f"{tv}.get_metadata()"]
        before_yield = bool(lexical) and bool(yields) and lexical[0].lineno < yields[0].lineno
        # ... for every member: the only results that keep their label are those of a nested archive (labelled by the inner call)
        skip_label = None
        if lexical:
            conds, opaque, _ = path_conditions(pe.node, lexical[0])
            inside = [str(c) for c in conds if lexical[0].lineno >= loops[0].lineno and any(x is lexical[0] for x in ast.walk(loops[0]))] + list(opaque)
            extra = [c for c in inside if c not in (f"{v_ext} is not read_archive", "_get_file_extractor_cached(basename) is not read_archive") and not c.startswith("except ")]
            # conditions that already hold when the loop is entered do not make the labelling partial
            loop_conds, loop_opaque, _ = path_conditions(pe.node, loops[0])
            extra = [c for c in extra if c not in {str(x) for x in loop_conds} | set(loop_opaque)]
            if extra:
                skip_label = extra
        if skip_label:
            rep.fail(Finding("C10-LABEL", ARCH, pe.qual, "member label only when " + " and ".join(skip_label), f"the lexical label is applied only when `{' and '.join(skip_label)}`: for the other members the label computed with resolve=True stays, i.e. a relative member name resolved against the working directory of the host", line=lexical[0].lineno))
        elif lexical and before_yield and len(relabel) == len(lexical):
            rep.ok({"_process_archive_entry": "member results are labelled lexically (resolve=False) before they are yielded"})
        else:
            rep.fail(Finding("C10-LABEL", ARCH, pe.qual, "member label resolved on the host", "the results of a member keep the label computed by populate_from_path(<member name>) with resolve=True: a relative member name is resolved against the working directory of the host (and against files that happen to exist there), so the same archive bytes give different file_path / folder_path on different hosts", line=loops[0].lineno))
    # the lexical label is the member name as it stands: built from the text of the argument, not from a pathlib.Path made of it
    # (Path('x.tar!/./a//b') is 'x.tar!/a/b': the label would no longer be the member's name)
    from sa.rules.common import DT as _DT

    pp = ctx.p.func(_DT, "FileMetadataInterface.populate_from_path")
    rep.unit(pp.key)
    prm = pp.node.args.args[1].arg if len(pp.node.args.args) > 1 else "path"
    path_objs = {a.targets[0].id for a in walk_own(pp.node) if isinstance(a, ast.Assign) and len(a.targets) == 1 and isinstance(a.targets[0], ast.Name) and isinstance(a.value, ast.Call) and (dotted(a.value.func) or "").split(".")[-1] in ("Path", "PurePath", "PurePosixPath")}
    # the statements executed for resolve=False, wherever they stand (`if not resolve: ... return`, or the else of `if resolve:`)
    def lexical_only(st_):
        conds_, _o, _l = path_conditions(pp.node, st_)
        return any(str(c_) in ("not resolve", "resolve is False", "resolve == False") for c_ in conds_)

    lex_assigns = [x for x in walk_own(pp.node) if isinstance(x, ast.Assign) and lexical_only(x)]
    if not any(isinstance(t, ast.Attribute) and t.attr in ("file_path", "folder_path") for a in lex_assigns for t in a.targets):
        raise AnalysisError("C10-LABEL: the resolve=False branch of populate_from_path was not found")
    derived = set()
    for a in sorted(lex_assigns, key=lambda x: x.lineno):
        for t in a.targets:
            names = {x.id for x in ast.walk(a.value) if isinstance(x, ast.Name)}
            if isinstance(t, ast.Attribute) and t.attr in ("file_path", "folder_path"):
                if names & (path_objs | derived):
                    rep.fail(Finding("C10-LABEL", _DT, pp.qual, f"lexical {t.attr} from a Path object: {anorm(a.value, pp.node)}", f"with resolve=False `{short(a, 60)}` builds the label from a pathlib.Path: Path() folds './' and '//' and drops a trailing '/', so the label of the member './name' (what `tar -cf x.tar .` writes) is no longer its name", line=a.lineno))
                else:
                    rep.ok({"populate_from_path(resolve=False)": f"{t.attr} = {short(a.value, 40)}"})
            elif isinstance(t, (ast.Name, ast.Tuple)) and names & (path_objs | derived):
                derived |= {x.id for x in ast.walk(t) if isinstance(x, ast.Name)}
    if good_loop:
        rep.ok({"_process_archive_entry": "yields every result of extractor(file_bytes, path=full_path)"})
    else:
        rep.fail(Finding("C10-LABEL", ARCH, pe.qual, norm(loops[0].iter) if loops else "no loop", "the per-member step does not yield every result of extractor(<member bytes>, path=<archive!/member>)", line=pe.node.lineno))
    # 7z / zip work lists are built from (info, filename, basename) of one member
    for fnq in ("_extract_from_zip_optimized", "_extract_from_7z_optimized"):
        f = ctx.p.func(ARCH, fnq)
        apps = [x for x in calls_in(f) if isinstance(x.func, ast.Attribute) and x.func.attr == "append" and isinstance(x.func.value, ast.Name) and x.args and isinstance(x.args[0], ast.Tuple) and len(x.args[0].elts) == 3]
        if not apps:
            raise AnalysisError(f"C10-LABEL: work list of {fnq} (3-tuples appended in the listing loop) not found")
        for a in apps:
            el = a.args[0]
            loop = _enclosing_loop(f.node, a)
            lv = norm(loop.target) if loop is not None else "?"
            inl = {}
            for n in ast.walk(ast.Module(body=loop.body if loop is not None else [], type_ignores=[])):
                if isinstance(n, ast.Assign) and len(n.targets) == 1 and isinstance(n.targets[0], ast.Name):
                    inl.setdefault(n.targets[0].id, []).append(n.value)
            name_ok = isinstance(el.elts[1], ast.Name) and any(isinstance(v, ast.Attribute) and v.attr in ("filename", "name") and norm(v.value) == lv for v in inl.get(el.elts[1].id, []))
            base_ok = isinstance(el.elts[2], ast.Name) and any(isinstance(v, ast.Call) and dotted(v.func) == "os.path.basename" and v.args and norm(v.args[0]) == norm(el.elts[1]) for v in inl.get(el.elts[2].id, []))
            if norm(el.elts[0]) == lv and name_ok and base_ok:
                rep.ok({fnq: "work list entries (member, its name, its base name)"})
            else:
                rep.fail(Finding("C10-LABEL", ARCH, fnq, short(a), "work-list entries are not (member, its name, its base name)", line=a.lineno))
    return rep


def rule_step(ctx: Ctx) -> RuleReport:
    """Every member handed to the per-member step reaches the routed extractor, except under the size limit."""
    rep = RuleReport("C10-STEP", "in the per-member step every normal path reaches `for r in extractor(bytes, path=label): yield r`; the only early exit is the MAX_ARCHIVE_FILE_SIZE test on the member's bytes")
    pe = ctx.p.func(ARCH, "_process_archive_entry")
    rep.unit(pe.key)
    params = [a.arg for a in pe.node.args.args]
    data = params[1]
    loops = [l for l in walk_own(pe.node) if isinstance(l, ast.For) and any(isinstance(y, (ast.Yield, ast.YieldFrom)) for y in ast.walk(l))]
    yf = [y for y in walk_own(pe.node) if isinstance(y, ast.YieldFrom)]
    if len(loops) + len(yf) != 1:
        raise AnalysisError("C10-STEP: expected exactly one yielding construct in _process_archive_entry")
    target = loops[0] if loops else yf[0]

    def size_test(t):
        names = {n.id for n in ast.walk(t) if isinstance(n, ast.Name)}
        return isinstance(t, ast.Compare) and len(t.ops) == 1 and isinstance(t.ops[0], (ast.Gt, ast.GtE)) and norm(t.left) == f"len({data})" and norm(t.comparators[0]) == "MAX_ARCHIVE_FILE_SIZE" and names == {"len", data, "MAX_ARCHIVE_FILE_SIZE"}

    def visit(body, guards, in_handler):
        for st in body:
            if st is target or (isinstance(st, ast.Expr) and st.value is target):
                if guards:
                    rep.fail(Finding("C10-STEP", ARCH, pe.qual, "guarded: " + anorm(guards[-1], pe.node), f"the extraction of a member runs only when `{short(guards[-1], 70)}` holds: members for which it does not are dropped without a result", line=st.lineno))
                else:
                    rep.ok({"reaches": short(target, 70)})
                continue
            if isinstance(st, (ast.Return, ast.Raise, ast.Continue, ast.Break)) and not in_handler:
                if len(guards) == 1 and size_test(guards[0]):
                    rep.ok({"early_exit": short(st, 30), "under": short(guards[0], 60)})
                else:
                    g = guards[-1] if guards else None
                    rep.fail(Finding("C10-STEP", ARCH, pe.qual, "exit: " + (anorm(g, pe.node) if g is not None else "<unconditional>"),
                                     f"the per-member step leaves at line {st.lineno} (`{short(st, 40)}`) " + (f"when `{short(g, 70)}`" if g is not None else "unconditionally") + " before the member reaches its extractor: a supported member is dropped for a reason other than the size limit", line=st.lineno))
                continue
            if isinstance(st, ast.If):
                visit(st.body, guards + [st.test], in_handler)
                visit(st.orelse, guards + [ast.UnaryOp(ast.Not(), st.test)], in_handler)
            elif isinstance(st, ast.Try):
                visit(st.body, guards, in_handler)
                for h in st.handlers:
                    visit(h.body, guards, True)
                visit(st.orelse, guards, in_handler)
                visit(st.finalbody, guards, in_handler)
            elif isinstance(st, (ast.With, ast.For, ast.While)):
                visit(st.body, guards, in_handler)

    visit(pe.node.body, [], False)
    return rep


def rule_endian(ctx: Ctx) -> RuleReport:
    """7z stores every multi-byte integer little-endian (7zFormat.txt: 'all numbers are little endian', UINT64 coding included)."""
    rep = RuleReport("C10-ENDIAN", "every integer conversion of the 7z reader is little-endian, as the format specifies")
    m = ctx.p.module(SZ)
    for fi in m.functions.values():
        for c in ast.walk(fi.node):
            if not isinstance(c, ast.Call):
                continue
            d = dotted(c.func) or ""
            if d.startswith("struct.") and d.split(".")[-1] in ("unpack", "unpack_from", "pack", "pack_into", "Struct", "iter_unpack", "calcsize") and c.args:
                fmt = ctx.folder.fold(fi.module, c.args[0])
                if not isinstance(fmt, str):
                    raise AnalysisError(f"C10-ENDIAN: struct format of `{short(c, 50)}` in {fi.key} is not a constant")
                rep.unit(fi.key)
                body = fmt.lstrip("<>=!@")
                multi = any(ch in "hHiIlLqQnNefd" for ch in body)
                if fmt[:1] == "<" or not multi and fmt[:1] not in (">", "!"):
                    rep.ok({"fn": fi.qual, "format": fmt})
                else:
                    rep.fail(Finding("C10-ENDIAN", SZ, fi.qual, f"struct format {fmt!r}", f"`{short(c, 60)}` converts a multi-byte integer with byte order {fmt[:1]!r}: the 7z format is little-endian throughout, sizes and offsets above 255 are decoded with their bytes swapped", line=c.lineno))
            elif isinstance(c.func, ast.Attribute) and c.func.attr in ("from_bytes", "to_bytes") and norm(c.func.value) == "int" or (isinstance(c.func, ast.Attribute) and c.func.attr == "to_bytes"):
                order = next((k.value for k in c.keywords if k.arg == "byteorder"), c.args[1] if len(c.args) > 1 else None)
                ov = ctx.folder.fold(fi.module, order) if order is not None else "big"
                rep.unit(fi.key)
                if ov == "little":
                    rep.ok({"fn": fi.qual, "conversion": short(c, 50)})
                else:
                    rep.fail(Finding("C10-ENDIAN", SZ, fi.qual, f"{c.func.attr} byteorder {ov!r}", f"`{short(c, 60)}` converts with byte order {ov!r}: the 7z format is little-endian throughout (the continuation bytes of a variable-length number are its low-order bytes, least significant first); numbers above 16383 are decoded with their bytes swapped", line=c.lineno))
    # names are UTF-16LE code units: a terminator is a zero UNIT; a byte-wise search for two zero bytes also hits the high byte of one
    # character followed by the low byte of the next ('a\u4e00' = 61 00 00 4e)
    for fi in m.functions.values():
        for c in ast.walk(fi.node):
            if isinstance(c, ast.Call) and isinstance(c.func, ast.Attribute) and c.func.attr in ("find", "index", "split", "partition") and c.args and ctx.folder.fold(fi.module, c.args[0]) == b"\x00\x00":
                rep.fail(Finding("C10-ENDIAN", SZ, fi.qual, f"byte-wise search for the UTF-16 terminator: .{c.func.attr}", f"`{short(c, 60)}` looks for two zero bytes at any offset: in UTF-16 data that also matches across two characters (...00 | 00...), names are cut short and every later name shifts", line=c.lineno))
    return rep


def rule_order(ctx: Ctx) -> RuleReport:
    rep = RuleReport("C10-ORDER", "member sequences are never reordered between listing and yielding")
    seqs = {"infolist", "getmembers", "list"}
    for rel in (ARCH,):
        for fi in ctx.p.module(rel).functions.values():
            # member sequences of this function: results of the listing calls, and local lists filled inside a loop over such a sequence
            member_lists = set()
            for n in walk_own(fi.node):
                if isinstance(n, ast.Assign) and len(n.targets) == 1 and isinstance(n.targets[0], ast.Name) and isinstance(n.value, ast.Call) and isinstance(n.value.func, ast.Attribute) and n.value.func.attr in seqs:
                    member_lists.add(n.targets[0].id)
            changed = True
            while changed:
                changed = False
                for n in walk_own(fi.node):
                    if isinstance(n, ast.For):
                        over = norm(n.iter)
                        is_member_loop = (isinstance(n.iter, ast.Call) and isinstance(n.iter.func, ast.Attribute) and n.iter.func.attr in seqs) or over in member_lists
                        if is_member_loop:
                            for x in ast.walk(n):
                                if isinstance(x, ast.Call) and isinstance(x.func, ast.Attribute) and x.func.attr == "append" and isinstance(x.func.value, ast.Name) and x.func.value.id not in member_lists:
                                    member_lists.add(x.func.value.id)
                                    changed = True
            member_lists |= {a.arg for a in fi.node.args.args if a.arg in ("file_list", "members", "files_to_process")}
            for n in walk_own(fi.node):
                if isinstance(n, ast.Call):
                    d = dotted(n.func) or ""
                    if d in ("sorted", "reversed", "set", "frozenset", "random.shuffle") and n.args:
                        inner = n.args[0]
                        names = {x.id for x in ast.walk(inner) if isinstance(x, ast.Name)}
                        listing = any(isinstance(x, ast.Call) and isinstance(x.func, ast.Attribute) and x.func.attr in seqs for x in ast.walk(inner))
                        if listing or names & member_lists:
                            rep.fail(Finding("C10-ORDER", rel, fi.qual, short(n), "the member sequence is reordered: results no longer come in archive order", line=n.lineno))
                    if isinstance(n.func, ast.Attribute) and n.func.attr in ("sort", "reverse") and isinstance(n.func.value, ast.Name) and n.func.value.id in member_lists:
                        rep.fail(Finding("C10-ORDER", rel, fi.qual, short(n), "the member work list is reordered in place", line=n.lineno))
                if isinstance(n, ast.For) and isinstance(n.iter, ast.Call) and isinstance(n.iter.func, ast.Attribute) and n.iter.func.attr in seqs:
                    rep.ok({"loop": f"{fi.qual}: for {norm(n.target)} in {norm(n.iter)}", "order": "as listed"})
                if isinstance(n, ast.For) and isinstance(n.iter, ast.Name) and n.iter.id in member_lists:
                    rep.ok({"loop": f"{fi.qual}: for {norm(n.target)} in {norm(n.iter)}", "order": "as built"})
    # the 7z file list is handed out as parsed
    lst = ctx.p.func(SZ, "SevenZipReader.list")
    if [norm(s) for s in lst.node.body if not isinstance(s, ast.Expr)] == ["return self._files.copy()"]:
        rep.ok({"SevenZipReader.list": "copy of the parsed file list"})
    else:
        rep.fail(Finding("C10-ORDER", SZ, lst.qual, " ; ".join(norm(s) for s in lst.node.body)[:120], "SevenZipReader.list no longer returns the parsed list unchanged", line=lst.node.lineno))
    return rep


def rule_sib(ctx: Ctx) -> RuleReport:
    rep = RuleReport("C10-SIB", "the three per-member loops isolate a failing member (catch-all: log and continue)")
    family = exception_family(ctx)
    for fi, c in _pe_calls(ctx):
        rep.unit(fi.key)
        tries = [t for t in walk_own(fi.node) if isinstance(t, ast.Try) and any(x is c for st in t.body for x in ast.walk(st))]
        loop = _enclosing_loop(fi.node, c)
        inner = [t for t in tries if loop is not None and any(x is t for x in ast.walk(loop))]
        if not inner:
            rep.fail(Finding("C10-SIB", ARCH, fi.qual, short(c), "reading/processing one member is not enclosed by a per-member try inside the loop: one bad member ends the whole archive", line=c.lineno))
            continue
        t = inner[-1]
        alls = [h for h in t.handlers if any(n in ("Exception", "BaseException", "<bare>") for n in _handler_names(h))]
        if not alls:
            rep.fail(Finding("C10-SIB", ARCH, fi.qual, "except " + " | ".join(",".join(_handler_names(h)) for h in t.handlers), "the per-member try has no catch-all: a corrupt member (bad CRC, zlib/lzma error, OSError) aborts the remaining members", line=t.lineno))
            continue
        h = alls[0]
        last = h.body[-1] if h.body else None
        raises = [x for st in h.body for x in ast.walk(st) if isinstance(x, ast.Raise)]
        if raises:
            rep.fail(Finding("C10-SIB", ARCH, fi.qual, "except Exception: " + short(raises[0], 40), "the per-member catch-all re-raises: a corrupt member aborts the archive", line=h.lineno))
        elif all(_nonraising(s) or _is_log_only(s) for s in h.body):
            rep.ok({"loop": fi.qual, "catch_all": "log and continue"})
        else:
            rep.fail(Finding("C10-SIB", ARCH, fi.qual, short(h.body[0]), "a statement in the per-member handler can raise", line=h.lineno))
        # the read of the member is inside the same try
        rd = READS.get(fi.qual)
        if rd:
            rc = [x for x in calls_in(fi) if isinstance(x.func, ast.Attribute) and x.func.attr == rd[0] and isinstance(x.func.value, ast.Name)]
            for x in rc:
                if any(y is x for st in t.body for y in ast.walk(st)):
                    rep.ok({"loop": fi.qual, "read_inside_try": norm(x.func)})
                else:
                    rep.fail(Finding("C10-SIB", ARCH, fi.qual, short(x), "the member is read outside the per-member try", line=x.lineno))
        # other handlers that re-raise: only family classes (conversion rules are C08-OVER's)
        for h2 in t.handlers:
            if h2 is h:
                continue
            l2 = h2.body[-1] if h2.body else None
            if isinstance(l2, ast.Raise):
                from sa.rules.common import raised_class

                cls = raised_class(l2)
                if cls is None or cls in family:
                    rep.ok()
                else:
                    rep.fail(Finding("C10-SIB", ARCH, fi.qual, "except " + ",".join(_handler_names(h2)), f"per-member handler raises {cls}", line=h2.lineno))
    # 7z: one folder that does not decode must not end the extraction of the others
    ex7 = ctx.p.func(SZ, "SevenZipReader.extractall")
    rep.unit(ex7.key)
    floop = next((l for l in walk_own(ex7.node) if isinstance(l, ast.For) and "self._folders" in norm(l.iter)), None)
    if floop is None:
        raise AnalysisError("C10-SIB: folder loop of SevenZipReader.extractall not found")
    dtry = [t for t in ast.walk(floop) if isinstance(t, ast.Try) and any(isinstance(c, ast.Call) and (dotted(c.func) or "") == "self._decompress_folder" for st in t.body for c in ast.walk(st))]
    if not dtry:
        rep.fail(Finding("C10-SIB", SZ, ex7.qual, "folder decode not guarded", "the decoding of a 7z folder is not enclosed by a handler: one damaged folder ends the extraction of all others", line=floop.lineno))
    for t in dtry:
        for h in t.handlers:
            raises = [x for st in h.body for x in ast.walk(st) if isinstance(x, ast.Raise)]
            if raises:
                rep.fail(Finding("C10-SIB", SZ, ex7.qual, "folder handler raises", f"`except {norm(h.type) if h.type else ''}` around the decoding of one folder raises inside the folder loop: a damaged folder makes the whole archive fail and every intact member is lost (a corrupt member must affect only itself)", line=raises[0].lineno))
            else:
                rep.ok({"loop": ex7.qual, "damaged_folder": "skipped, the others are extracted"})
    # every step of the loop that can refuse a folder (raises Bad7zFile, itself or through callees) sits inside that handler: a
    # stream that ends early decodes without error and is only noticed when the members are cut out of it
    def _may_raise(fi, depth=0, seen=None):
        seen = seen if seen is not None else set()
        if fi.key in seen or depth > 4:
            return False
        seen.add(fi.key)
        if any(isinstance(n, ast.Raise) for n in walk_own(fi.node)):
            return True
        return any(_may_raise(g, depth + 1, seen) for c in calls_in(fi) for g in resolve_call(ctx.p, fi, c).funcs)

    guarded = {id(x) for t in dtry if not any(isinstance(x, ast.Raise) for h in t.handlers for st in h.body for x in ast.walk(st)) for st in t.body for x in ast.walk(st)}
    for c in [n for st in floop.body for n in ast.walk(st) if isinstance(n, ast.Call)]:
        tg = [g for g in resolve_call(ctx.p, ex7, c).funcs if g.module.rel == SZ]
        if not tg or not any(_may_raise(g) for g in tg):
            continue
        if id(c) in guarded:
            rep.ok({"loop": ex7.qual, "fallible_step": norm(c.func), "inside_folder_handler": True})
        else:
            rep.fail(Finding("C10-SIB", SZ, ex7.qual, f"{norm(c.func)} outside the folder handler", f"`{short(c, 60)}` can refuse a folder (raises Bad7zFile) but is called outside the per-folder handler: a folder whose stream decodes to fewer bytes than its members need makes the whole archive fail and every intact member is lost", line=c.lineno))
    return rep


def _truth(e, env):
    """Propositional value of a condition; every sub-expression that is not and/or/not is an atom looked up by its text."""
    if isinstance(e, ast.BoolOp):
        vals = [_truth(v, env) for v in e.values]
        return all(vals) if isinstance(e.op, ast.And) else any(vals)
    if isinstance(e, ast.UnaryOp) and isinstance(e.op, ast.Not):
        return not _truth(e.operand, env)
    return env[norm(e)]


def _atoms(e, out):
    if isinstance(e, ast.BoolOp):
        for v in e.values:
            _atoms(v, out)
    elif isinstance(e, ast.UnaryOp) and isinstance(e.op, ast.Not):
        _atoms(e.operand, out)
    else:
        out.add(norm(e))
    return out


def _expand(e, defs):
    """Replace local names by their (single) definition in the loop body, recursively."""
    import copy

    class T(ast.NodeTransformer):
        def visit_Name(self, n):
            return _expand(defs[n.id], {k: v for k, v in defs.items() if k != n.id}) if n.id in defs and isinstance(n.ctx, ast.Load) else n

    return T().visit(copy.deepcopy(e))


def _streams_consumed(ctx, rep):
    """7z: an entry consumes a sub-stream size (and a slot of its folder) exactly when it has a stream, i.e. is not in kEmptyStream."""
    import itertools

    bf = ctx.p.func(SZ, "SevenZipReader._build_file_list")
    rep.unit(bf.key)
    params = [a.arg for a in bf.node.args.args]
    if len(params) < 3:
        raise AnalysisError("C10-FOLDER: _build_file_list lost its parameters")
    ES = params[2]  # the kEmptyStream vector (first vector parameter after num_files)
    loops = sorted([l for l in walk_own(bf.node) if isinstance(l, ast.For)], key=lambda l: l.lineno)
    sized = [l for l in loops if any(isinstance(n, ast.Subscript) and norm(n.value) == "self._file_sizes" for n in ast.walk(l))]
    if not sized:
        raise AnalysisError("C10-FOLDER: no entry loop in _build_file_list takes sizes from self._file_sizes")
    loop = sized[0]
    iv = loop.target.id if isinstance(loop.target, ast.Name) else None
    es_atom = f"{ES}[{iv}]"
    defs = {n.targets[0].id: n.value for n in loop.body if isinstance(n, ast.Assign) and len(n.targets) == 1 and isinstance(n.targets[0], ast.Name)}

    def expand(e):
        class T(ast.NodeTransformer):
            def visit_Name(self, n):
                return expand(defs[n.id]) if n.id in defs and isinstance(n.ctx, ast.Load) else n
        import copy

        return T().visit(copy.deepcopy(e))

    cons = [n for n in ast.walk(loop) if isinstance(n, ast.Subscript) and norm(n.value) == "self._file_sizes" and isinstance(n.ctx, ast.Load)]
    if not cons:
        raise AnalysisError("C10-FOLDER: _build_file_list no longer takes sizes from self._file_sizes")
    for c in cons:
        conds, opaque, _ = path_conditions(bf.node, next(st for st in ast.walk(loop) if isinstance(st, ast.stmt) and any(x is c for x in ast.walk(st)) and not isinstance(st, (ast.If, ast.For, ast.While, ast.Try))))
        tests = []
        for cd in conds:
            try:
                tests.append(expand(ast.parse(str(cd), mode="eval").body))
            except SyntaxError:
                pass
        atoms = set()
        for t in tests:
            _atoms(t, atoms)
        if es_atom not in atoms:
            rep.fail(Finding("C10-FOLDER", SZ, bf.qual, "size consumed regardless of kEmptyStream", f"an entry takes the next sub-stream size without a test of `{es_atom}`: entries without a stream (directories, empty files) consume the size of the following file", line=c.lineno))
            continue
        bad = None
        alist = sorted(atoms)
        for vals in itertools.product([False, True], repeat=len(alist)):
            env = dict(zip(alist, vals))
            if env[es_atom] and all(_truth(t, env) for t in tests):
                bad = {k: v for k, v in env.items() if k != es_atom}
                break
        if bad is None:
            rep.ok({"size_consumed_only_by": f"entries with not {es_atom}", "atoms": alist})
        else:
            rep.fail(Finding("C10-FOLDER", SZ, bf.qual, "empty-stream entry consumes a size", f"an entry with `{es_atom}` true (no stream in the archive) still takes the next sub-stream size when {', '.join(f'{k}={v}' for k, v in sorted(bad.items()))}: it receives the bytes of the following member and every later member is shifted", line=c.lineno))
    # the folder map uses the same predicate the size assignment used
    ctor = [c for c in ast.walk(loop) if isinstance(c, ast.Call) and (dotted(c.func) or "") == "FileInfo"]
    kw = {k.arg: norm(k.value) for c in ctor for k in c.keywords}
    isdir = kw.get("is_directory")
    size_guard_names = {n.id for c in cons for i in ast.walk(loop) if isinstance(i, ast.If) and any(x is c for x in ast.walk(i)) for n in ast.walk(i.test) if isinstance(n, ast.Name)}
    maps = [l for l in loops if l is not loop and any(isinstance(a, ast.Attribute) and a.attr == "folder_index" for a in ast.walk(l))]
    if not maps:
        raise AnalysisError("C10-FOLDER: the loop that maps files to folders was not found")
    mp = maps[0]
    mi = mp.target.elts[0].id if isinstance(mp.target, ast.Tuple) and isinstance(mp.target.elts[0], ast.Name) else (mp.target.id if isinstance(mp.target, ast.Name) else None)
    es_map = f"{ES}[{mi}]"
    # the conditions under which an entry takes a slot (`<entry>.folder_index = ...`), however they are spelled: skip guards that
    # `continue`, or a positive test around the assignment
    slot = next((st for st in ast.walk(mp) if isinstance(st, ast.Assign) and any(isinstance(t, ast.Attribute) and t.attr == "folder_index" for t in st.targets)), None)
    mconds, mopaque, _ = path_conditions(bf.node, slot) if slot is not None else ([], [], [])
    mdefs = {n.targets[0].id: n.value for n in mp.body if isinstance(n, ast.Assign) and len(n.targets) == 1 and isinstance(n.targets[0], ast.Name)}
    mtests = []
    for cd in list(mconds) + [o for o in mopaque if not o.startswith("except ")]:
        try:
            mtests.append(_expand(ast.parse(str(cd), mode="eval").body, mdefs))
        except SyntaxError:
            pass
    matoms = set()
    for t in mtests:
        _atoms(t, matoms)
    ok_dir = isdir and isdir in size_guard_names and any(a.endswith(".is_directory") for a in matoms)
    others = sorted(a for a in matoms if a != es_map)
    covers = es_map in matoms and not any(all(_truth(t, dict(zip(others, vals), **{es_map: True})) for t in mtests) for vals in itertools.product([False, True], repeat=len(others)))
    if ok_dir and covers:
        rep.ok({"folder_map": f"skips directories (`{isdir}`) and every entry with `{es_map}`"})
    elif not ok_dir:
        rep.fail(Finding("C10-FOLDER", SZ, bf.qual, "folder map predicate", "the entries that take a slot in a folder are not selected by the same flag (`is_directory`) that decided whether they took a sub-stream size: files are attached to the wrong folder position", line=mp.lineno))
    else:
        rep.fail(Finding("C10-FOLDER", SZ, bf.qual, "empty-stream entry takes a folder slot", f"the folder map does not skip every entry with `{es_map}`: a zero-length file (no stream) takes the folder slot of the next member, which then receives the wrong bytes", line=mp.lineno))


def rule_kind(ctx: Ctx) -> RuleReport:
    """7z: among the entries without a stream, kEmptyFile separates zero-length files from directories (7zFormat.txt, FilesInfo)."""
    import itertools

    rep = RuleReport("C10-KIND", "7z: the kEmptyFile vector is read and decides whether an entry without a stream is a zero-length file or a directory; zero-length files are created by extractall")
    pf = ctx.p.func(SZ, "SevenZipReader._parse_files_info")
    bf = ctx.p.func(SZ, "SevenZipReader._build_file_list")
    ex = ctx.p.func(SZ, "SevenZipReader.extractall")
    rep.unit(pf.key)
    rep.unit(bf.key)
    # (1) the PROP_EMPTY_FILE branch reads a boolean vector
    br = [i for i in walk_own(pf.node) if isinstance(i, ast.If) and isinstance(i.test, ast.Compare) and norm(i.test.comparators[0]) == "PROP_EMPTY_FILE"]
    if len(br) != 1:
        raise AnalysisError("C10-KIND: the PROP_EMPTY_FILE branch of _parse_files_info was not found")
    reads = [c for st in br[0].body for c in ast.walk(st) if isinstance(c, ast.Call) and (dotted(c.func) or "") == "self._read_boolean_vector"]
    call = [c for c in calls_in(pf) if (dotted(c.func) or "") == "self._build_file_list"]
    if not reads:
        rep.fail(Finding("C10-KIND", SZ, pf.qual, "kEmptyFile skipped", "the kEmptyFile property is skipped: every entry without a stream is taken for a directory, so a zero-length member of a 7z yields no result (the same member of a ZIP or TAR, or the file on its own, yields one)", line=br[0].lineno))
        return rep
    rep.ok({"kEmptyFile": "read as a boolean vector"})
    # (2) the directory flag depends on it with the right polarity
    params = [a.arg for a in bf.node.args.args]
    loops = sorted([l for l in walk_own(bf.node) if isinstance(l, ast.For)], key=lambda l: l.lineno)
    loop = next((l for l in loops if any(isinstance(n, ast.Subscript) and norm(n.value) == "self._file_sizes" for n in ast.walk(l))), None)
    if loop is None or len(params) < 4 or len(call) != 1 or len(call[0].args) < 3:
        raise AnalysisError("C10-KIND: _build_file_list / its call no longer have the recognised shape")
    iv = loop.target.id if isinstance(loop.target, ast.Name) else "i"
    ctor = [c for c in ast.walk(loop) if isinstance(c, ast.Call) and (dotted(c.func) or "") == "FileInfo"]
    kw = {k.arg: k.value for c in ctor for k in c.keywords}
    flag = kw.get("is_directory")
    defs = {n.targets[0].id: n.value for n in loop.body if isinstance(n, ast.Assign) and len(n.targets) == 1 and isinstance(n.targets[0], ast.Name)}
    if flag is None:
        raise AnalysisError("C10-KIND: FileInfo(is_directory=...) not found")
    flag = _expand(flag, defs)
    es, ef = f"{params[2]}[{iv}]", f"{params[3]}[{iv}]"
    # positional correspondence: 2nd / 3rd argument of the call are the vectors read under PROP_EMPTY_STREAM / PROP_EMPTY_FILE
    tgt = {norm(i.test.comparators[0]): {n.targets[0].id for st in i.body for n in ast.walk(st) if isinstance(n, ast.Assign) and isinstance(n.targets[0], ast.Name)} for i in walk_own(pf.node) if isinstance(i, ast.If) and isinstance(i.test, ast.Compare)}
    a1, a2 = norm(call[0].args[1]), norm(call[0].args[2])
    if a1 not in tgt.get("PROP_EMPTY_STREAM", set()) or a2 not in tgt.get("PROP_EMPTY_FILE", set()):
        rep.fail(Finding("C10-KIND", SZ, pf.qual, f"vectors passed: {a1}, {a2}", "the vectors handed to _build_file_list are not the ones read under kEmptyStream and kEmptyFile, in that order", line=call[0].lineno))
        return rep
    atoms = sorted(_atoms(flag, set()))
    if es not in atoms or ef not in atoms:
        rep.fail(Finding("C10-KIND", SZ, bf.qual, "directory flag: " + anorm(flag, bf.node), f"the directory flag `{short(flag, 70)}` does not depend on both `{es}` and `{ef}`", line=flag.lineno))
        return rep
    others = [a for a in atoms if a not in (es, ef)]
    bad = None
    for vals in itertools.product([False, True], repeat=len(others)):
        env = dict(zip(others, vals))
        for e1, e2 in ((True, True), (True, False), (False, False)):
            env[es], env[ef] = e1, e2
            want_dir_if_no_attr = e1 and not e2
            got = _truth(flag, env)
            if not any(vals) and got != want_dir_if_no_attr:
                bad = (e1, e2, got)
            if e1 and not e2 and not got:
                bad = (e1, e2, got)
    if bad is None:
        rep.ok({"directory_flag": short(flag, 70), "truth_table": "empty stream and not empty file -> directory; empty stream and empty file -> file"})
    else:
        rep.fail(Finding("C10-KIND", SZ, bf.qual, "directory flag: " + anorm(flag, bf.node), f"with {es}={bad[0]}, {ef}={bad[1]} and no directory attribute the entry is {'a directory' if bad[2] else 'a file'}: an entry without a stream is a directory exactly when kEmptyFile does not mark it as a file", line=flag.lineno))
    # (3) extractall creates the zero-length files: it iterates a list that _build_file_list fills under `not <dir flag>`
    filled = {norm(c.func.value) for c in ast.walk(loop) if isinstance(c, ast.Call) and isinstance(c.func, ast.Attribute) and c.func.attr == "append" and norm(c.func.value).startswith("self.") and norm(c.func.value) != "self._files"}
    used = {norm(l.iter) for l in walk_own(ex.node) if isinstance(l, ast.For)}
    wr = [l for l in walk_own(ex.node) if isinstance(l, ast.For) and norm(l.iter) in filled and any(isinstance(c, ast.Call) and norm(c.func) == "open" for c in ast.walk(l)) and any(isinstance(c, ast.Call) and norm(c.func) == "_safe_join" for c in ast.walk(l))]
    if wr:
        rep.ok({"extractall": f"creates every entry of {norm(wr[0].iter)} through _safe_join"})
    else:
        rep.fail(Finding("C10-KIND", SZ, ex.qual, "zero-length files not created", "extractall never creates the zero-length files (they belong to no folder): read_archive finds no file to hand to the extractor", line=ex.node.lineno))
    return rep


def rule_folder(ctx: Ctx) -> RuleReport:
    rep = RuleReport("C10-FOLDER", "7z: the read position of each folder depends on the folder being decoded; sub-stream sizes and folder slots are consumed exactly by entries that have a stream")
    _streams_consumed(ctx, rep)
    ex = ctx.p.func(SZ, "SevenZipReader.extractall")
    rep.unit(ex.key)
    loops = [n for n in walk_own(ex.node) if isinstance(n, ast.For) and "self._folders" in norm(n.iter)]
    if not loops:
        raise AnalysisError("C10-FOLDER: folder loop of extractall not found")
    loop = loops[0]
    lvars = {n.id for n in ast.walk(loop.target) if isinstance(n, ast.Name)}
    # names whose value varies from folder to folder: loop variables, accumulators, and anything computed from those
    assigned_in_loop = set()
    changed = True
    while changed:
        changed = False
        for n in ast.walk(ast.Module(body=loop.body, type_ignores=[])):
            tgt, val = None, None
            if isinstance(n, ast.AugAssign) and isinstance(n.target, ast.Name):
                tgt, val = [n.target], None
            elif isinstance(n, ast.Assign):
                tgt, val = n.targets, n.value
            elif isinstance(n, ast.AnnAssign) and n.value is not None:
                tgt, val = [n.target], n.value
            if tgt is None:
                continue
            varying = val is None or bool({x.id for x in ast.walk(val) if isinstance(x, ast.Name)} & (lvars | assigned_in_loop))
            if varying:
                for t in tgt:
                    for x in ast.walk(t):
                        if isinstance(x, ast.Name) and x.id not in assigned_in_loop:
                            assigned_in_loop.add(x.id)
                            changed = True
    calls = [c for c in ast.walk(ast.Module(body=loop.body, type_ignores=[])) if isinstance(c, ast.Call) and (dotted(c.func) or "").endswith("_decompress_folder")]
    if not calls:
        raise AnalysisError("C10-FOLDER: _decompress_folder call not found in the folder loop")
    c = calls[0]
    df = ctx.p.func(SZ, "SevenZipReader._decompress_folder")
    params = [a.arg for a in df.node.args.args][1:]
    pos_args = {}
    for i, a in enumerate(c.args):
        if i < len(params):
            pos_args[params[i]] = a
    for k in c.keywords:
        pos_args[k.arg] = k.value
    for pname in ("pack_pos", "pack_sizes"):
        a = pos_args.get(pname)
        if a is None:
            raise AnalysisError(f"C10-FOLDER: argument {pname} of _decompress_folder not found")
        names = {n.id for n in ast.walk(a) if isinstance(n, ast.Name)}
        depends = bool(names & (lvars | assigned_in_loop)) or any(isinstance(n, ast.Subscript) and {x.id for x in ast.walk(n.slice) if isinstance(x, ast.Name)} & (lvars | assigned_in_loop) for n in ast.walk(a))
        if depends:
            rep.ok({"extractall": f"{pname} = {norm(a)} varies with the folder"})
        else:
            rep.fail(Finding("C10-FOLDER", SZ, ex.qual, f"{pname}={norm(a)}", f"`{pname}` passed to _decompress_folder is the same for every folder: with more than one folder every folder is decoded from the first pack stream", line=c.lineno))
    # a position that is carried from folder to folder (an accumulator) is advanced on every way round the loop: the handler that skips a
    # damaged folder (`continue`) and the folders without files must advance it too, or every later folder is read from the wrong offset
    a = pos_args.get("pack_pos")
    acc = [x.id for x in ast.walk(a) if isinstance(x, ast.Name) and x.id not in lvars] if a is not None else []
    for name in acc:
        augs = [n for n in ast.walk(ast.Module(body=loop.body, type_ignores=[])) if isinstance(n, ast.AugAssign) and isinstance(n.target, ast.Name) and n.target.id == name]
        plain = [n for n in ast.walk(ast.Module(body=loop.body, type_ignores=[])) if isinstance(n, ast.Assign) and any(isinstance(t, ast.Name) and t.id == name for t in n.targets)]
        if not augs:
            continue  # recomputed from the folder index each time (the form of the repaired tree): nothing is carried
        if plain and all({x.id for x in ast.walk(p.value) if isinstance(x, ast.Name)} & lvars for p in plain):
            continue
        cfg = ctx.cfg(ex)
        adv = [x for n in augs for x in cfg.evaluators(n)]
        heads = [nd.id for nd in cfg.nodes if nd.kind in ("loop", "test", "for") and getattr(nd, "ast", None) is loop] or cfg.evaluators(loop.iter)
        # every `continue` of the loop, and the end of the body, is preceded by the advance on all paths from the loop head
        exits_ = [x for n in ast.walk(ast.Module(body=loop.body, type_ignores=[])) if isinstance(n, ast.Continue) for x in cfg.evaluators(n)]
        missed = [e for e in exits_ if not normally_dominates_within(cfg, adv, e, heads)]
        if missed:
            ln = cfg.nodes[missed[0]].ast.lineno if hasattr(cfg.nodes[missed[0]], "ast") and hasattr(cfg.nodes[missed[0]].ast, "lineno") else loop.lineno
            rep.fail(Finding("C10-FOLDER", SZ, ex.qual, f"accumulated {name} not advanced before continue", f"`{name}` is carried from folder to folder (`{short(augs[0], 40)}`) but a `continue` of the folder loop (line {ln}) is reached without advancing it: after a damaged or file-less folder every later folder is decoded from the wrong offset and its members are lost", line=ln))
        else:
            rep.ok({"extractall": f"{name} advanced on every way round the folder loop"})
    # _decompress_folder keeps no hidden cursor
    stores = [n for n in walk_own(df.node) if isinstance(n, (ast.Assign, ast.AugAssign)) and any(isinstance(t, ast.Attribute) and isinstance(t.value, ast.Name) and t.value.id == "self" for t in (n.targets if isinstance(n, ast.Assign) else [n.target]))]
    if stores:
        rep.info.append("_decompress_folder writes attributes: " + "; ".join(norm(s) for s in stores))
    return rep


def normally_dominates_within(cfg, through, target: int, heads) -> bool:
    """Every path from a loop head to `target` passes one of `through` (paths that leave the head again are cut at the head)."""
    through = set(through)
    if target in through:
        return True
    seen, stack = set(), [s_ for h in heads for s_ in cfg.succ[h]]
    while stack:
        n = stack.pop()
        if n in seen or n in through:
            continue
        seen.add(n)
        if n == target:
            return False
        if n in heads:
            continue
        stack.extend(cfg.succ[n])
    return True


def rule_dispatch(ctx: Ctx) -> RuleReport:
    rep = RuleReport("C10-DISPATCH", "detected archive types = handled archive types; tar modes valid")
    sigs = ctx.const(ARCH, "MAGIC_SIGNATURES")
    if sigs is UNKNOWN:
        raise AnalysisError("C10-DISPATCH: MAGIC_SIGNATURES no longer foldable")
    det = ctx.p.func(ARCH, "_detect_archive_type_optimized")
    types = {t for (_m, t, _l) in sigs}
    for n in walk_own(det.node):
        if isinstance(n, ast.Return) and isinstance(n.value, ast.Constant) and isinstance(n.value.value, str):
            types.add(n.value.value)
    for (magic, t, length) in sigs:
        if len(magic) == length:
            rep.ok({"signature": t, "length": length})
        else:
            rep.fail(Finding("C10-DISPATCH", ARCH, "MAGIC_SIGNATURES", f"{magic!r}, {t}, {length}", "declared signature length differs from the signature: the prefix comparison can never / always match"))
    # signatures are the formats' own magic numbers (a changed byte detects another / no format)
    SPEC = {"zip": {b"PK\x03\x04", b"PK\x05\x06", b"PK\x07\x08"}, "7z": {b"7z\xbc\xaf\x27\x1c"}, "tar.gz": {b"\x1f\x8b"}, "tar.bz2": {b"BZh"}, "tar.xz": {b"\xfd7zXZ\x00"}}
    for (magic, t, _l) in sigs:
        if t in SPEC and len(magic) >= 2 and any(m.startswith(magic) for m in SPEC[t]):  # a prefix of the magic number is still that format's signature
            rep.ok({"signature": t, "magic": magic.hex()})
        elif t in SPEC:
            rep.fail(Finding("C10-DISPATCH", ARCH, "MAGIC_SIGNATURES", f"{t}: {magic!r}", f"the signature {magic!r} registered for {t} is not that format's magic number ({', '.join(sorted(repr(x) for x in SPEC[t]))})"))
    # uncompressed TAR: 'ustar' at offset 257 — POSIX writes 'ustar\\0' + '00', GNU tar 'ustar  \\0': only the five letters are common
    tm, to = ctx.const(ARCH, "TAR_MAGIC"), ctx.const(ARCH, "TAR_MAGIC_OFFSET")
    if tm == b"ustar" and to == 257:
        rep.ok({"signature": "tar", "magic": "ustar @257 (prefix shared by POSIX and GNU headers)"})
    else:
        rep.fail(Finding("C10-DISPATCH", ARCH, "TAR_MAGIC", f"{tm!r} @ {to!r}", f"uncompressed TAR is recognised by {tm!r} at offset {to!r}; the magic field is 'ustar\\0' in POSIX/pax headers but 'ustar  \\0' in GNU tar's default format, so anything longer than the five letters b'ustar' at offset 257 rejects one of them"))
    # a TAR starts with the name of its first member: the ustar test comes before the prefix signatures
    sig_loop = next((l for l in walk_own(det.node) if isinstance(l, ast.For) and norm(l.iter) == "MAGIC_SIGNATURES"), None)
    tar_ret = next((r for r in walk_own(det.node) if isinstance(r, ast.Return) and isinstance(r.value, ast.Constant) and r.value.value == "tar"), None)
    if sig_loop is None or tar_ret is None:
        raise AnalysisError("C10-DISPATCH: the signature loop / the `return 'tar'` of the detector was not found")
    cfgd = ctx.cfg(det)
    from sa.engine.cfg import normally_dominates as _nd
    tar_tests = [i for i in walk_own(det.node) if isinstance(i, ast.If) and any(x is tar_ret for x in ast.walk(i)) and "TAR_MAGIC" in norm(i.test)]
    if tar_tests and all(_nd(cfgd, cfgd.evaluators(tar_tests[0].test), b) for b in cfgd.evaluators(sig_loop.iter)):
        rep.ok({"order": "ustar @257 is tested before the prefix signatures"})
    else:
        rep.fail(Finding("C10-DISPATCH", ARCH, det.qual, "prefix signatures before the ustar test", "the prefix signatures are compared before the ustar magic at offset 257: an uncompressed TAR whose first member name begins like a signature ('BZ2020.txt', 'PK...') is taken for that format and rejected", line=sig_loop.lineno))
    ra = ctx.p.func(ARCH, "read_archive")
    handled = set()
    # the local that holds the detected type: assigned from the detector call
    tvars = {n.targets[0].id for n in walk_own(ra.node) if isinstance(n, ast.Assign) and len(n.targets) == 1 and isinstance(n.targets[0], ast.Name)
             and isinstance(n.value, ast.Call) and (dotted(n.value.func) or "").endswith("_detect_archive_type_optimized")}
    if len(tvars) != 1:
        raise AnalysisError(f"C10-DISPATCH: read_archive no longer keeps the detector result in one local ({sorted(tvars)})")
    TV = next(iter(tvars))
    for n in walk_own(ra.node):
        if isinstance(n, ast.Compare) and norm(n.left) == TV and len(n.ops) == 1:
            v = ctx.folder.fold(ra.module, n.comparators[0])
            if isinstance(n.ops[0], ast.Eq) and isinstance(v, str):
                handled.add(v)
            elif isinstance(n.ops[0], ast.In) and isinstance(v, (tuple, list, set, frozenset)):
                handled |= set(v)
    for t in sorted(types):
        if t in handled:
            rep.ok({"type": t, "handled": True})
        else:
            rep.fail(Finding("C10-DISPATCH", ARCH, "read_archive", t, f"the detector can return '{t}' but read_archive has no branch for it", line=ra.node.lineno))
    for t in sorted(handled - types):
        rep.info.append(f"read_archive handles '{t}' which the detector never returns")
    for t in sorted(handled):
        if t.startswith("tar"):
            mode = t.split(".")[-1]
            if mode in ("tar", "gz", "bz2", "xz"):
                rep.ok({"tar_mode": f"r:{mode}"})
            else:
                rep.fail(Finding("C10-DISPATCH", ARCH, "read_archive", t, f"tar mode r:{mode} is not a tarfile mode"))
    mode_args = [c.args[2] for c in calls_in(ra) if (dotted(c.func) or "").endswith("_extract_from_tar_optimized") and len(c.args) > 2]
    modes = [norm(a) for a in mode_args]

    def _mode_ok(a):
        return (isinstance(a, ast.JoinedStr) and len(a.values) == 2 and isinstance(a.values[0], ast.Constant) and a.values[0].value == "r:"
                and isinstance(a.values[1], ast.FormattedValue) and norm(a.values[1].value) in (f"{TV}.split('.')[-1]", f'{TV}.split(".")[-1]'))

    if mode_args and all(_mode_ok(a) for a in mode_args):
        rep.ok({"tar_mode_expr": modes[0]})
    elif modes:
        rep.fail(Finding("C10-DISPATCH", ARCH, "read_archive", modes[0], "tar mode is no longer derived as r:<last component of the detected type>", line=ra.node.lineno))
    return rep


def _disjuncts(test):
    if isinstance(test, ast.BoolOp) and isinstance(test.op, ast.Or):
        out = []
        for v in test.values:
            out.extend(_disjuncts(v))
        return out
    return [test]


# clauses in terms of the two parameters (p0 = member name, p1 = base name); v0.. = locals
SKIP_CLAUSES = {
    "p1.startswith('.')": "hidden file",
    "p0.startswith('__MACOSX/')": "macOS resource fork",
    "not _is_supported_file_cached(p1)": "unsupported type",
    "any((v0.endswith(v1) for v1 in NESTED_ARCHIVE_EXTENSIONS))": "nested archive (v0 = lower-cased base name)",
    "_get_file_extractor_cached(p1) is read_archive": "nested archive (whatever the router sends back to the archive reader)",
}


def rule_exact(ctx: Ctx) -> RuleReport:
    rep = RuleReport("C10-EXACT", "the member filter skips exactly the documented classes (hidden, __MACOSX, unsupported, nested archive) — nothing more")
    sk = ctx.p.func(ARCH, "_should_skip_file")
    rep.unit(sk.key)
    found = []
    prm = [a.arg for a in sk.node.args.args]
    if len(prm) != 2:
        raise AnalysisError(f"C10-EXACT: _should_skip_file no longer takes (member name, base name): {prm}")
    import copy as _copy

    def canon(test):
        t = _copy.deepcopy(test)
        for x in ast.walk(t):
            if isinstance(x, ast.Name) and x.id in prm:
                x.id = f"p{prm.index(x.id)}"
        return anorm(t, rename=local_names(sk.node))

    for st in sk.node.body:
        if isinstance(st, ast.If) and st.body and isinstance(st.body[-1], ast.Return) and norm(st.body[-1]) == "return True":
            found.extend(canon(d) for d in _disjuncts(st.test))
        elif isinstance(st, (ast.For, ast.While, ast.Try, ast.With)):
            raise AnalysisError("C10-EXACT: _should_skip_file is no longer a sequence of `if <clause>: return True`")
    for d in found:
        if d in SKIP_CLAUSES:
            rep.ok({"skip_clause": d, "meaning": SKIP_CLAUSES[d]})
        else:
            rep.fail(Finding("C10-EXACT", ARCH, sk.qual, d, f"members are skipped under a condition that is not one of the documented classes: `{d}` — supported, visible members can be lost", line=sk.node.lineno))
    if isinstance(sk.node.body[-1], ast.Return) and norm(sk.node.body[-1]) == "return False":
        rep.ok({"default": "return False"})
    else:
        rep.fail(Finding("C10-EXACT", ARCH, sk.qual, norm(sk.node.body[-1])[:80], "the member filter does not end in `return False` (keep the member)", line=sk.node.lineno))
    # the size tests use strict '>' against the configured per-member limit (a member exactly at the limit is kept)
    def member_var(f):
        """Loop variable of the listing loop (for X in <archive>.infolist() / getmembers() / list())."""
        for n in walk_own(f.node):
            if isinstance(n, ast.For) and isinstance(n.iter, ast.Call) and isinstance(n.iter.func, ast.Attribute) and n.iter.func.attr in ("infolist", "getmembers", "list") and isinstance(n.target, ast.Name):
                return n.target.id
            if isinstance(n, ast.For) and isinstance(n.iter, ast.Name) and isinstance(n.target, ast.Name) and any(
                    isinstance(a, ast.Assign) and any(isinstance(t, ast.Name) and t.id == n.iter.id for t in a.targets) and isinstance(a.value, ast.Call) and isinstance(a.value.func, ast.Attribute)
                    and a.value.func.attr in ("infolist", "getmembers", "list") for a in walk_own(f.node)):
                return n.target.id
        raise AnalysisError(f"C10-EXACT: listing loop of {f.qual} not found")

    for fnq, attr in (("_extract_from_zip_optimized", "file_size"), ("_extract_from_tar_optimized", "size"), ("_extract_from_7z_optimized", "uncompressed")):
        f = ctx.p.func(ARCH, fnq)
        mv = member_var(f)
        tests = [norm(n.test) for n in walk_own(f.node) if isinstance(n, ast.If) and "max_memory_size" in norm(n.test)]
        if tests == [f"{mv}.{attr} > _config.max_memory_size"]:
            rep.ok({fnq: tests[0]})
        else:
            rep.fail(Finding("C10-EXACT", ARCH, fnq, "; ".join(tests) or "no size test", f"per-member size test is not `<member>.{attr} > _config.max_memory_size`", line=f.node.lineno))
    # directory / non-regular entries are the only other members dropped before the filter
    expect_pre = {"_extract_from_zip_optimized": {"{m}.is_dir()"}, "_extract_from_tar_optimized": {"not {m}.isreg()"}, "_extract_from_7z_optimized": {"{m}.is_directory"}}
    for fnq, want0 in expect_pre.items():
        f = ctx.p.func(ARCH, fnq)
        mv = member_var(f)
        want = {w.format(m=mv) for w in want0}
        pre = set()
        for n in walk_own(f.node):
            if isinstance(n, ast.If) and n.body and isinstance(n.body[-1], ast.Continue) and "max_memory_size" not in norm(n.test) and "_should_skip_file" not in norm(n.test):
                pre.add(n.test)
        # `<x> is None` on the stream returned by extractfile(member): the member has no data stream
        def none_of_extractfile(t):
            if isinstance(t, ast.Compare) and len(t.ops) == 1 and isinstance(t.ops[0], ast.Is) and isinstance(t.left, ast.Name) and isinstance(t.comparators[0], ast.Constant) and t.comparators[0].value is None:
                return any(isinstance(a, ast.Assign) and any(isinstance(x, ast.Name) and x.id == t.left.id for x in a.targets) and isinstance(a.value, ast.Call) and isinstance(a.value.func, ast.Attribute) and a.value.func.attr == "extractfile" for a in walk_own(f.node))
            return False
        extra = {norm(t) for t in pre if norm(t) not in want and not none_of_extractfile(t)}
        if extra:
            rep.fail(Finding("C10-EXACT", ARCH, fnq, "; ".join(sorted(extra)), f"members are dropped under an undocumented condition: {sorted(extra)}", line=f.node.lineno))
        else:
            rep.ok({fnq: f"only {sorted(want0)} dropped before the filter"})
    return rep


def rule_codec(ctx: Ctx) -> RuleReport:
    rep = RuleReport("C10-CODEC", "7z coder plumbing: LZMA2 dictionary size per the xz/7z property encoding, LZMA-alone header, decoder order")
    from sa.engine.shape import compare

    f2 = ctx.p.func(SZ, "SevenZipReader._decompress_lzma2")
    rep.unit(f2.key)
    # dictionary size as a function of the property byte p, decided over the complete finite domain 0..39 by folding the
    # (pure, closed) arithmetic of the function for every p and comparing with the xz/7z encoding (2 | (p & 1)) << (p // 2 + 11)
    pvar = None
    for n in f2.node.body:
        if isinstance(n, ast.Assign) and isinstance(n.targets[0], ast.Name) and norm(n.value) == "properties[0]":
            pvar = n.targets[0].id
    if pvar is None:
        raise AnalysisError("C10-CODEC: the LZMA2 property byte is no longer read as properties[0]")
    from sa.engine.consts import UNKNOWN as _U
    # the local that is handed to the decoder as filter option "dict_size"
    ds_names = {v.id for d in ast.walk(f2.node) if isinstance(d, ast.Dict) for k_, v in zip(d.keys, d.values) if isinstance(k_, ast.Constant) and k_.value == "dict_size" and isinstance(v, ast.Name)}
    if len(ds_names) != 1:
        raise AnalysisError(f"C10-CODEC: the dict_size filter option of _decompress_lzma2 is no longer a single local ({sorted(ds_names)})")
    DS = next(iter(ds_names))

    def run(stmts, env):
        for st in stmts:
            if isinstance(st, ast.If):
                t = ctx.folder.fold(f2.module, st.test, env)
                if t is _U:
                    if any(isinstance(x, ast.Name) and x.id == pvar for x in ast.walk(st.test)):
                        raise AnalysisError(f"C10-CODEC: cannot fold `{norm(st.test)}`")
                    continue
                run(st.body if t else st.orelse, env)
            elif isinstance(st, ast.Assign) and len(st.targets) == 1 and isinstance(st.targets[0], ast.Name) and st.targets[0].id != pvar:
                v = ctx.folder.fold(f2.module, st.value, env)
                if v is not _U:
                    env[st.targets[0].id] = v
                elif st.targets[0].id == DS:
                    raise AnalysisError(f"C10-CODEC: cannot fold `{norm(st.value)}`")

    wrong = []
    for k in range(40):
        env = {pvar: k}
        run(f2.node.body, env)
        got = env.get(DS)
        want_v = (2 | (k & 1)) << (k // 2 + 11)
        if got != want_v:
            wrong.append((k, got, want_v))
    if not wrong:
        rep.ok({"lzma2_dict_size": "equals (2 | (p & 1)) << (p // 2 + 11) for every property byte p in 0..39", "domain": 40})
    else:
        k, got, want_v = wrong[0]
        rep.fail(Finding("C10-CODEC", SZ, f2.qual, "dict_size", f"LZMA2 dictionary size differs from the 7z/xz encoding for {len(wrong)} of 40 property bytes (e.g. p={k}: {got} instead of {want_v}); members packed with those settings decode to corrupt data or fail", line=f2.node.lineno))
    f1 = ctx.p.func(SZ, "SevenZipReader._decompress_lzma")
    txt = [norm(s) for s in f1.node.body]
    hdr_ok = False
    for st_ in f1.node.body:
        if isinstance(st_, ast.Assign) and len(st_.targets) == 1 and isinstance(st_.targets[0], ast.Name) and isinstance(st_.value, ast.BinOp):
            v = st_.value  # (properties[:5] + <size>) + data
            if isinstance(v.op, ast.Add) and norm(v.right) == "data" and isinstance(v.left, ast.BinOp) and isinstance(v.left.op, ast.Add) and norm(v.left.left) == "properties[:5]" and isinstance(v.left.right, ast.Name):
                sz = v.left.right.id
                for d_ in f1.node.body:
                    if isinstance(d_, ast.Assign) and len(d_.targets) == 1 and isinstance(d_.targets[0], ast.Name) and d_.targets[0].id == sz:
                        if anorm(d_.value, f1.node) == "struct.pack('<Q', v0) if v0 >= 0 else b'\\xff' * 8":
                            hdr_ok = True
    if hdr_ok:
        rep.ok({"lzma_alone_header": "props[:5] + <Q size (or 8 x 0xFF) + data"})
    else:
        rep.fail(Finding("C10-CODEC", SZ, f1.qual, " ; ".join(txt)[-200:], "LZMA-alone header is not props[:5] + 8-byte little-endian size + data", line=f1.node.lineno))
    df = ctx.p.func(SZ, "SevenZipReader._decompress_folder")
    loops = [n for n in walk_own(df.node) if isinstance(n, ast.For)]
    if loops and norm(loops[0].iter) == "reversed(folder.coders)":
        rep.ok({"decoder_order": "reversed(folder.coders)"})
    else:
        rep.fail(Finding("C10-CODEC", SZ, df.qual, norm(loops[0].iter) if loops else "no loop", "coders are not applied in reverse order", line=df.node.lineno))
    ap = ctx.p.func(SZ, "SevenZipReader._apply_decoder")
    table = {}
    for n in ap.node.body:
        if isinstance(n, ast.If) and isinstance(n.test, ast.Compare) and norm(n.test.left) == "coder_id" and isinstance(n.body[-1], ast.Return):
            table[norm(n.test.comparators[0])] = norm(n.body[-1].value)
    want = {"CODER_COPY": "data", "CODER_LZMA": "self._decompress_lzma(data, properties, unpack_sizes)", "CODER_LZMA2": "self._decompress_lzma2(data, properties"}
    for k, v in want.items():
        if (table.get(k) or "").startswith(v):
            rep.ok({"coder": k, "decoder": v})
        else:
            rep.fail(Finding("C10-CODEC", SZ, ap.qual, f"{k}: {table.get(k)}", f"coder {k} is not decoded by `{v}`", line=ap.node.lineno))
    ids = {"CODER_COPY": b"\x00", "CODER_LZMA": bytes.fromhex("030101"), "CODER_LZMA2": b"\x21"}
    for k, v in ids.items():
        c = ctx.const(SZ, k)
        if c == v:
            rep.ok({"coder_id": k})
        else:
            rep.fail(Finding("C10-CODEC", SZ, k, repr(c), f"7z coder id {k} must be {v.hex()}"))
    return rep


def rule_tables(ctx: Ctx) -> RuleReport:
    """The member filter asks the router twice (is it supported? is it an archive?), outside the per-member handler: when the router's
    tables disagree -- a MIME type mapped to a file type that has no extractor -- the first such member raises out of the filter and the
    whole archive fails (= C07-TABLES)."""
    from sa.rules.c07 import rule_tables as r07

    rep = r07(ctx)
    rep.rule = "C10-TABLES"
    rep.description = "the router's tables are closed (every mapped file type has an extractor): the member filter, which consults them outside the per-member handler, cannot raise for a member"
    for f in rep.findings:
        f.rule = "C10-TABLES"
    return rep


RULES = [rule_label, rule_step, rule_endian, rule_kind, rule_order, rule_sib, rule_folder, rule_dispatch, rule_exact, rule_codec, rule_tables]
