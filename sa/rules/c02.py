"""C02 — main-text fidelity: nothing lost, duplicated or leaked (the structural part)."""
from __future__ import annotations

import ast
import re

from sa.engine.callgraph import calls_in, reachable_functions, resolve_call
from sa.engine.consts import UNKNOWN
from sa.engine.context import Ctx
from sa.engine.guards import path_conditions
from sa.engine.fieldflow import AV, FieldFlow
from sa.engine.loader import AnalysisError, FuncInfo, anorm, dotted, norm, short, walk_own
from sa.engine.report import Finding, RuleReport
from sa.engine.treewalk import Extractor, Product
from sa.rules.common import DT, X, implementers, transcode_chains
from sa.schemas import docx as s_docx
from sa.schemas import html as s_html
from sa.schemas import odf_misc as s_odf
from sa.schemas import odt as s_odt
from sa.schemas import pptx as s_pptx

EXPLANATION = (
    "That every visible piece of a document appears once, in order and separated is a relation between content and output and "
    "is not decided as a whole. Four structural clauses are. (WALK) Each ElementTree walker that feeds the main text (docx body, "
    "odt body, odp slide, odg drawing, ods cell, DrawingML text body, pptx slide shape tree, and the dict-tree walker of html) is abstracted to its traversal skeleton - axis steps "
    "(.iter / .findall / .find / child loops / project generator helpers), tag dispatch, recursion, reads of .text/.tail - and "
    "the product of this skeleton with the format's tree grammar (written down from ECMA-376 / ODF 1.2) is explored with visit "
    "counts saturating at 2: for every document the grammar generates, at any nesting depth, each visible character-data "
    "position is read exactly once (not lost, not repeated) and each excluded one (comments, tracked deletions, field codes, "
    "VML fallback copies, speaker notes) never. (EXCL) On the result classes, the set of dataclass fields whose content can "
    "flow into get_full_text() called with its default arguments (interprocedural field-flow through iterate_units, unit "
    "constructors and get_text, flags folded) is disjoint from the fields that hold comments, notes, headers/footers, "
    "annotations and master text. (SINK) A string obtained from a text collector and stored into the result on one path is "
    "stored on every path on which it is non-empty: no branch of a title/body/other classification drops it. (FALLBACK) The "
    "RTF parser falls back to a whole-file control-word stripper (which keeps header, footer and font-table text) whenever "
    "any extraction step raises; every value-dependent raising call (int, chr, bytes.fromhex, datetime, strict decode) "
    "reachable from that try block is either proved safe from the regular expression that produced its argument or enclosed "
    "in a handler of its own. (ONCE) = C06-PURE seen from this side: no text accessor writes into the stored text pieces, so "
    "a second get_full_text() cannot return more than the first. (BYTES) the bytes that become text: MIME parts are recovered through get_payload(decode=True) (the str of decode=False, in which the email package has already replaced non-ASCII bytes, may be re-encoded only in the quoted-printable / base64 branches); nothing between the MIME part and read_html re-encodes the bytes (read_html sniffs <meta charset> itself); the charset detector of the plain-text reader is given the whole input and the detected branch returns the detector's own decoding; after feed() the buffer html.parser still holds is delivered (C17-EOF guards how); every branch that recognises a byte order mark removes exactly its bytes. (TRIM) = C13-TRIM."
    " (BREAK) inline break elements put white space between the words on their two sides: DOCX w:tab / w:br / w:cr inside a run, PPTX a:br, and <br> / block-level descendants in the node text the HTML reader uses for cells, headings and link texts. (BYTES k-n, RTF) \\'xx bytes are decoded with the \\ansicpg code page at every call site, every \\uN escape skips its \\ucN fallback characters, the skip state of the stripper is entered only when it is off; the branch that takes every control word starting with 'u' for a Unicode escape is an open known finding."
)
NOT_DECIDED = [
    "relative order of the pieces and whitespace separation (value level)",
    "EPUB chapter walker (HTMLParser handler state machine; removal is C17) - the HTML tree walker is decided, MHTML and MSG bodies reuse it",
    "PPTX shape classification by placeholder type (attribute values: which bucket a text box lands in)",
    "legacy binary formats (doc, ppt, xls), PDF, plain text, e-mail bodies",
    "that .text of a mixed-content node and the tails of its children are concatenated in document order",
    "foot/endnote bodies (neither demanded nor forbidden by the property)",
]
TRUSTED = [
    "the tree grammars in sa/schemas (ECMA-376 Part 1 ch. 17/21, ODF 1.2 part 1) - only constructs applications write",
    "ElementTree axis semantics: iter = self-or-descendants in document order, findall(tag) = children, find = first child",
    "value conditions inside walkers are taken as 'leaf present and non-empty'; flags at their defaults",
    "int() of a \\d+ group is taken as total (the 4300-digit limit of CPython is outside the document model)",
]
FLOORS = {"C02-WALK": 150, "C02-EXCL": 30, "C02-SINK": 6, "C02-FALLBACK": 20, "C02-BYTES": 24, "C02-REPEAT": 2, "C02-DATA": 2, "C02-ONCE": 100, "C02-TRIM": 8, "C02-BREAK": 8, "C02-ALT": 2, "C02-MEMBER": 3}

# ------------------------------------------------------------------------------------------------ WALK

WALKS = [
    # (label, module, entry function, node parameter, schema factory, sinks that are not body text, caller that must reach it)
    ("docx", X + "ms_modern/docx_extractor.py", "_extract_full_text_from_body", "body", s_docx.body_schema, frozenset(), "read_docx"),
    ("odt", X + "open_office/odt_extractor.py", "_extract_full_text", "body", s_odt.body_schema, frozenset(), "read_odt"),
    ("odp", X + "open_office/odp_extractor.py", "_extract_slide", "page", s_odf.odp_page, frozenset({"notes", "annotations", "images"}), "read_odp"),
    ("odg", X + "open_office/odg_extractor.py", "_extract_full_text", "drawing_root", s_odf.odg_drawing, frozenset(), "read_odg"),
    ("ods", X + "open_office/ods_extractor.py", "_extract_cell_value", "cell", s_odf.ods_cell, frozenset(), "read_ods"),
    ("pptx", X + "ms_modern/pptx_extractor.py", "_extract_text_from_paragraphs", "elem", s_pptx.txbody, frozenset(), "read_pptx"),
    ("pptx-slide", X + "ms_modern/pptx_extractor.py", "_process_slide_from_context", ("call", "get_slide_root"), s_pptx.slide, frozenset({"formulas", "images", "comments"}), "read_pptx"),
]
WALKS.append(("html", X + "html_extractor.py", "_HtmlTextExtractor._process_node", "node", s_html.body_schema, frozenset({"tables", "<discarded>"}), "read_html"))
DICT_NODES = {"html"}  # the HTML tree builder's nodes are dicts {"tag", "children", "text", "tail"}
LOCAL_ROOT = {"pptx-slide"}  # the node is a local of the entry function (root = ctx.get_slide_root(..)), not a parameter
OPAQUE = {"omml_to_latex"}  # consumes the whole subtree of its argument (decided separately: C19)


def minimal_deviations(devs):
    """Cluster deviations: the shortest deviating path names the place (its parent), longer ones below it are absorbed."""
    uniq = {}
    for d in devs:
        key = (d.verdict, tuple(k.name for k in d.path), d.what)
        uniq.setdefault(key, d)
    items = sorted(uniq.values(), key=lambda d: (len(d.path), [k.name for k in d.path], d.what))
    clusters = []  # (verdict, prefix names, representative, leaves)
    for d in items:
        names = tuple(k.name for k in d.path)
        for c in clusters:
            if c[0] == d.verdict and names[:len(c[1])] == c[1]:
                c[3].add("/".join(names[len(c[1]):]) + ("" if d.what == "text" else f" [{d.what}]"))
                break
        else:
            prefix = names[:-1] if len(names) > 1 else names
            clusters.append((d.verdict, prefix, d, {"/".join(names[len(prefix):]) + ("" if d.what == "text" else f" [{d.what}]")}))
    return clusters


def run_walk(ctx: Ctx, rep: RuleReport, rule: str, label, rel, entry, param, schema_fn, skip, caller, marks=None, mark_tags=None, region=None, local_root=False, dict_nodes=False):
    fi = ctx.p.maybe_func(rel, entry)
    if fi is None:
        raise AnalysisError(f"{rule}: walker entry {rel}::{entry} vanished")
    if isinstance(param, tuple):
        # the node is a local of the entry function, identified by what it is assigned from (not by its spelling)
        kind, what = param
        cands = []
        for n in walk_own(fi.node):
            if isinstance(n, ast.Assign) and len(n.targets) == 1 and isinstance(n.targets[0], ast.Name):
                v = n.value
                if kind == "attr" and isinstance(v, ast.Attribute) and v.attr == what:
                    cands.append(n.targets[0].id)
                if kind == "call" and isinstance(v, ast.Call) and (dotted(v.func) or "").split(".")[-1] == what:
                    cands.append(n.targets[0].id)
        if len(set(cands)) != 1:
            raise AnalysisError(f"{rule}: cannot find the root node of {entry} (a local assigned from .{what}): {cands}")
        param = cands[0]
        local_root = True
    if param not in [a.arg for a in fi.node.args.args] and not (local_root and any(isinstance(n, ast.Name) and n.id == param and isinstance(n.ctx, ast.Store) for n in ast.walk(fi.node))):
        raise AnalysisError(f"{rule}: {entry} no longer has the node parameter '{param}'")
    root = ctx.p.maybe_func(rel, caller)
    if root is None or fi.key not in reachable_functions(ctx.p, [root]):
        raise AnalysisError(f"{rule}: {entry} is no longer reached from {caller} (the walker that feeds the text changed)")
    ex = Extractor(ctx, opaque_subtree=OPAQUE, mark_tags=mark_tags or {}, dict_nodes=dict_nodes)
    pr = Product(ex, schema_fn(), marks_expected=marks or {}, skip_sinks=skip, region=region)
    devs, stats = pr.run(fi, param)
    rep.unit(fi.key)
    for (ffi, var, test) in ex.filters:
        rep.fail(Finding(rule, ffi.module.rel, ffi.qual, f"cell skipped when {short(test, 80)}",
                         f"the loop that enumerates the cells of a row leaves out a cell depending on its content or attributes ({short(test, 60)}): the row comes back shorter than in the source and the following cells shift", line=test.lineno))
    mins = minimal_deviations(devs)
    bad_leafs = len({(tuple(k.name for k in d.path), d.what) for d in devs})
    for _ in range(max(0, stats["leaf_checks"] - bad_leafs)):
        rep.ok()
    rep.samples.append({"walker": f"{label}:{entry}", "product_states": stats["product_states"], "leaf_checks": stats["leaf_checks"],
                        "axis_sites": sorted(set(ex.sites))[:14]})
    for (verdict, prefix, d, leaves) in mins:
        where = "/".join(prefix)
        what = "visits" if d.what.startswith("mark") else "character data"
        lv = ", ".join(sorted(leaves)[:6]) + (" ..." if len(leaves) > 6 else "")
        msg = {"lost": f"{what} below {where} ({lv}) is never read: this content is missing from the output",
               "duplicated": f"{what} below {where} ({lv}) is read more than once: the content is repeated",
               "leaked": f"excluded content below {where} ({lv}) is read into the main text"}[verdict]
        tags = "/".join(k.tag.rsplit('}', 1)[-1] for k in d.path)
        rep.fail(Finding(rule, rel, entry, f"{verdict} below {where}", msg + f" (shortest tag path {tags}; reads: {', '.join(d.sites[:3]) or '-'})", line=fi.node.lineno, path=[k.tag for k in d.path]))
    return stats


def rule_walk(ctx: Ctx) -> RuleReport:
    rep = RuleReport("C02-WALK", "every visible character-data position of the format grammar is read exactly once, every excluded one never")
    for (label, rel, entry, param, schema_fn, skip, caller) in WALKS:
        run_walk(ctx, rep, "C02-WALK", label, rel, entry, param, schema_fn, skip, caller, local_root=label in LOCAL_ROOT, dict_nodes=label in DICT_NODES)
    return rep


# ------------------------------------------------------------------------------------------------ EXCL

EXCLUDED_FIELDS = {
    ("DocContent", "headers_footers"), ("DocContent", "annotations"),
    ("DocxContent", "headers"), ("DocxContent", "footers"), ("DocxContent", "comments"),
    ("PptSlideContent", "notes"), ("PptContent", "master_text"),
    ("PptxSlide", "footer"), ("PptxSlide", "comments"), ("PptxSlide", "text"),  # .text is assembled with comments and captions
    ("OdpSlide", "annotations"), ("OdpSlide", "notes"),
    ("OdsSheet", "annotations"),
    ("OdtContent", "headers"), ("OdtContent", "footers"), ("OdtContent", "annotations"),
    ("RtfContent", "headers"), ("RtfContent", "footers"), ("RtfContent", "annotations"),
}
# fields whose name looks like excluded content but which the property does not exclude (reason each)
NOT_EXCLUDED = {
    ("DocContent", "footnotes"): "footnotes are not in the property's exclusion list",
    ("DocxContent", "footnotes"): "footnotes are not in the property's exclusion list",
    ("DocxContent", "endnotes"): "endnotes are not in the property's exclusion list",
    ("OdtContent", "footnotes"): "footnotes are not in the property's exclusion list",
    ("OdtContent", "endnotes"): "endnotes are not in the property's exclusion list",
    ("RtfContent", "footnotes"): "footnotes are not in the property's exclusion list",
    ("DocxMetadata", "comments"): "document property 'comments' (metadata), not review comments",
    ("PptMetadata", "comments"): "document property", ("PptxMetadata", "comments"): "document property", ("RtfMetadata", "comments"): "document property",
    ("RtfMetadata", "doc_comment"): "document property",
    ("DocxMetadata", "revision"): "counter", ("PptMetadata", "revision_number"): "counter", ("PptxMetadata", "revision"): "counter",
    ("XlsxMetadata", "revision"): "counter", ("RtfMetadata", "revision"): "counter", ("PptMetadata", "num_notes"): "counter",
    ("PptTextBlock", "is_notes"): "flag",
    ("OdtUnit", "annotation_creator"): "unit of kind annotation (units are C03)", ("OdtUnit", "annotation_date"): "same",
    ("OdtUnitMetadata", "annotation_creator"): "same", ("OdtUnitMetadata", "annotation_date"): "same",
    ("OdtNote", "note_class"): "footnote kind",
}
_LOOKS_EXCLUDED = re.compile(r"comment|note|header|footer|annotation|master|delet|revision", re.I)


def rule_excl(ctx: Ctx) -> RuleReport:
    rep = RuleReport("C02-EXCL", "fields holding comments / notes / headers / footers / annotations cannot flow into get_full_text() with default arguments")
    dt = ctx.p.module(DT)
    # inventory: every field that looks like excluded content is classified
    for c in dt.classes.values():
        for f in c.fields:
            if _LOOKS_EXCLUDED.search(f):
                if (c.name, f) in EXCLUDED_FIELDS or (c.name, f) in NOT_EXCLUDED:
                    rep.ok()
                else:
                    rep.fail(Finding("C02-EXCL", DT, c.name, f"field {f}", f"{c.name}.{f} looks like excluded content (comments / notes / headers / footers) but is not classified; "
                                     "if it holds such content it must be kept out of get_full_text()", line=c.node.lineno))
    for (cn, f) in EXCLUDED_FIELDS:
        c = dt.classes.get(cn)
        if c is None or f not in c.fields:
            raise AnalysisError(f"C02-EXCL: excluded field {cn}.{f} vanished")
    ff = FieldFlow(ctx.p, [DT])
    impls = implementers(ctx, "ExtractionInterface")
    if len(impls) < 17:
        raise AnalysisError(f"C02-EXCL: only {len(impls)} result classes found (17 confirmed)")
    for ci in impls:
        m = ctx.p.find_method(ci, "get_full_text")
        if m is None:
            raise AnalysisError(f"C02-EXCL: {ci.name} has no get_full_text")
        rep.unit(m.key)
        r = ff.call(m, AV(classes={ci.name}), {}, {}, 0)
        srcs = sorted(r.srcs)
        if not srcs:
            raise AnalysisError(f"C02-EXCL: no field flows into {ci.name}.get_full_text() - the flow analysis lost the value")
        leaks = [s for s in srcs if s in EXCLUDED_FIELDS]
        if leaks:
            for (cn, f) in leaks:
                rep.fail(Finding("C02-EXCL", DT, f"{ci.name}.get_full_text", f"{cn}.{f} reaches the default full text",
                                 f"the content of {cn}.{f} (excluded by the documentation) can flow into {ci.name}.get_full_text() called with default arguments", line=m.node.lineno))
        else:
            rep.ok({"class": ci.name, "fields_in_default_full_text": [f"{a}.{b}" for a, b in srcs]})
    if ff.unresolved:
        rep.residual.extend(sorted(ff.unresolved))
    return rep


# ------------------------------------------------------------------------------------------------ SINK

SINK_MODULES = [
    X + "ms_modern/docx_extractor.py", X + "ms_modern/pptx_extractor.py", X + "open_office/odt_extractor.py", X + "open_office/odp_extractor.py",
    X + "open_office/odg_extractor.py", X + "open_office/ods_extractor.py", X + "open_office/odf_extractor.py",
]


def _collectors(ctx: Ctx, ex: Extractor, rels) -> set[str]:
    """Project functions that read character data below an Element parameter (directly or through callees)."""
    from sa.engine.treewalk import Call, Emit, GenLoop, Guard, Loop, Same
    memo: dict[tuple, bool] = {}

    def emits(acts, depth=0) -> bool:
        for a in acts:
            if isinstance(a, Emit):
                return True
            if isinstance(a, (Loop, GenLoop, Same)) and emits(a.body, depth):
                return True
            if isinstance(a, Guard) and (emits(a.body, depth) or emits(a.orelse, depth)):
                return True
            if isinstance(a, GenLoop) and fn_emits(a.call.fi, a.call.param, a.call.cenv, depth + 1):
                return True
            if isinstance(a, Call) and fn_emits(a.fi, a.param, a.cenv, depth + 1):
                return True
        return False

    def fn_emits(fi, param, cenv, depth=0) -> bool:
        k = (fi.key, param)
        if k in memo:
            return memo[k]
        memo[k] = False
        if depth > 12:
            return False
        try:
            acts = ex.function(fi, param, cenv)
        except AnalysisError:
            return False
        memo[k] = emits(acts, depth)
        return memo[k]

    out = set()
    for rel in rels:
        m = ctx.p.module(rel)
        for q, fi in m.functions.items():
            for a in fi.node.args.args:
                # an annotation decides when there is one; an unannotated parameter is tried as a node (a parameter that is not
                # a node has no .text / .tail / .iter use and emits nothing)
                ann = norm(a.annotation) if a.annotation is not None else None
                if a.arg in ("self", "cls") or (ann is not None and "Element" not in ann):
                    continue
                if fn_emits(fi, a.arg, ()):
                    out.add(fi.key)
    for n in OPAQUE:
        out.add(n)
    return out


def _truthy_edges(cfg, var: str):
    """Edges on which `var` is known to be falsy (to be avoided: an empty string need not be stored)."""
    removed = set()
    for n in cfg.nodes:
        if n.kind != "test":
            continue
        t = n.ast
        neg = False
        while isinstance(t, ast.UnaryOp) and isinstance(t.op, ast.Not):
            neg = not neg
            t = t.operand
        base = t
        if isinstance(base, ast.Call) and isinstance(base.func, ast.Attribute) and base.func.attr == "strip":
            base = base.func.value
        names = []
        if isinstance(base, ast.Name):
            names = [(base.id, "single")]
        elif isinstance(base, ast.BoolOp) and isinstance(base.op, ast.And):
            for v in base.values:
                vv = v.func.value if isinstance(v, ast.Call) and isinstance(v.func, ast.Attribute) and v.func.attr == "strip" else v
                if isinstance(vv, ast.Name):
                    names.append((vv.id, "and"))
        for nm, how in names:
            if nm != var:
                continue
            for s in cfg.succ[n.id]:
                lab = cfg.elabel.get((n.id, s))
                falsy_label = "true" if neg else "false"
                if how == "single" and lab == falsy_label:
                    removed.add((n.id, s))
    return removed


EXTRA_SINK_FUNCS = [(X + "ms_modern/pptx_extractor.py", "_process_slide_from_context", frozenset({"formulas", "images", "comments"}))]


def _name_sinks(fn_node: ast.AST, name: str) -> set[str]:
    """Result fields a local name flows into (X.<f> = .. / X.<f>.append(..) / through other locals)."""
    flows: dict[str, set[str]] = {}
    fields: dict[str, set[str]] = {}

    def names_in(e):
        return {n.id for n in ast.walk(e) if isinstance(n, ast.Name)}

    for n in walk_own(fn_node):
        if isinstance(n, ast.Assign) and len(n.targets) == 1:
            t = n.targets[0]
            if isinstance(t, ast.Name):
                for x in names_in(n.value):
                    flows.setdefault(x, set()).add(t.id)
            elif isinstance(t, ast.Attribute):
                for x in names_in(n.value):
                    fields.setdefault(x, set()).add(t.attr)
        elif isinstance(n, ast.Call) and isinstance(n.func, ast.Attribute) and n.func.attr in ("append", "extend", "insert", "add") and n.args:
            recv = n.func.value
            for x in names_in(n.args[-1]):
                if isinstance(recv, ast.Attribute):
                    fields.setdefault(x, set()).add(recv.attr)
                elif isinstance(recv, ast.Name):
                    flows.setdefault(x, set()).add(recv.id)
        elif isinstance(n, ast.keyword) and n.arg:
            for x in names_in(n.value):
                fields.setdefault(x, set()).add(n.arg)
    out, seen, stack = set(), set(), [name]
    while stack:
        x = stack.pop()
        if x in seen:
            continue
        seen.add(x)
        out |= fields.get(x, set())
        stack.extend(flows.get(x, ()))
    return out


def rule_sink(ctx: Ctx) -> RuleReport:
    rep = RuleReport("C02-SINK", "extracted text that is stored on one path is stored on every path on which it is non-empty")
    ex = Extractor(ctx, opaque_subtree=OPAQUE)
    coll = _collectors(ctx, ex, SINK_MODULES + [X + "open_office/_shared.py"])
    if len(coll) < 10:
        raise AnalysisError(f"C02-SINK: only {len(coll)} text collectors recognised (floor 10)")
    # the functions that build the main text: everything the WALK entries traverse, plus the PPTX slide assembler
    scope: dict[str, tuple[FuncInfo, frozenset]] = {}
    for (label, rel, entry, param, schema_fn, skip, caller) in WALKS:
        if label in LOCAL_ROOT or label in DICT_NODES:
            continue  # the slide assembler is in EXTRA_SINK_FUNCS; the HTML walker returns strings (no result fields)
        ex2 = Extractor(ctx, opaque_subtree=OPAQUE)
        fi = ctx.p.func(rel, entry)
        Product(ex2, schema_fn(), skip_sinks=skip).run(fi, param)
        for (fkey, _prm, _ce) in ex2.cache:
            mrel, q = fkey.split("::", 1)
            f = ctx.p.maybe_func(mrel, q)
            if f is not None:
                scope.setdefault(fkey, (f, skip))
    for (rel, q, skip) in EXTRA_SINK_FUNCS:
        f = ctx.p.maybe_func(rel, q)
        if f is None:
            raise AnalysisError(f"C02-SINK: {rel}::{q} vanished")
        scope[f.key] = (f, skip)
    for fkey, (fi, skip) in sorted(scope.items()):
        rel = fi.module.rel
        sites = []
        for n in walk_own(fi.node):
            if isinstance(n, ast.Assign) and len(n.targets) == 1 and isinstance(n.targets[0], ast.Name):
                for c in ast.walk(n.value):
                    if isinstance(c, ast.Call):
                        t = resolve_call(ctx.p, fi, c)
                        if any(f.key in coll for f in t.funcs) or (t.external or "").split(".")[-1] in OPAQUE:
                            sites.append(n)
                            break
        if not sites:
            continue
        cfg = ctx.cfg(fi)
        parent = {}
        for n in ast.walk(fi.node):
            for ch in ast.iter_child_nodes(n):
                parent[id(ch)] = n
        for st in sites:
            var = st.targets[0].id
            sk = _name_sinks(fi.node, var)
            if sk and sk <= skip:
                continue  # flows only into fields that are not body text (notes, annotations, images)
            stores = set()
            for nd in cfg.nodes:
                if nd.kind != "stmt" or nd.ast is st or nd.ast is None:
                    continue
                a = nd.ast
                if isinstance(a, ast.Pass):
                    stores.add(nd.id)  # an explicit `pass` branch: the author's documented skip (placeholder kinds)
                    continue
                if isinstance(a, (ast.Assign, ast.AugAssign, ast.AnnAssign, ast.Expr, ast.Return)):
                    val = a.value
                    if val is not None and any(isinstance(x, ast.Name) and x.id == var and isinstance(x.ctx, ast.Load) for x in ast.walk(val)):
                        if isinstance(a, ast.Assign) and len(a.targets) == 1 and isinstance(a.targets[0], ast.Name) and a.targets[0].id == var:
                            continue
                        stores.add(nd.id)
            real_stores = [i for i in stores if not isinstance(cfg.nodes[i].ast, ast.Pass)]
            if not real_stores:
                continue
            rep.unit(fi.key)
            removed = _truthy_edges(cfg, var)
            targets = {cfg.exit}
            anc = st
            while id(anc) in parent:
                anc = parent[id(anc)]
                if isinstance(anc, (ast.For, ast.While, ast.AsyncFor)):
                    targets.update(cfg.loop_head.get(id(anc), []))
            witness = None
            for s0 in cfg.nodes_of(st):
                prev = {s0: None}
                stack = [s0]
                while stack and witness is None:
                    n = stack.pop()
                    for x in cfg.succ[n]:
                        if (n, x) in removed or cfg.elabel.get((n, x)) == "exc" or x in stores or x in prev:
                            continue
                        prev[x] = n
                        if x in targets:
                            path = [x]
                            while prev[path[-1]] is not None:
                                path.append(prev[path[-1]])
                            witness = list(reversed(path))
                            break
                        stack.append(x)
                if witness:
                    break
            if witness is None:
                rep.ok({"fn": fi.qual, "text": var, "stored_on_every_path": True, "sinks": sorted(sk)})
            else:
                conds = [short(cfg.nodes[i].ast, 60) + "=" + str(cfg.elabel.get((i, j))) for i, j in zip(witness, witness[1:]) if cfg.nodes[i].kind == "test"]
                rep.fail(Finding("C02-SINK", rel, fi.qual, f"{var} = {short(st.value, 60)} dropped when " + " and ".join(conds[-3:]),
                                 f"the text in '{var}' is stored on other paths but on this one (non-empty text) it reaches the next element without being stored: the piece is missing from the output",
                                 line=st.lineno, path=cfg.describe_path(witness)))
    return rep


# ------------------------------------------------------------------------------------------------ FALLBACK

RTF = X + "ms_legacy/rtf_extractor.py"
_DIGITS = set("0123456789")
_HEX = set("0123456789abcdefABCDEF")


def _group_items(pattern: str, flags: int, k: int):
    import re._parser as sp  # type: ignore
    tree = sp.parse(pattern, flags)

    def find(items):
        for op, av in items:
            if op is sp.SUBPATTERN:
                gid, _a, _b, sub = av
                if gid == k:
                    return sub
                r = find(sub)
                if r is not None:
                    return r
            elif op in (sp.MAX_REPEAT, sp.MIN_REPEAT):
                r = find(av[2])
                if r is not None:
                    return r
            elif op is sp.BRANCH:
                for b in av[1]:
                    r = find(b)
                    if r is not None:
                        return r
            elif op in (sp.ASSERT, sp.ASSERT_NOT):
                r = find(av[1])
                if r is not None:
                    return r
        return None

    return find(tree)


def _charset(items):
    """(set of chars | None when unbounded, min width)"""
    import re._parser as sp  # type: ignore
    chars: set[str] = set()
    width = 0
    for op, av in items:
        if op is sp.LITERAL:
            chars.add(chr(av))
            width += 1
        elif op is sp.IN:
            neg = any(o is sp.NEGATE for o, _ in av)
            if neg:
                return None, 0
            for o, v in av:
                if o is sp.LITERAL:
                    chars.add(chr(v))
                elif o is sp.RANGE:
                    if v[1] - v[0] > 256:
                        return None, 0
                    chars.update(chr(c) for c in range(v[0], v[1] + 1))
                elif o is sp.CATEGORY and v is sp.CATEGORY_DIGIT:
                    chars.update(_DIGITS)
                else:
                    return None, 0
            width += 1
        elif op in (sp.MAX_REPEAT, sp.MIN_REPEAT):
            lo, hi, sub = av
            cs, w = _charset(sub)
            if cs is None:
                return None, 0
            chars |= cs
            width += lo * w
        elif op is sp.SUBPATTERN:
            cs, w = _charset(av[3])
            if cs is None:
                return None, 0
            chars |= cs
            width += w
        elif op is sp.BRANCH:
            ws = []
            for b in av[1]:
                cs, w = _charset(b)
                if cs is None:
                    return None, 0
                chars |= cs
                ws.append(w)
            width += min(ws) if ws else 0
        else:
            return None, 0
    return chars, width


def _regex_of(ctx: Ctx, fi: FuncInfo, e: ast.AST, env: dict):
    """Pattern(s) (pattern, flags) of the regex object / re.<fn>(pattern, ..) expression `e`."""
    if isinstance(e, ast.Name):
        if e.id in env:
            return env[e.id]
        node = fi.module.assigns.get(e.id)
        if isinstance(node, ast.Call) and dotted(node.func) == "re.compile" and node.args:
            p = ctx.folder.fold(fi.module, node.args[0])
            if isinstance(p, str):
                return [(p, 0)]
    return None


class _Matches:
    """Which regular expression produced the match object a name refers to at a given use (nearest binding wins)."""

    def __init__(self, ctx: Ctx, fi: FuncInfo):
        self.ctx, self.fi = ctx, fi
        self.parent: dict[int, ast.AST] = {}
        for n in ast.walk(fi.node):
            for ch in ast.iter_child_nodes(n):
                self.parent[id(ch)] = n

    def ancestors(self, n):
        while id(n) in self.parent:
            n = self.parent[id(n)]
            yield n

    def _loop_consts(self, name: str, at: ast.AST):
        for anc in self.ancestors(at):
            if isinstance(anc, ast.For) and isinstance(anc.iter, (ast.List, ast.Tuple)) and isinstance(anc.target, ast.Tuple):
                for i, t in enumerate(anc.target.elts):
                    if isinstance(t, ast.Name) and t.id == name:
                        vals = self.ctx.folder.fold(self.fi.module, anc.iter)
                        if vals is UNKNOWN:
                            return None
                        col = [v[i] for v in vals if isinstance(v, tuple) and len(v) > i]
                        if col and all(isinstance(c, str) for c in col):
                            return [(c, 0) for c in col]
                        return None
        return None

    def pattern_of_call(self, c: ast.AST):
        if not (isinstance(c, ast.Call) and isinstance(c.func, ast.Attribute)):
            return None
        recv = c.func.value
        if c.func.attr not in ("search", "match", "fullmatch", "finditer", "sub", "subn"):
            return None
        if isinstance(recv, ast.Name) and recv.id == "re":
            if not c.args:
                return None
            p = self.ctx.folder.fold(self.fi.module, c.args[0])
            if isinstance(p, str):
                return [(p, 0)]
            if isinstance(c.args[0], ast.Name):
                return self._loop_consts(c.args[0].id, c)
            return None
        return _regex_of(self.ctx, self.fi, recv, {})

    def patterns(self, name: str, use: ast.AST):
        # 1. lambda parameter of a .sub callback / comprehension or for target enclosing the use
        for anc in self.ancestors(use):
            if isinstance(anc, ast.Lambda) and any(a.arg == name for a in anc.args.args):
                call = self.parent.get(id(anc))
                return self.pattern_of_call(call) if isinstance(call, ast.Call) and call.args and call.args[0] is anc else None
            if isinstance(anc, (ast.For,)) or isinstance(anc, (ast.ListComp, ast.GeneratorExp, ast.SetComp, ast.DictComp)):
                gens = [anc] if isinstance(anc, ast.For) else anc.generators
                for g in gens:
                    it, tgt = g.iter, g.target
                    if isinstance(it, ast.Call) and isinstance(it.func, ast.Name) and it.func.id == "enumerate" and it.args and isinstance(tgt, ast.Tuple) and len(tgt.elts) == 2:
                        it, tgt = it.args[0], tgt.elts[1]
                    if isinstance(tgt, ast.Name) and tgt.id == name:
                        return self.pattern_of_call(it)
        # 2. nearest preceding assignment
        best = None
        for n in ast.walk(self.fi.node):
            tgt = None
            if isinstance(n, ast.Assign) and len(n.targets) == 1:
                tgt = n.targets[0]
            elif isinstance(n, ast.NamedExpr):
                tgt = n.target
            if isinstance(tgt, ast.Name) and tgt.id == name and n.lineno <= use.lineno:
                if best is None or n.lineno > best.lineno:
                    best = n
        if best is not None:
            v = best.value
            # `P.search(a) or Q.search(b)` / `P.search(a) if c else Q.search(b)`: the match comes from one of them
            alts = v.values if isinstance(v, ast.BoolOp) and isinstance(v.op, ast.Or) else [v.body, v.orelse] if isinstance(v, ast.IfExp) else [v]
            out = []
            for a in alts:
                ps = self.pattern_of_call(a)
                if not ps:
                    return None
                out += ps
            return out
        return None


def _group_language(matches: "_Matches", e: ast.AST):
    """For e = <m>.group(k): (charset, minwidth) joined over the candidate patterns, else None."""
    if isinstance(e, ast.Call) and isinstance(e.func, ast.Attribute) and e.func.attr == "group" and isinstance(e.func.value, ast.Name) and len(e.args) == 1 and isinstance(e.args[0], ast.Constant):
        pats = matches.patterns(e.func.value.id, e)
        if not pats:
            return None
        chars: set[str] = set()
        minw = None
        for (p, fl) in pats:
            try:
                items = _group_items(p, fl, e.args[0].value)
            except Exception:
                return None
            if items is None:
                return None
            cs, w = _charset(items)
            if cs is None:
                return None
            chars |= cs
            minw = w if minw is None else min(minw, w)
        return chars, minw or 0
    return None


def _fromhex_proof(matches: "_Matches", e: ast.AST):
    """bytes.fromhex(<m>.group(0).replace(L, "")) cannot raise when every pattern that produced <m> is a repeat (at least once) of
    the literal L followed by an even number of hex-digit positions: what is left after removing L is pairs of hex digits."""
    import re._parser as sp  # type: ignore

    if not (isinstance(e, ast.Call) and isinstance(e.func, ast.Attribute) and e.func.attr == "replace" and len(e.args) == 2 and isinstance(e.args[1], ast.Constant) and e.args[1].value == ""):
        return None
    lit = matches.ctx.folder.fold(matches.fi.module, e.args[0])
    g = e.func.value
    if not (isinstance(lit, str) and lit and isinstance(g, ast.Call) and isinstance(g.func, ast.Attribute) and g.func.attr == "group" and isinstance(g.func.value, ast.Name)
            and ((len(g.args) == 1 and isinstance(g.args[0], ast.Constant) and g.args[0].value == 0) or not g.args)):
        return None
    pats = matches.patterns(g.func.value.id, e)
    if not pats:
        return None

    def flat(items):
        out = []
        for op, av in items:
            if op is sp.SUBPATTERN:
                out += flat(av[3])
            elif op in (sp.MAX_REPEAT, sp.MIN_REPEAT) and av[0] == av[1]:
                out += flat(av[2]) * av[0]
            else:
                out.append((op, av))
        return out

    for (pt, fl) in pats:
        try:
            tree = list(sp.parse(pt, fl))
        except Exception:
            return None
        top = flat(tree)
        if not (len(top) == 1 and top[0][0] in (sp.MAX_REPEAT, sp.MIN_REPEAT) and top[0][1][0] >= 1):
            return None
        unit = flat(top[0][1][2])
        head, rest = unit[:len(lit)], unit[len(lit):]
        if [chr(av) if op is sp.LITERAL else None for op, av in head] != list(lit):
            return None
        if len(rest) % 2 or not rest:
            return None
        for it in rest:
            cs, w = _charset([it])
            if cs is None or w != 1 or not cs <= _HEX:
                return None
        if any(ch in _HEX for ch in lit):
            return None
    return f"whole match is ({lit!r} + {len(rest)} hex digits)+ : pairs of hex digits remain"


def _enclosing_handlers(fn_node: ast.AST, target: ast.AST) -> list[str]:
    names: list[str] = []

    def visit(node, acc):
        if node is target:
            names.extend(acc)
            return True
        for ch in ast.iter_child_nodes(node):
            a2 = acc
            if isinstance(node, ast.Try) and ch in node.body:
                hs = []
                for h in node.handlers:
                    if h.type is None:
                        hs.append("<bare>")
                    elif isinstance(h.type, ast.Tuple):
                        hs.extend((dotted(x) or "?").split(".")[-1] for x in h.type.elts)
                    else:
                        hs.append((dotted(h.type) or "?").split(".")[-1])
                a2 = acc + hs
            if visit(ch, a2):
                return True
        return False

    visit(fn_node, [])
    return names


def rule_fallback(ctx: Ctx) -> RuleReport:
    rep = RuleReport("C02-FALLBACK", "no value-dependent raise can divert the RTF parser into the whole-file stripper that keeps header/footer/font-table text")
    parse = ctx.p.maybe_func(RTF, "_RtfParser.parse")
    if parse is None:
        raise AnalysisError("C02-FALLBACK: _RtfParser.parse vanished")
    tries = [s for s in parse.node.body if isinstance(s, ast.Try)]
    fallback = [t for t in tries if any("_strip_rtf_simple" in norm(h) for h in t.handlers)]
    if not fallback:
        rep.info.append("parse() no longer falls back to _strip_rtf_simple on failure: nothing to protect")
        rep.ok({"fallback": "absent"})
        return rep
    reach = reachable_functions(ctx.p, [parse])
    reach = {k: f for k, f in reach.items() if f.module.rel == RTF}
    if len(reach) < 12:
        raise AnalysisError(f"C02-FALLBACK: only {len(reach)} functions reachable from parse() (12 confirmed)")
    for key, fi in sorted(reach.items()):
        binds = _Matches(ctx, fi)
        for c in ast.walk(fi.node):
            if not isinstance(c, ast.Call):
                continue
            d = dotted(c.func) or ""
            api = None
            if d in ("int", "float"):
                api = d
            elif d == "chr":
                api = "chr"
            elif d in ("bytes.fromhex", "bytearray.fromhex", "binascii.unhexlify", "base64.b64decode", "datetime", "datetime.datetime", "struct.unpack"):
                api = d
            elif isinstance(c.func, ast.Attribute) and c.func.attr == "decode" and not any(k.arg == "errors" for k in c.keywords) and len(c.args) < 2:
                api = "decode(strict)"
            if api is None:
                continue
            rep.unit(fi.key)
            # the parse() try itself does not count: it is the diverting one
            hs = _enclosing_handlers(fi.node, c) if fi is not parse else []
            if any(h in ("ValueError", "Exception", "BaseException", "<bare>", "UnicodeDecodeError", "LookupError") for h in hs):
                rep.ok({"fn": fi.qual, "call": short(c, 50), "guard": hs})
                continue
            proof = None
            if api == "int" and c.args:
                lang = _group_language(binds, c.args[0])
                base16 = len(c.args) == 2 and isinstance(c.args[1], ast.Constant) and c.args[1].value == 16
                if lang is not None:
                    cs, w = lang
                    allowed = _HEX if base16 else (_DIGITS | {"-"})
                    if cs <= allowed and w >= 1:
                        proof = f"group language within {'hex' if base16 else 'decimal'} digits, width >= {w}"
            elif api == "chr" and c.args:
                a = c.args[0]
                if isinstance(a, ast.BinOp) and isinstance(a.op, ast.BitAnd):
                    mk = ctx.folder.fold(fi.module, a.right)
                    if isinstance(mk, int) and 0 <= mk <= 0x10FFFF:
                        proof = f"masked with {mk:#x}"
                elif isinstance(a, ast.Call) and dotted(a.func) == "int" and len(a.args) == 2:
                    lang = _group_language(binds, a.args[0])
                    if lang is not None and lang[0] <= _HEX and lang[1] >= 1:
                        import re._parser as sp  # noqa
                        proof = "two hex digits"
            elif api in ("bytes.fromhex", "bytearray.fromhex") and c.args:
                proof = _fromhex_proof(binds, c.args[0])
            elif api == "decode(strict)":
                # x.encode(enc, ..).decode(same enc, ..) round trips and str-only helpers are not byte decoders of document data
                if isinstance(c.func.value, ast.Call) and isinstance(c.func.value.func, ast.Attribute) and c.func.value.func.attr == "encode":
                    proof = "decode of the value just encoded"
            if proof:
                rep.ok({"fn": fi.qual, "call": short(c, 50), "proof": proof})
            else:
                rep.fail(Finding("C02-FALLBACK", RTF, fi.qual, short(c, 70),
                                 f"{api} can raise on document content and no handler below parse() catches it: the exception diverts the parser to _strip_rtf_simple over the whole file, "
                                 "whose output contains header, footer and font-table text", line=c.lineno))
    return rep


MHTML = X + "mhtml_extractor.py"
PLAIN = X + "plain_extractor.py"
ASCII_TRANSFER = {"quoted-printable", "base64"}  # transfer encodings whose payload is ASCII by definition


def _derived(fn_node, seeds: set[str]) -> set[str]:
    """Locals whose value is computed from one of `seeds` (assignment closure, flow-insensitive)."""
    out = set(seeds)
    changed = True
    while changed:
        changed = False
        for n in walk_own(fn_node):
            if isinstance(n, ast.Assign) and len(n.targets) == 1 and isinstance(n.targets[0], ast.Name) and n.targets[0].id not in out:
                if any(isinstance(x, ast.Name) and x.id in out for x in ast.walk(n.value)):
                    out.add(n.targets[0].id)
                    changed = True
    return out


def _ret_name(e):
    """`x` or `f(x)` (a clean-up helper applied to one local): the local's name."""
    if isinstance(e, ast.Name):
        return e.id
    if isinstance(e, ast.Call) and len(e.args) == 1 and not e.keywords and isinstance(e.args[0], ast.Name):
        return e.args[0].id
    return None


def rule_bytes(ctx: Ctx) -> RuleReport:
    """The bytes that become text are the bytes of the source, decoded once, with the charset judged on all of them."""
    rep = RuleReport("C02-BYTES", "bytes that become body text: MIME parts are recovered through the bytes API, nothing is transcoded before a reader that sniffs its own charset, "
                     "the charset detector sees the whole input and lossy decoding is the last resort")
    # (a) MIME parts: get_payload(decode=False) is a str in which the stdlib has already replaced non-ASCII bytes
    n_sites = 0
    for rel in (MHTML, X + "mail/mbox_email_extractor.py", X + "mail/eml_email_extractor.py"):
        m = ctx.p.module(rel)
        for fi in m.functions.values():
            strs, byts = set(), set()
            for n in walk_own(fi.node):
                if isinstance(n, ast.Assign) and len(n.targets) == 1 and isinstance(n.targets[0], ast.Name):
                    for gp in [c for c in ast.walk(n.value) if isinstance(c, ast.Call) and isinstance(c.func, ast.Attribute) and c.func.attr == "get_payload"]:
                        dec = next((k.value for k in gp.keywords if k.arg == "decode"), gp.args[1] if len(gp.args) > 1 else None)
                        (byts if isinstance(dec, ast.Constant) and dec.value is True else strs).add(n.targets[0].id)
            if not strs and not byts:
                continue
            rep.unit(fi.key)
            n_sites += 1
            if not strs:
                rep.ok({"fn": fi.qual, "payload": "get_payload(decode=True) only"})
                continue
            lossy = _derived(fi.node, strs) - byts
            good = _derived(fi.node, byts)

            def visit(body, ascii_ok, bytes_ok):
                for st in body:
                    if isinstance(st, ast.Return) and st.value is not None:
                        names = {x.id for x in ast.walk(st.value) if isinstance(x, ast.Name)}
                        if names & lossy and not (names & good) and not ascii_ok and not bytes_ok:
                            rep.fail(Finding("C02-BYTES", rel, fi.qual, "str payload returned as bytes: " + anorm(st.value, fi.node),
                                             f"`{short(st, 60)}` returns bytes rebuilt from the str of get_payload(decode=False) outside a quoted-printable/base64 branch: for 8bit/binary parts the email package has already replaced every non-ASCII byte in that str, so the non-ASCII text of the page is lost (sibling readers use get_payload(decode=True))", line=st.lineno))
                        else:
                            rep.ok({"fn": fi.qual, "return": short(st, 50), "source": "bytes API" if names & good else "ASCII transfer branch" if ascii_ok else "already bytes" if bytes_ok else "no payload"})
                    elif isinstance(st, ast.If):
                        consts = {c.value for c in ast.walk(st.test) if isinstance(c, ast.Constant) and isinstance(c.value, str)}
                        is_bytes = isinstance(st.test, ast.Call) and norm(st.test.func) == "isinstance" and len(st.test.args) == 2 and norm(st.test.args[1]) == "bytes"
                        visit(st.body, ascii_ok or bool(consts & ASCII_TRANSFER), bytes_ok or is_bytes)
                        visit(st.orelse, ascii_ok, bytes_ok)
                    elif isinstance(st, ast.Try):
                        visit(st.body, ascii_ok, bytes_ok)
                        for h in st.handlers:
                            visit(h.body, ascii_ok, bytes_ok)
                        visit(st.orelse, ascii_ok, bytes_ok)
                        visit(st.finalbody, ascii_ok, bytes_ok)
                    elif isinstance(st, (ast.For, ast.While, ast.With)):
                        visit(st.body, ascii_ok, bytes_ok)

            visit(fi.node.body, False, False)
    if n_sites < 3:
        raise AnalysisError(f"C02-BYTES: only {n_sites} functions read MIME payloads (3 confirmed)")
    # (b) nothing between the MIME part and read_html re-encodes the bytes: read_html sniffs <meta charset> itself
    m = ctx.p.module(MHTML)
    rh = [c for fi in m.functions.values() for c in calls_in(fi) if (dotted(c.func) or "") == "read_html"]
    if not rh:
        raise AnalysisError("C02-BYTES: mhtml_extractor no longer hands the HTML part to read_html")
    for fi in m.functions.values():
        rep.unit(fi.key)
        chains = transcode_chains(fi.node)
        bad = chains[0] if chains else None
        if bad is not None:
            rep.fail(Finding("C02-BYTES", MHTML, fi.qual, "transcoded: " + anorm(bad, fi.node), f"`{short(bad, 70)}` re-encodes the HTML part before read_html sees it; read_html decodes by the page's own <meta charset>, so a page that declares the same legacy charset in the MIME header and in its <meta> tag is decoded twice (every non-ASCII character becomes mojibake)", line=bad.lineno))
        else:
            rep.ok({"fn": fi.qual, "transcoding": "none"})
    # (d) html.parser holds back trailing character data that may end in an unfinished reference: it is delivered after feed()
    from sa.rules.c17 import eof_sites

    for rel, fi, V, close, kind, feed in eof_sites(ctx):
        rep.unit(fi.key)
        if close is None and kind is None:
            rep.fail(Finding("C02-BYTES", rel, fi.qual, f"{V}.feed without flush", f"after `{short(feed, 40)}` the text html.parser still buffers is never delivered: character data after the last tag that contains '&' (a page ending in 'AT&T', 'Q&A') is missing from the text", line=feed.lineno))
        else:
            rep.ok({"site": f"{fi.qual}: {V}.feed(...)", "rest_of_buffer": "delivered"})
    # (e) byte order marks: every branch that recognises one removes exactly its bytes before decoding
    rh = ctx.p.func(X + "html_extractor.py", "read_html")
    boms = 0
    for i in walk_own(rh.node):
        if isinstance(i, ast.If) and isinstance(i.test, ast.Call) and isinstance(i.test.func, ast.Attribute) and i.test.func.attr == "startswith" and i.test.args:
            b = ctx.folder.fold(rh.module, i.test.args[0])
            if isinstance(b, bytes) and b in (b"\xef\xbb\xbf", b"\xff\xfe", b"\xfe\xff", b"\xff\xfe\x00\x00", b"\x00\x00\xfe\xff"):
                boms += 1
                recv = norm(i.test.func.value)
                cut = [n for n in i.body if isinstance(n, ast.Assign) and norm(n.targets[0]) == recv and isinstance(n.value, ast.Subscript) and norm(n.value.value) == recv and isinstance(n.value.slice, ast.Slice)
                       and n.value.slice.upper is None and ctx.folder.fold(rh.module, n.value.slice.lower) == len(b)]
                if cut:
                    rep.ok({"bom": b.hex(), "stripped": len(b)})
                else:
                    rep.fail(Finding("C02-BYTES", X + "html_extractor.py", rh.qual, f"BOM {b.hex()} kept", f"the branch that recognises the byte order mark {b!r} does not remove it (`{recv} = {recv}[{len(b)}:]`): U+FEFF is decoded into the text and comes out in front of the body", line=i.lineno))
    if boms < 3:
        raise AnalysisError(f"C02-BYTES: only {boms} byte-order-mark branches recognised in read_html (3 confirmed)")
    # (f) mailparser hands out the text parts of a message as lists: the body is all of them, never one picked by position
    em = ctx.p.module(X + "mail/eml_email_extractor.py")
    parts_seen = 0
    for fi in em.functions.values():
        for x in ast.walk(fi.node):
            if isinstance(x, ast.Attribute) and x.attr in ("text_plain", "text_html"):
                parts_seen += 1
        for sub in ast.walk(fi.node):
            if isinstance(sub, ast.Subscript) and isinstance(sub.value, ast.Attribute) and sub.value.attr in ("text_plain", "text_html") and not isinstance(sub.slice, ast.Slice):
                rep.fail(Finding("C02-BYTES", em.rel, fi.qual, "one body part picked: " + anorm(sub, fi.node), f"`{short(sub, 50)}` takes one element of the list of {sub.value.attr} parts: in a message laid out text / inline image / text the text after the image is dropped from the body", line=sub.lineno))
    if parts_seen < 4:
        raise AnalysisError("C02-BYTES: the .eml reader no longer reads mail.text_plain / mail.text_html")
    rep.ok({"eml_body": "all text parts joined"})
    # (g) the stdlib-based mail reader: inside the walk over the parts every inline text part contributes to the body
    mb = ctx.p.module(X + "mail/mbox_email_extractor.py")
    walkers = [fi for fi in mb.functions.values() if any(isinstance(l, ast.For) and isinstance(l.iter, ast.Call) and isinstance(l.iter.func, ast.Attribute) and l.iter.func.attr == "walk" for l in walk_own(fi.node))
               and any(isinstance(r, ast.Return) and isinstance(r.value, ast.Tuple) and len(r.value.elts) == 2 and all(_ret_name(e) for e in r.value.elts) for r in walk_own(fi.node))]
    if len(walkers) != 1:
        raise AnalysisError("C02-BYTES: the body collector of the mbox reader (walk loop returning (plain, html)) was not found")
    bw = walkers[0]
    rep.unit(bw.key)
    bodies = {_ret_name(e) for r in walk_own(bw.node) if isinstance(r, ast.Return) and isinstance(r.value, ast.Tuple) for e in r.value.elts if _ret_name(e)}
    loop = next(l for l in walk_own(bw.node) if isinstance(l, ast.For) and isinstance(l.iter, ast.Call) and isinstance(l.iter.func, ast.Attribute) and l.iter.func.attr == "walk")
    for b in sorted(bodies):
        stores = [a for a in ast.walk(loop) if isinstance(a, (ast.Assign, ast.AugAssign)) and any(isinstance(t, ast.Name) and t.id == b for t in (a.targets if isinstance(a, ast.Assign) else [a.target]))]
        if not stores:
            raise AnalysisError(f"C02-BYTES: `{b}` is not filled inside the walk loop of {bw.key}")
        first_only = [i for i in ast.walk(loop) if isinstance(i, ast.If) and any(st is a or any(x is a for x in ast.walk(st)) for st in i.body for a in stores)
                      and any(isinstance(u, ast.UnaryOp) and isinstance(u.op, ast.Not) and isinstance(u.operand, ast.Name) and u.operand.id == b for u in ast.walk(i.test))]
        accum = all(isinstance(a, ast.AugAssign) or any(isinstance(x, ast.Name) and x.id == b for x in ast.walk(a.value)) for a in stores)
        if first_only or not accum:
            w = first_only[0] if first_only else stores[0]
            rep.fail(Finding("C02-BYTES", mb.rel, bw.qual, f"only the first part reaches {anorm(ast.Name(id=b, ctx=ast.Load()), bw.node)}: " + (anorm(w.test, bw.node) if first_only else anorm(w, bw.node))[:90],
                             f"`{b}` takes one text part and ignores the others (`{short(w.test if first_only else w, 60)}`): in a message laid out text / inline image / text the text after the image is missing from the body (the .eml reader joins all parts)", line=w.lineno))
        else:
            rep.ok({"mbox_body": b, "parts": "accumulated"})
    # (h) character translation tables: in a dict display a `**{...}` part that follows explicit entries wins over them
    n_tab = 0
    for m_ in ctx.p.modules.values():
        if "/tests/" in m_.rel or not m_.rel.startswith(X):
            continue
        for d in ast.walk(m_.tree):
            if not (isinstance(d, ast.Dict) and any(k is None for k in d.keys)):
                continue
            n_tab += 1
            seen = {}
            for k, v in zip(d.keys, d.values):
                if k is not None:
                    kv = ctx.folder.fold(m_, k)
                    if kv is not UNKNOWN:
                        seen[kv] = (ctx.folder.fold(m_, v), k)
                    continue
                spread = ctx.folder.fold(m_, v)
                if not isinstance(spread, dict):
                    continue
                lost = [(kk, seen[kk]) for kk in spread if kk in seen and seen[kk][0] is not UNKNOWN and seen[kk][0] != spread[kk]]
                if lost:
                    kk, (val, knode) = lost[0]
                    rep.fail(Finding("C02-BYTES", m_.rel, "<module>", f"dict display: {len(lost)} explicit entries overridden by a later ** part", f"the explicit entry {kk!r}: {val!r} (and {len(lost) - 1} more) is overridden by the `**` part that follows it in the same dict display, which maps {kk!r} to {spread[kk]!r}: paragraph / line separators listed as 'becomes a newline' are deleted instead and the pieces of text they separate are glued together", line=knode.lineno))
                else:
                    rep.ok({"dict_display": f"{m_.rel.split('/')[-1]}:{d.lineno}", "overrides": 0})
    if n_tab < 1:
        raise AnalysisError("C02-BYTES: no dict display with a ** part found (the PPT control-character table was confirmed)")
    # (i) the meta-charset sniffer does not look inside comments (a commented-out <meta charset> declares nothing)
    rh2 = ctx.p.func(X + "html_extractor.py", "read_html")
    sn = [c for c in calls_in(rh2) if isinstance(c.func, ast.Attribute) and c.func.attr == "search" and norm(c.func.value) == "_RE_CHARSET_ATTR_BYTES" and c.args]
    if len(sn) != 1:
        raise AnalysisError("C02-BYTES: the meta-charset search of read_html was not found")
    arg = sn[0].args[0]
    srcs = [arg]
    if isinstance(arg, ast.Name):
        srcs = [a.value for a in walk_own(rh2.node) if isinstance(a, ast.Assign) and any(isinstance(t, ast.Name) and t.id == arg.id for t in a.targets)]
    stripped = False
    for v in srcs:
        for c in ast.walk(v):
            if isinstance(c, ast.Call) and isinstance(c.func, ast.Attribute) and c.func.attr == "sub" and isinstance(c.func.value, ast.Name):
                node_ = rh2.module.assigns.get(c.func.value.id)
                pat_ = ctx.folder.fold(rh2.module, node_.args[0]) if isinstance(node_, ast.Call) and node_.args else None
                if isinstance(pat_, (bytes, str)) and (b"<!--" in pat_ if isinstance(pat_, bytes) else "<!--" in pat_):
                    stripped = True
    if stripped:
        rep.ok({"meta_charset_sniffer": "comments removed from the sniffed head"})
    else:
        rep.fail(Finding("C02-BYTES", X + "html_extractor.py", rh2.qual, "charset sniffed inside comments: " + anorm(sn[0], rh2.node), f"`{short(sn[0], 60)}` searches the raw head of the page: a <meta charset> that is commented out is found as well and the whole document is decoded with it (an ASCII page with '<!-- <meta charset=\"utf-16\"> -->' becomes CJK garbage)", line=sn[0].lineno))
    # (j) RTF: every control word that ends a stretch of text becomes white space (RTF 1.9.1: \\par \\line \\tab \\cell \\row \\sect)
    rp = ctx.p.cls(RTF, "_RtfParser")
    tab = None
    for st in rp.node.body:
        if isinstance(st, ast.Assign) and any(isinstance(t, ast.Name) and t.id == "SPECIAL_CHARS" for t in st.targets):
            tab = ctx.folder.fold(rp.module, st.value)
    if not isinstance(tab, dict):
        raise AnalysisError("C02-BYTES: _RtfParser.SPECIAL_CHARS is no longer a constant table")
    for kw in ("par", "line", "tab", "cell", "row", "sect"):
        if isinstance(tab.get(kw), str) and tab[kw] and tab[kw].isspace():
            rep.ok({"rtf_separator": kw, "becomes": repr(tab[kw])})
        else:
            rep.fail(Finding("C02-BYTES", RTF, "_RtfParser.SPECIAL_CHARS", f"\\{kw} -> {tab.get(kw)!r}", f"the RTF control word \\{kw} ends a stretch of text (paragraph, line, table cell or row) but is not turned into white space: the pieces on both sides are glued into one token that is not in the document ('AAA\\cell BBB' -> 'AAABBB')"))
    # (k) RTF: a \'xx escape is a byte of the document's ANSI code page (\ansicpg); chr(int(xx, 16)) reads it as Latin-1, which turns every
    # Cyrillic / Greek / Central European letter into mojibake and 0x80..0x9F (quotes, dashes, euro in cp1252) into C1 controls
    rm = ctx.p.module(RTF)
    n_hex_decoded = 0
    seen_k: set[int] = set()
    for fi in sorted(rm.functions.values(), key=lambda f: -f.qual.count(".")):
        binds = _Matches(ctx, fi)
        for c in ast.walk(fi.node):
            if id(c) in seen_k:
                continue
            seen_k.add(id(c))
            if isinstance(c, ast.Call) and dotted(c.func) == "chr" and c.args and isinstance(c.args[0], ast.Call) and dotted(c.args[0].func) == "int" and len(c.args[0].args) == 2 \
                    and isinstance(c.args[0].args[1], ast.Constant) and c.args[0].args[1].value == 16:
                # (hex in the text stream of an RTF document always denotes a byte: there is no other use of chr(int(.., 16)) in the reader)
                if True:
                    rep.fail(Finding("C02-BYTES", RTF, fi.qual, "hex escape as Latin-1: " + anorm(c, fi.node), f"`{short(c, 50)}` turns the byte of a \\'xx escape into the character with the same number (Latin-1); the byte belongs to the document's \\ansicpg code page: 'Привет' written by WordPad (\\ansicpg1251) comes out as 'Ïðèâåò', and \\'92 (cp1252 apostrophe) as a C1 control character", line=c.lineno))
            if isinstance(c, ast.Call) and isinstance(c.func, ast.Attribute) and c.func.attr == "decode" and isinstance(c.func.value, ast.Call) and (dotted(c.func.value.func) or "") in ("bytes.fromhex", "bytes"):
                n_hex_decoded += 1
                from sa.rules.c04 import _codec_domain

                dom = _codec_domain(ctx, rm, fi, c.args[0]) if c.args else None
                # when the codec is a parameter, every caller must hand over the declared code page
                params = [a.arg for a in fi.node.args.args]
                lame = []
                if c.args and isinstance(c.args[0], ast.Name) and c.args[0].id in params:
                    k_ = params.index(c.args[0].id)
                    for g in rm.functions.values():
                        for cc in ast.walk(g.node):
                            if isinstance(cc, ast.Call) and isinstance(cc.func, ast.Name) and cc.func.id == fi.name and len(cc.args) > k_:
                                d2 = _codec_domain(ctx, rm, g, cc.args[k_])
                                if d2 is None or "cp*" not in d2:
                                    lame.append((g, cc, d2))
                if lame:
                    seen_l = set()
                    for g, cc, d2 in lame:
                        if id(cc) in seen_l:
                            continue
                        seen_l.add(id(cc))
                        rep.fail(Finding("C02-BYTES", RTF, g.qual.split(".<locals>")[0], "hex escapes decoded with " + (",".join(sorted(d2)) if d2 else "an unknown codec"), f"`{short(cc, 60)}` decodes the \\'xx bytes with {sorted(d2) if d2 else 'a codec that is not'} the code page the document declares (\\ansicpg): text in any other code page is mojibake", line=cc.lineno))
                elif dom is not None and "cp*" in dom:
                    rep.ok({"rtf_hex_escapes": f"{fi.qual}: decoded with the \\ansicpg code page", "codec_in": sorted(dom)})
                else:
                    rep.fail(Finding("C02-BYTES", RTF, fi.qual, "hex escapes decoded with " + (",".join(sorted(dom)) if dom else "an unknown codec"), f"`{short(c, 60)}` does not decode the \\'xx bytes with the code page the document declares (\\ansicpg): text in any other code page is mojibake", line=c.lineno))
    if n_hex_decoded == 0 and not any(f.construct.startswith("hex escape as Latin-1") for f in rep.findings):
        raise AnalysisError("C02-BYTES: no site that decodes RTF \\'xx escapes was recognised")
    # (l) RTF: \uN is followed by \ucN fallback characters (default one: '?', a plain character or a \'xx escape) that are part of the escape.
    # Every site that turns a \uN match into a character continues after the fallback, through the helper that skips `count` of them.
    skippers = {f.name for f in rm.functions.values() if "." not in f.qual and any(isinstance(n, ast.For) and isinstance(n.iter, ast.Call) and dotted(n.iter.func) == "range" and n.iter.args
                and isinstance(n.iter.args[0], ast.Name) and n.iter.args[0].id in {a.arg for a in f.node.args.args} for n in walk_own(f.node))
                and any(isinstance(c, ast.Call) and isinstance(c.func, ast.Attribute) and c.func.attr == "match" for c in ast.walk(f.node))}
    n_uni = 0
    seen_sites: set[int] = set()
    for fi in sorted(rm.functions.values(), key=lambda f: -f.qual.count(".")):
        binds = _Matches(ctx, fi)
        for c in ast.walk(fi.node):
            if not (isinstance(c, ast.Call) and dotted(c.func) == "chr" and c.args and isinstance(c.args[0], ast.BinOp) and isinstance(c.args[0].op, ast.BitAnd)) or id(c) in seen_sites:
                continue
            seen_sites.add(id(c))
            g = c.args[0].left
            g = g.args[0] if isinstance(g, ast.Call) and dotted(g.func) == "int" and g.args else g
            if not (isinstance(g, ast.Call) and isinstance(g.func, ast.Attribute) and g.func.attr == "group" and isinstance(g.func.value, ast.Name)):
                continue
            pats = binds.patterns(g.func.value.id, c) or []
            if not any("\\\\u" in p_ for p_, _ in pats):
                continue
            n_uni += 1
            mv = g.func.value.id
            cont = [k for k in ast.walk(fi.node) if isinstance(k, ast.Call) and isinstance(k.func, ast.Name) and k.func.id in skippers and any(norm(a) == f"{mv}.end()" for a in k.args)]
            zero = [k for k in cont if len(k.args) >= 3 and isinstance(k.args[2], ast.Constant) and k.args[2].value == 0]
            if cont and not zero:
                rep.ok({"rtf_unicode_escape": f"{fi.qual}: {short(c, 40)}", "continues_after": short(cont[0], 60)})
            else:
                rep.fail(Finding("C02-BYTES", RTF, fi.qual, "fallback of \\uN kept: " + anorm(c, fi.node), f"after `{short(c, 50)}` the scan does not skip the fallback character(s) that follow the escape: Word writes '\\u1055\\'cf' (Unicode value + ANSI fallback), so every non-Latin character is followed by a spurious one ('ПÏрð'), and '\\u8211-' gives two dashes", line=c.lineno))
    if n_uni < 2:
        raise AnalysisError(f"C02-BYTES: only {n_uni} sites that decode \\uN escapes found in the RTF reader (2 confirmed)")
    # (m) RTF: only \u followed by a number is a Unicode escape. A dispatch branch selected by the single letter that, when the number is
    # missing, steps over just the backslash and that letter leaves the rest of the control word (\uc1 -> 'c1', \ul -> 'l', \up6 -> 'p6') as text
    full = ctx.p.maybe_func(RTF, "_RtfParser._strip_rtf_full_with_pages")
    if full is None:
        raise AnalysisError("C02-BYTES: _RtfParser._strip_rtf_full_with_pages vanished")
    for br in [n for n in walk_own(full.node) if isinstance(n, ast.If)]:
        t = br.test
        letter = None
        for cmp_ in [x for x in ast.walk(t) if isinstance(x, ast.Compare) and len(x.ops) == 1 and isinstance(x.ops[0], ast.Eq) and isinstance(x.comparators[0], ast.Constant)]:
            v = cmp_.comparators[0].value
            if isinstance(v, str) and len(v) == 1 and v.isalpha():
                letter = v
        if letter is None:
            continue
        # the branch is taken on the letter alone (no match required in the test itself)
        needs_match = any(isinstance(x, (ast.NamedExpr, ast.Call)) and "match" in norm(x) for x in ast.walk(t))
        steps = [a for st in br.body for a in ast.walk(st) if isinstance(a, ast.AugAssign) and isinstance(a.op, ast.Add) and isinstance(a.value, ast.Constant) and a.value.value == 2]
        if not needs_match and steps:
            rep.fail(Finding("C02-BYTES", RTF, full.qual, f"\\{letter} branch drops 2 characters of a control word", f"the branch for `\\{letter}` is entered for every control word that starts with '{letter}'; when no number follows it advances by 2 (`{short(steps[0], 20)}`), so the rest of the word is emitted as text: \\uc1 gives 'c1', \\ul 'l', \\ulnone 'lnone', \\up6 'p6'", line=steps[0].lineno))
        else:
            rep.ok({"rtf_letter_branch": letter, "requires_number": needs_match})
    # (n) RTF: the "inside a skipped destination" state is a depth, not a flag that any nested destination may re-arm: entering the
    # state while it is already on overwrites the depth at which it ends, and the rest of the outer group ({\pict ... hex data}) becomes text
    # the state variable is recognised by its role: the local that is set to True where the destination test (_is_skip_destination) holds
    flag_sets = []
    for a in walk_own(full.node):
        if isinstance(a, ast.Assign) and len(a.targets) == 1 and isinstance(a.targets[0], ast.Name) and isinstance(a.value, ast.Constant) and a.value.value is True:
            conds_, opaque_, _ = path_conditions(full.node, a)
            if any("_is_skip_destination" in str(c) for c in list(conds_) + list(opaque_)):
                flag_sets.append(a)
    if not flag_sets:
        raise AnalysisError("C02-BYTES: the skip state of _strip_rtf_full_with_pages (a flag set where _is_skip_destination holds) was not found")
    for a in flag_sets:
        conds, opaque, _ = path_conditions(full.node, a)
        cs = {str(c) for c in conds} | set(opaque)
        fv = a.targets[0].id
        if f"not {fv}" in cs or any(c.startswith(f"not {fv}") or f" and not {fv}" in c for c in cs):
            rep.ok({"rtf_skip_state": "entered only when not already skipping", "under": sorted(cs)[-2:]})
        else:
            rep.fail(Finding("C02-BYTES", RTF, full.qual, "skip state re-armed inside a skipped group", "skip_group / skip_depth are set for every destination group, also for one nested in a group that is already being skipped: when the nested group closes the skipping ends, and the rest of the outer group is emitted as text -- Word writes {\\pict{\\*\\picprop ...}<hex data>}, so the hexadecimal picture data lands in the body text", line=a.lineno))
    # (c) plain text: the detector judges the whole input; the text is what the detector decoded; lossy decoding only after it failed
    dd = ctx.p.func(PLAIN, "_detect_and_decode")
    rep.unit(dd.key)
    param = dd.node.args.args[0].arg
    det = [c for c in calls_in(dd) if (dotted(c.func) or "").split(".")[-1] == "from_bytes"]
    if len(det) != 1:
        raise AnalysisError("C02-BYTES: _detect_and_decode no longer calls charset_normalizer.from_bytes exactly once")
    a = det[0].args[0] if det[0].args else None
    if isinstance(a, ast.Name) and a.id == param and not any(isinstance(n, (ast.Assign, ast.AugAssign)) and any(isinstance(t, ast.Name) and t.id == param for t in (n.targets if isinstance(n, ast.Assign) else [n.target])) for n in walk_own(dd.node)):
        rep.ok({"detector_input": "the whole content"})
    else:
        rep.fail(Finding("C02-BYTES", PLAIN, dd.qual, "detector input: " + (anorm(a, dd.node) if a is not None else "?"), f"the charset detector is given `{short(a, 60) if a is not None else '?'}` instead of the whole content: the encoding of a part is not the encoding of the file (an ASCII-only head followed by UTF-8 is judged ascii and the rest is destroyed)", line=det[0].lineno))
    res = {n.targets[0].id for n in walk_own(dd.node) if isinstance(n, ast.Assign) and len(n.targets) == 1 and isinstance(n.targets[0], ast.Name) and any(x is det[0] for x in ast.walk(n.value))}
    res = _derived(dd.node, res)
    succ = [i for i in walk_own(dd.node) if isinstance(i, ast.If) and isinstance(i.test, ast.Compare) and isinstance(i.test.left, ast.Name) and i.test.left.id in res and isinstance(i.test.ops[0], ast.IsNot)]
    if len(succ) != 1:
        raise AnalysisError("C02-BYTES: the `best match is not None` branch of _detect_and_decode was not found")
    inside = {id(x) for st in succ[0].body for x in ast.walk(st)}
    handlers = {id(x) for t in ast.walk(succ[0]) if isinstance(t, ast.Try) for h in t.handlers for st in h.body for x in ast.walk(st)}
    for c in ast.walk(dd.node):
        if isinstance(c, ast.Call) and isinstance(c.func, ast.Attribute) and c.func.attr == "decode":
            err = next((k.value for k in c.keywords if k.arg == "errors"), c.args[1] if len(c.args) > 1 else None)
            lossy_dec = isinstance(err, ast.Constant) and err.value in ("replace", "ignore")
            if id(c) in inside and id(c) not in handlers:
                rep.fail(Finding("C02-BYTES", PLAIN, dd.qual, "decode in detected branch: " + anorm(c, dd.node), f"when the detector has an answer the text must be the detector's own decoding (`str(best_match)`), not `{short(c, 60)}`: the detector's answer describes exactly the bytes it was given" + (", and errors='replace' invents U+FFFD for every byte the guess does not cover" if lossy_dec else ""), line=c.lineno))
            else:
                rep.ok({"decode": short(c, 50), "where": "fallback after detection failed"})
    return rep


def rule_repeat(ctx: Ctx) -> RuleReport:
    """ODF run-length attributes (number-rows-repeated / number-columns-repeated): the count may be ignored only for empty content."""
    ODS = X + "open_office/ods_extractor.py"
    rep = RuleReport("C02-REPEAT", "a row / cell that is stored once with a repeat count is emitted that many times; the count is dropped only under a test that the repeated content is empty")
    sh = ctx.p.func(ODS, "_extract_sheet")
    rep.unit(sh.key)
    reps = {n.targets[0].id for n in walk_own(sh.node) if isinstance(n, ast.Assign) and len(n.targets) == 1 and isinstance(n.targets[0], ast.Name)
            and isinstance(n.value, ast.Call) and norm(n.value.func) == "int" and n.value.args and isinstance(n.value.args[0], ast.Call) and isinstance(n.value.args[0].func, ast.Attribute) and n.value.args[0].func.attr == "get"
            and "REPEAT" in norm(n.value.args[0]).upper()}
    if len(reps) < 2:
        raise AnalysisError(f"C02-REPEAT: the repeat counts of _extract_sheet were not found ({sorted(reps)})")

    def multiplies(stmts, r):
        return any(isinstance(b, ast.BinOp) and isinstance(b.op, ast.Mult) and any(isinstance(x, ast.Name) and x.id == r for x in ast.walk(b)) for st in stmts for b in ast.walk(st))

    def emptiness(c) -> bool:
        if isinstance(c, ast.Compare) and len(c.ops) == 1 and isinstance(c.ops[0], ast.Is) and isinstance(c.comparators[0], ast.Constant) and c.comparators[0].value is None:
            return True
        if isinstance(c, ast.Call) and isinstance(c.func, ast.Name) and c.func.id == "all" and c.args and isinstance(c.args[0], (ast.GeneratorExp, ast.ListComp)):
            return emptiness(c.args[0].elt)
        if isinstance(c, ast.UnaryOp) and isinstance(c.op, ast.Not) and isinstance(c.operand, ast.Call) and isinstance(c.operand.func, ast.Name) and c.operand.func.id == "any":
            return True
        return False

    n = 0
    for r in sorted(reps):
        uses = [i for i in walk_own(sh.node) if isinstance(i, ast.If) and (multiplies(i.body, r) != multiplies(i.orelse, r))]
        plain = [st for st in walk_own(sh.node) if isinstance(st, ast.Expr) and multiplies([st], r)]
        if not uses and not plain:
            rep.fail(Finding("C02-REPEAT", ODS, sh.qual, "repeat count unused", f"the repeat count `{r}` is never applied: repeated rows / cells appear once", line=sh.node.lineno))
            continue
        for i in uses:
            n += 1
            conj = i.test.values if isinstance(i.test, ast.BoolOp) and isinstance(i.test.op, ast.And) else [i.test]
            dropping_in_body = not multiplies(i.body, r)
            if dropping_in_body and any(emptiness(c) for c in conj):
                rep.ok({"repeat": r, "dropped_only_when": anorm(i.test, sh.node)})
            elif not dropping_in_body:
                # `if <non-empty>: multiply else: once` — the else branch is the complement; accept only the direct negation form
                rep.residual.append(f"{sh.key}: repeat `{r}` dropped in an else branch; not judged")
                rep.obligations += 1
            else:
                rep.fail(Finding("C02-REPEAT", ODS, sh.qual, "repeat dropped when " + anorm(i.test, sh.node), f"the repeat count `{r}` is ignored whenever `{short(i.test, 60)}`, without a test that the repeated content is empty: a data row stored once with a large repeat count appears once in the text and in the table", line=i.lineno))
    if n < 2:
        raise AnalysisError(f"C02-REPEAT: only {n} repeat decisions found in _extract_sheet (2 confirmed)")
    return rep


def rule_data(ctx: Ctx) -> RuleReport:
    """html.parser based readers: character data that is not inside a removed element always lands somewhere."""
    from sa.rules.c17 import _parsers

    rep = RuleReport("C02-DATA", "handle_data of the html.parser subclasses never returns without storing its argument on a path that tested the argument itself (no piece of character data is dropped because of what it contains)")
    for cls in _parsers(ctx):
        hd = cls.methods.get("handle_data")
        if hd is None:
            raise AnalysisError(f"C02-DATA: {cls.name} has no handle_data")
        rep.unit(hd.key)
        param = hd.node.args.args[1].arg if len(hd.node.args.args) > 1 else None
        guard = next((i for i in hd.node.body if isinstance(i, ast.If) and i.body and isinstance(i.body[-1], ast.Return)), None)
        if param is None or guard is None:
            raise AnalysisError(f"C02-DATA: {cls.name}.handle_data has no data parameter / suppression guard")
        sup_attrs = {a.attr for a in ast.walk(guard.test) if isinstance(a, ast.Attribute) and isinstance(a.value, ast.Name) and a.value.id == "self"}
        cfg = ctx.cfg(hd)
        stores = set()
        for nd in cfg.nodes:
            if nd.ast is not None and nd.kind == "stmt" and not isinstance(nd.ast, (ast.If, ast.For, ast.While, ast.Try, ast.With, ast.Return)):
                uses = any(isinstance(x, ast.Name) and x.id == param for x in ast.walk(nd.ast))
                writes = isinstance(nd.ast, (ast.AugAssign, ast.Assign)) or any(isinstance(x, ast.Call) and isinstance(x.func, ast.Attribute) and x.func.attr in ("append", "extend", "write", "handle_data") for x in ast.walk(nd.ast))
                if uses and writes:
                    stores.add(nd.id)
        if not stores:
            raise AnalysisError(f"C02-DATA: {cls.name}.handle_data never stores its data")
        # paths entry -> exit avoiding every store
        bad = None
        state_only = None
        stack = [(cfg.entry, [])]
        seen = set()
        while stack and bad is None:
            n, reasons = stack.pop()
            for s_ in cfg.succ[n]:
                if s_ in stores:
                    continue
                lab = cfg.elabel.get((n, s_))
                nd = cfg.nodes[n]
                r2 = reasons + [(nd.ast, lab)] if nd.kind == "test" and lab in ("true", "false") else reasons
                if s_ == cfg.exit:
                    suppressed = any({a.attr for a in ast.walk(t) if isinstance(a, ast.Attribute) and isinstance(a.value, ast.Name) and a.value.id == "self"} & sup_attrs and lab_ == "true" for t, lab_ in r2)
                    on_data = any(any(isinstance(x, ast.Name) and x.id == param for x in ast.walk(t)) for t, _l in r2)
                    if not suppressed and on_data:
                        bad = r2
                        break
                    if not suppressed:
                        state_only = r2
                    continue
                if lab == "exc" or s_ == cfg.raise_exit or (s_, len(r2)) in seen:
                    continue
                seen.add((s_, len(r2)))
                stack.append((s_, r2))
        if bad is None:
            if state_only is not None:
                rep.info.append(f"{hd.key}: a path that stores nothing depends on parser state only ({' and '.join(short(t, 30) + ' is ' + l for t, l in state_only[-2:])}); not judged")
            rep.ok({"parser": cls.name, "data": "never dropped because of its content"})
        else:
            why = " and ".join(f"{anorm(t, hd.node)} is {l}" for t, l in bad[-2:]) or "unconditionally"
            rep.fail(Finding("C02-DATA", cls.module.rel, hd.qual, "data dropped when " + why, f"handle_data returns without storing its text when {' and '.join(short(t, 40) + ' is ' + l for t, l in bad[-2:]) or 'always'} although no removed element is open: that piece of body text is missing (white space between two inline elements glues 'Ada' and 'Lovelace' together)", line=hd.node.lineno))
    tail_clauses(ctx, rep, "C02-DATA")
    return rep


def tail_clauses(ctx: Ctx, rep: RuleReport, rule: str) -> None:
    """The tail of an element (the character data behind its end tag) sits between inline neighbours: a tail that is only a blank is the
    blank between two words ('<span>Net</span> <span>revenue</span>'). Whoever emits tails emits every non-empty one: the guard is the
    truthiness of the tail, never a test of what it contains."""
    n = 0
    for m in ctx.p.modules.values():
        if "/tests/" in m.rel or not m.rel.startswith(X):
            continue
        for fi in m.functions.values():
            tails = {a.targets[0].id for a in walk_own(fi.node) if isinstance(a, ast.Assign) and len(a.targets) == 1 and isinstance(a.targets[0], ast.Name) and isinstance(a.value, ast.Attribute) and a.value.attr == "tail"}

            def is_tail(e):
                return (isinstance(e, ast.Attribute) and e.attr == "tail") or (isinstance(e, ast.Name) and e.id in tails) or \
                    (isinstance(e, ast.Subscript) and isinstance(e.slice, ast.Constant) and e.slice.value == "tail") or \
                    (isinstance(e, ast.Call) and isinstance(e.func, ast.Attribute) and e.func.attr == "get" and e.args and isinstance(e.args[0], ast.Constant) and e.args[0].value == "tail")

            for i in [x for x in walk_own(fi.node) if isinstance(x, ast.If)]:
                emits = any((isinstance(c, ast.Call) and isinstance(c.func, ast.Attribute) and c.func.attr in ("append", "extend", "write") and c.args and is_tail(c.args[0])) or
                            (isinstance(c, ast.AugAssign) and is_tail(c.value)) for st in i.body if not isinstance(st, (ast.If, ast.For, ast.While, ast.Try, ast.With)) for c in ast.walk(st))
                if not emits:
                    continue
                n += 1
                rep.unit(fi.key)
                content_tests = [c for c in ast.walk(i.test) if isinstance(c, ast.Call) and isinstance(c.func, ast.Attribute) and is_tail(c.func.value) and c.func.attr != "get"]
                content_tests += [c for c in ast.walk(i.test) if isinstance(c, ast.Compare) and any(is_tail(x) for x in [c.left] + c.comparators) and not all(isinstance(o, (ast.Is, ast.IsNot)) for o in c.ops)]
                if content_tests:
                    rep.fail(Finding(rule, m.rel, fi.qual, "tail emitted only when " + anorm(i.test, fi.node), f"`{short(i.test, 60)}` decides by the content of the tail whether it is emitted: a tail that is a single blank -- the blank between two inline elements -- is dropped and the words on its two sides are glued ('Net revenue' -> 'Netrevenue')", line=i.lineno))
                else:
                    rep.ok({"tail": f"{fi.qual}: emitted when `{short(i.test, 40)}`"})
    if n < 3:
        raise AnalysisError(f"{rule}: only {n} places that emit element tails found (3 confirmed)")


def rule_once(ctx: Ctx) -> RuleReport:
    """A text accessor that writes into the stored pieces (e.g. extends body_text while combining) repeats text on the next call."""
    from sa.rules.c06 import rule_pure

    rep = rule_pure(ctx)
    rep.rule = "C02-ONCE"
    rep.description = "text accessors of the result classes write nothing reachable from self: reading the text twice cannot duplicate stored pieces"
    for f in rep.findings:
        f.rule = "C02-ONCE"
    return rep


def rule_trim(ctx: Ctx) -> RuleReport:
    """Sheet text is built from the trimmed grid: cells classified as empty are missing from the text as well (= C13-TRIM)."""
    from sa.rules.c13 import rule_trim as r13

    rep = r13(ctx)
    rep.rule = "C02-TRIM"
    rep.description = "worksheet trimming treats only None and blank strings as empty, so no cell value (0, 0.0, False) is missing from the sheet text"
    for f in rep.findings:
        f.rule = "C02-TRIM"
    return rep


# ----------------------------------------------------------------------------------------------- BREAK
def _tag_names(ctx, mod, test: ast.AST) -> set[str]:
    """Local names (without namespace) of the element tags a dispatch test compares with: `x == T`, `x in (T1, T2)`, `x in SET`."""
    out: set[str] = set()
    for cmp_ in [x for x in ast.walk(test) if isinstance(x, ast.Compare) and len(x.ops) == 1 and isinstance(x.ops[0], (ast.Eq, ast.In))]:
        v = ctx.folder.fold(mod, cmp_.comparators[0])
        vals = [v] if isinstance(v, str) else list(v) if isinstance(v, (tuple, list, set, frozenset)) else []
        for t in vals:
            if isinstance(t, str):
                out.add(t.rsplit("}", 1)[-1])
    return out


def _appends_space(body) -> bool:
    for st in body:
        for c in ast.walk(st):
            if isinstance(c, ast.Call) and isinstance(c.func, ast.Attribute) and c.func.attr == "append" and c.args and isinstance(c.args[0], ast.Constant) and isinstance(c.args[0].value, str) \
                    and c.args[0].value and c.args[0].value.isspace():
                return True
    return False


def rule_break(ctx: Ctx) -> RuleReport:
    """Inline break elements are the only thing between the words on their two sides: each must put white space into the text."""
    rep = RuleReport("C02-BREAK", "inline break elements (DOCX w:tab / w:br / w:cr inside a run, PPTX a:br, HTML <br> and block children inside cells and headings) "
                     "emit white space: the words on their two sides are not glued into a token that is not in the document")
    # (a) DOCX: CT_R (ECMA-376 17.3.3) -- tab, br, cr are siblings of w:t inside the run
    DOCX_ = X + "ms_modern/docx_extractor.py"
    dm = ctx.p.module(DOCX_)
    pt = ctx.p.func(DOCX_, "_process_text_element")
    rep.unit(pt.key)
    run_if = [n for n in walk_own(pt.node) if isinstance(n, ast.If) and "r" in _tag_names(ctx, dm, n.test)]
    loops = [l for i in run_if for l in i.body if isinstance(l, ast.For)]
    if not loops:
        raise AnalysisError("C02-BREAK: the w:r branch of _process_text_element (a loop over the run's children) was not found")
    covered: dict[str, bool] = {}
    for l in loops:
        chain = [n for n in ast.walk(l) if isinstance(n, ast.If)]
        for br in chain:
            for t in _tag_names(ctx, dm, br.test):
                covered[t] = covered.get(t, False) or _appends_space(br.body)
    if "t" not in covered:
        raise AnalysisError("C02-BREAK: the run loop no longer dispatches on w:t")
    for need, why in (("tab", "'Name:<w:tab/>Alice' becomes 'Name:Alice'"), ("br", "address lines separated by <w:br/> become one word"), ("cr", "<w:cr/> is the same break in older producers")):
        if covered.get(need):
            rep.ok({"docx_run_child": need, "emits": "white space"})
        else:
            rep.fail(Finding("C02-BREAK", DOCX_, pt.qual, f"w:{need} inside a run emits nothing", f"the loop over the children of a run has no branch for w:{need} that appends white space: {why}", line=loops[0].lineno))
    # (b) PPTX: a:br between the runs of a paragraph
    PPTX_ = X + "ms_modern/pptx_extractor.py"
    pm = ctx.p.module(PPTX_)
    hit = False
    for fi in pm.functions.values():
        for br in [n for n in walk_own(fi.node) if isinstance(n, ast.If)]:
            if "br" in _tag_names(ctx, pm, br.test):
                hit = True
                rep.unit(fi.key)
                if _appends_space(br.body):
                    rep.ok({"pptx": f"{fi.qual}: a:br", "emits": "white space"})
                else:
                    rep.fail(Finding("C02-BREAK", PPTX_, fi.qual, "a:br emits nothing", "the branch for a:br does not append white space: the lines of a text box are glued", line=br.lineno))
    if not hit:
        rep.fail(Finding("C02-BREAK", PPTX_, "<module>", "a:br not handled", "no function of the PPTX reader has a branch for a:br: the lines of a text box are glued"))
    # (c) HTML: the text of a node (cells, headings, link texts) -- <br> and block-level descendants are boundaries
    HTML_ = X + "html_extractor.py"
    hm = ctx.p.module(HTML_)
    gn = next((f for f in hm.functions.values() if f.name == "_get_node_text"), None)
    if gn is None:
        raise AnalysisError("C02-BREAK: _get_node_text vanished from the HTML reader")
    rep.unit(gn.key)
    defs = {n.targets[0].id: n.value for n in walk_own(gn.node) if isinstance(n, ast.Assign) and len(n.targets) == 1 and isinstance(n.targets[0], ast.Name)}
    # white space must come before the element's own text and after its last child: '<td>A<p>B</p>C</td>' needs both sides
    body = gn.node.body
    own_text = next((k for k, st in enumerate(body) if any(isinstance(x, ast.Subscript) and isinstance(x.slice, ast.Constant) and x.slice.value == "text" for x in ast.walk(st)) and
                     any(isinstance(c, ast.Call) and isinstance(c.func, ast.Attribute) and c.func.attr == "append" for c in ast.walk(st))), None)
    kids = next((k for k, st in enumerate(body) if any(isinstance(x, ast.For) and "children" in norm(x.iter) for x in ast.walk(st))), None)
    if own_text is None or kids is None:
        raise AnalysisError("C02-BREAK: _get_node_text no longer appends the node's text and then its children")
    before: set[str] = set()
    after: set[str] = set()
    for k, br in enumerate(body):
        if not isinstance(br, ast.If):
            continue
        test = br.test
        if isinstance(test, ast.Name) and test.id in defs:
            test = defs[test.id]
        tn = _tag_names(ctx, hm, test)
        if tn and _appends_space(br.body):
            if k < own_text:
                before |= tn
            elif k > kids:
                after |= tn
    for need in ("br", "p", "div", "li"):
        if (need in before and need in after) or (need == "br" and need in before | after):
            rep.ok({"html_node_text": need, "emits": "white space on both sides"})
        else:
            rep.fail(Finding("C02-BREAK", HTML_, gn.qual, f"<{need}> inside a cell or heading emits nothing", f"_get_node_text concatenates text, children and tails; a <{need}> among the descendants puts no white space between them: '<td>Mainstreet<br>Springfield</td>' gives 'MainstreetSpringfield' in the text and in the table", line=gn.node.lineno))
    return rep


# ----------------------------------------------------------------------------------------------- ALT
def rule_alt(ctx: Ctx) -> RuleReport:
    """mc:AlternateContent (ECMA-376 part 3) holds one content twice: mc:Choice for consumers that know the named extension, mc:Fallback
    for the others. A descendant iteration over the shape tree crosses both; it must leave out what lies under an mc:Fallback."""
    rep = RuleReport("C02-ALT", "the shape collection of the PPTX slide reader iterates the shape tree with a filter that leaves out the descendants of mc:Fallback "
                     "(taken only when the mc:Choice holds no shape): the two renderings of one content are never both emitted")
    PPTX_ = X + "ms_modern/pptx_extractor.py"
    pm = ctx.p.module(PPTX_)
    fi = ctx.p.func(PPTX_, "_process_slide_from_context")
    rep.unit(fi.key)
    shape_names = {"sp", "pic", "graphicFrame"}
    # sets filled from the descendants of mc:Fallback elements
    fb_loops = [l for l in ast.walk(fi.node) if isinstance(l, ast.For) and isinstance(l.iter, ast.Call) and any(isinstance(a, ast.Name) and str(ctx.folder.fold(pm, a)).endswith("}Fallback") for a in l.iter.args)]
    excluded: set[str] = set()
    for l in fb_loops:
        for c in ast.walk(l):
            if isinstance(c, ast.Call) and isinstance(c.func, ast.Attribute) and c.func.attr in ("update", "add") and isinstance(c.func.value, ast.Name) and any(isinstance(x, ast.Call) and isinstance(x.func, ast.Attribute) and x.func.attr == "iter" for x in ast.walk(c)):
                excluded.add(c.func.value.id)
    # the variable that holds the shape tree
    trees = {a.targets[0].id for a in walk_own(fi.node) if isinstance(a, ast.Assign) and len(a.targets) == 1 and isinstance(a.targets[0], ast.Name)
             and any(isinstance(x, ast.Name) and str(ctx.folder.fold(pm, x)).endswith("}spTree") for x in ast.walk(a.value))}
    if not trees:
        raise AnalysisError("C02-ALT: the shape tree variable of _process_slide_from_context was not found")

    def _excluding(test, tv) -> bool:
        """test (or one conjunct of it) is `id(tv) not in S` / `tv not in S` with S a set of Fallback descendants"""
        parts = test.values if isinstance(test, ast.BoolOp) and isinstance(test.op, ast.And) else [test]
        return any(isinstance(t, ast.Compare) and len(t.ops) == 1 and isinstance(t.ops[0], ast.NotIn) and isinstance(t.comparators[0], ast.Name) and t.comparators[0].id in excluded
                   and tv in {x.id for x in ast.walk(t.left) if isinstance(x, ast.Name)} for t in parts)

    n = 0
    for l in [x for x in walk_own(fi.node) if isinstance(x, ast.For)]:
        it = l.iter
        if not (isinstance(it, ast.Call) and isinstance(it.func, ast.Attribute) and it.func.attr == "iter" and isinstance(it.func.value, ast.Name) and it.func.value.id in trees):
            continue
        tag = ctx.folder.fold(pm, it.args[0]) if it.args else None
        if isinstance(tag, str) and tag.rsplit("}", 1)[-1] in ("AlternateContent", "Fallback", "Choice"):
            continue  # the scan that builds the exclusion set
        n += 1
        tv = l.target.id if isinstance(l.target, ast.Name) else ""
        # every statement that keeps the element (append / add / store) is under the exclusion test, or an early `continue` on membership precedes it
        guarded = True
        for st in l.body:
            if isinstance(st, ast.If) and not st.orelse:
                t = st.test
                skip = isinstance(t, ast.Compare) and len(t.ops) == 1 and isinstance(t.ops[0], ast.In) and isinstance(t.comparators[0], ast.Name) and t.comparators[0].id in excluded and st.body and isinstance(st.body[-1], ast.Continue)
                if skip:
                    break
                if _excluding(t, tv):
                    continue
            keeps = any(isinstance(c, ast.Call) and isinstance(c.func, ast.Attribute) and c.func.attr in ("append", "add", "extend") for c in ast.walk(st))
            if keeps:
                guarded = False
                break
        if guarded:
            rep.ok({"shape_iteration": short(it, 40), "filtered_by": sorted(excluded)})
        else:
            rep.fail(Finding("C02-ALT", PPTX_, fi.qual, f"{anorm(it, fi.node)} crosses mc:Fallback", f"`{short(it, 40)}` visits every descendant of the shape tree, also the shapes inside mc:Fallback, without leaving them out: when PowerPoint stores a shape as mc:AlternateContent (equations, ink, newer charts) its text is emitted twice", line=l.lineno))
    if n < 1:
        raise AnalysisError("C02-ALT: no descendant iteration over the shape tree found in _process_slide_from_context")
    # the Fallback is the content when the Choice has no shape: the exclusion is conditional on the Choice holding one
    cond = [i for l in ast.walk(fi.node) if isinstance(l, ast.For) for i in l.body if isinstance(i, ast.If) and any(x in fb_loops for x in ast.walk(i))]
    if fb_loops and cond:
        rep.ok({"fallback_kept_when": "the mc:Choice holds no shape", "test": short(cond[0].test, 80)})
    elif fb_loops:
        rep.fail(Finding("C02-ALT", PPTX_, fi.qual, "mc:Fallback always left out", "the descendants of mc:Fallback are left out unconditionally: when the mc:Choice holds something the reader does not collect (ink, media) the Fallback rendering is the only text and picture there is", line=fb_loops[0].lineno))
    return rep


def rule_member(ctx: Ctx) -> RuleReport:
    """'Every piece of body text ... appears': an archive member that is filtered out contributes no text at all. The member filter skips
    exactly the documented classes (= C10-EXACT)."""
    from sa.rules.c10 import rule_exact

    rep = rule_exact(ctx)
    rep.rule = "C02-MEMBER"
    rep.description = "the archive member filter skips exactly the documented classes (hidden, __MACOSX, unsupported, nested archive): no supported, visible member loses its text"
    for f in rep.findings:
        f.rule = "C02-MEMBER"
    return rep


RULES = [rule_walk, rule_excl, rule_sink, rule_fallback, rule_bytes, rule_repeat, rule_data, rule_once, rule_trim, rule_break, rule_alt, rule_member]
