"""C17 — removed markup is removed completely and takes nothing else with it."""
from __future__ import annotations

import ast
import re
import itertools

from sa.engine.callgraph import calls_in, resolve_call
from sa.engine.context import Ctx
from sa.engine.loader import AnalysisError, anorm, dotted, norm, short, walk_own
from sa.engine.objinterp import UNK, ObjInterp
from sa.engine.report import Finding, RuleReport
from sa.rules.common import X

HTML = X + "html_extractor.py"
EPUB = X + "epub_extractor.py"
MHTML = X + "mhtml_extractor.py"
MSG = X + "mail/msg_email_extractor.py"

EXPLANATION = (
    "The HTML-family parsers are html.parser.HTMLParser subclasses whose callbacks keep a skip state. The callbacks "
    "(handle_starttag / handle_endtag / handle_startendtag / handle_data / handle_comment / any other handle_* or "
    "unknown_decl) are interpreted abstractly (AST walk, three-valued conditions, self attributes tracked, every write to "
    "self recorded) over the finite tag classes {each removable tag of the property, void tags, ordinary tags}. From "
    "that the checker derives, for every event, whether character data is suppressed (handle_data cannot write) and "
    "model-checks all event sequences of a small grammar (void children, self-closing forms, stray end tags, unclosed "
    "start tags, balanced and nested removable elements; depth <= 2, <= 4 atoms) against the reference semantics "
    "'suppressed exactly between the start tag of a removable element and its matching end tag': N1 void start tags never "
    "change the state, N2 stray/unclosed tags inside a removed element neither end it early nor prolong it, N3 a void "
    "removable element (embed) opens no region, N4 no data-bearing callback writes while suppressed and comments never "
    "write, N5 MHTML and MSG bodies reach text only through these parsers without regex pre-processing of the markup. (EOF) close() is never called on the html.parser subclasses (at end of input it hands unterminated comments / declarations / tags to handle_data as text); the buffer left after feed() is delivered only under a test that it contains no '<'."
    ' (TOK) the parser classes override callbacks only: no tokenizer attribute or method of html.parser (CDATA_CONTENT_ELEMENTS, set_cdata_mode, parse_*) is redefined, so the model the callbacks are explored against is the tokenizer as shipped. (GUARD) in every callback that writes parser state the early return under the suppression test precedes the first write.'
)
NOT_DECIDED = ["text of mis-nested *removable* elements of different names (inherently ambiguous)",
               "html.parser's own tokenisation (CDATA content mode of script/style, attribute parsing)"]
TRUSTED = ["html.parser emits handle_starttag for every start tag, handle_endtag for every end tag, none for void elements' (absent) end tags, and handle_startendtag (default: start then end) for self-closing tags",
           "abstract interpreter sa/engine/objinterp.py"]
FLOORS = {"C17-TOK": 2, "C17-GUARD": 5, "C17-SKIP": 400, "C17-N4": 4, "C17-N5": 2, "C17-EOF": 3, "C17-FRESH": 3, "C17-TREE": 2}

REMOVABLE = ["script", "style", "noscript", "iframe", "object", "embed", "applet"]
HTML_VOID = {"area", "base", "br", "col", "embed", "hr", "img", "input", "link", "meta", "param", "source", "track", "wbr"}
VOID_REPS = ["img", "br", "param"]
ORD = "p"


def _parsers(ctx: Ctx):
    out = []
    for c in ctx.p.all_classes():
        if "HTMLParser" in ctx.p.base_names(c):
            out.append(c)
    if len(out) < 2:
        raise AnalysisError(f"C17: only {len(out)} HTMLParser subclasses found (floor 2: HTML tree builder and EPUB chapter parser)")
    return out


class _Machine:
    """Abstract state machine of one parser class, driven through its callbacks."""

    def __init__(self, ctx: Ctx, cls):
        self.interp = ObjInterp(ctx.p, ctx.folder, cls)
        self.cls = cls
        init = self.interp.run("__init__", {}, {}) if self.interp.has_method("__init__") else []
        self.init_states = self._dedupe([o.state for o in init]) or [{}]
        self._cache = {}

    @staticmethod
    def _key(state):
        return tuple(sorted((k, repr(v)) for k, v in state.items()))

    def _dedupe(self, states):
        seen, out = set(), []
        for s in states:
            k = self._key(s)
            if k not in seen:
                seen.add(k)
                out.append(s)
        return out

    def step(self, states, event):
        kind, tag = event
        outs = []
        for s in states:
            ck = (self._key(s), event)
            if ck not in self._cache:
                res = []
                if kind == "start":
                    res = [o.state for o in self.interp.run("handle_starttag", s, {"tag": tag, "attrs": UNK})]
                elif kind == "end":
                    res = [o.state for o in self.interp.run("handle_endtag", s, {"tag": tag})]
                elif kind == "startend":
                    own = self.cls.methods.get("handle_startendtag") or (self.interp.p.find_method(self.cls, "handle_startendtag"))
                    if own is not None:
                        res = [o.state for o in self.interp.run("handle_startendtag", s, {"tag": tag, "attrs": UNK})]
                    else:
                        mid = [o.state for o in self.interp.run("handle_starttag", s, {"tag": tag, "attrs": UNK})]
                        for ms in mid:
                            res.extend(o.state for o in self.interp.run("handle_endtag", ms, {"tag": tag}))
                self._cache[ck] = self._dedupe(res)
            outs.extend(self._cache[ck])
        return self._dedupe(outs)

    def data_writes(self, states):
        """(can_write_some, can_write_all): does handle_data write in these states?"""
        some, all_ = False, True
        for s in states:
            outs = self.interp.run("handle_data", s, {"data": UNK})
            w = [bool(o.mutations) for o in outs]
            some = some or any(w)
        return some


def _content_atoms():
    atoms = []
    for v in VOID_REPS:
        atoms.append((f"<{v}>", [("start", v)]))
        atoms.append((f"<{v}/>", [("startend", v)]))
    atoms.append(("<embed>", [("start", "embed")]))
    atoms.append(("<embed/>", [("startend", "embed")]))
    atoms.append((f"</{ORD}>", [("end", ORD)]))  # stray end tag
    atoms.append((f"<{ORD}>", [("start", ORD)]))  # unclosed start tag
    atoms.append((f"<{ORD}/>", [("startend", ORD)]))
    atoms.append(("</br>", [("end", "br")]))  # stray end tag of a void element
    return atoms


def rule_skip(ctx: Ctx) -> RuleReport:
    rep = RuleReport("C17-SKIP", "abstract state machine of the skip state agrees with the reference on all generated event sequences (N1-N3)")
    atoms = _content_atoms()
    for cls in _parsers(ctx):
        rep.unit(cls.key)
        for needed in ("handle_starttag", "handle_endtag", "handle_data"):
            if needed not in cls.methods:
                raise AnalysisError(f"C17: {cls.name} has no {needed} (idiom not recognised)")
        mach = _Machine(ctx, cls)
        reported = set()

        def fail(kind, seq_txt, msg, line=None):
            key = (cls.name, kind)
            if key in reported:
                rep.obligations += 1
                return
            reported.add(key)
            rep.fail(Finding("C17-SKIP", cls.module.rel, cls.name, kind, f"{msg}; witness: {seq_txt}", line=cls.node.lineno))

        def check(seq, label):
            """seq: list of (text, events, expect_suppressed_after)"""
            states = mach.init_states
            txt = ""
            for text, events, expect in seq:
                txt += text
                for ev in events:
                    states = mach.step(states, ev)
                    if not states:
                        raise AnalysisError(f"C17: no abstract successor state for {ev} in {cls.name}")
                w = mach.data_writes(states)
                if expect and w:
                    return fail(label + ":leak", txt + "TEXT", "character data can be written while inside a removed element")
                if not expect and not w:
                    return fail(label + ":swallow", txt + "TEXT", "character data after this point is dropped although no removed element is open")
            rep.ok({"parser": cls.name, "sequence": txt, "ok": True})

        # outside any removable element: void tags (incl. embed) never start suppression
        for text, evs in atoms:
            check([(text, evs, False)], "N1/N3 outside")
        roots = [r for r in REMOVABLE if r not in HTML_VOID]
        for root in roots:
            # empty element and self-closing form
            check([(f"<{root}>", [("start", root)], True), (f"</{root}>", [("end", root)], False)], f"N0 {root}")
            check([(f"<{root}/>", [("startend", root)], False)], f"N0 {root}")
            # content atoms, up to 2 in a row for every root; up to 3 for one representative
            maxlen = 3 if root == "noscript" else 2
            for n in range(1, maxlen + 1):
                for combo in itertools.product(atoms, repeat=n):
                    seq = [(f"<{root}>", [("start", root)], True)]
                    for text, evs in combo:
                        seq.append((text, evs, True))
                    seq.append((f"</{root}>", [("end", root)], False))
                    # and the document goes on: an ordinary element afterwards is visible
                    seq.append((f"<{ORD}>", [("start", ORD)], False))
                    check(seq, "N1/N2 inside")
            # balanced ordinary element inside
            check([(f"<{root}>", [("start", root)], True), (f"<{ORD}>", [("start", ORD)], True), (f"</{ORD}>", [("end", ORD)], True),
                   (f"</{root}>", [("end", root)], False)], "N2 balanced")
            # nested removable elements, balanced (same name and different name), with a void child inside the inner one
            for inner in roots:
                for atom_text, atom_evs in [("", [])] + atoms[:3]:
                    check([(f"<{root}>", [("start", root)], True), (f"<{inner}>", [("start", inner)], True), (atom_text, atom_evs, True),
                           (f"</{inner}>", [("end", inner)], True), (f"</{root}>", [("end", root)], False)], "N2 nested")
        # embed with explicit end tag
        check([("<embed>", [("start", "embed")], False), ("</embed>", [("end", "embed")], False)], "N3 embed")
    return rep


def rule_n4(ctx: Ctx) -> RuleReport:
    rep = RuleReport("C17-N4", "no data-bearing callback writes while suppressed; comment callbacks never write")
    DATA_CALLBACKS = ["handle_data", "handle_comment", "handle_decl", "handle_pi", "unknown_decl", "handle_entityref", "handle_charref"]
    for cls in _parsers(ctx):
        rep.unit(cls.key)
        mach = _Machine(ctx, cls)
        # a suppressed state: right after <noscript>
        sup = mach.step(mach.init_states, ("start", "noscript"))
        if mach.data_writes(sup):
            rep.info.append(f"{cls.name}: not suppressed after <noscript> (reported by C17-SKIP)")
        for cb in DATA_CALLBACKS:
            fi = cls.methods.get(cb)
            if fi is None:
                continue
            params = [a.arg for a in fi.node.args.args][1:]
            args = {p: UNK for p in params}
            writes_sup = any(o.mutations for s in sup for o in mach.interp.run(cb, s, args))
            if writes_sup and not mach.data_writes(sup):
                rep.fail(Finding("C17-N4", cls.module.rel, f"{cls.name}.{cb}", cb, f"{cb} can write parser state while inside a removed element (content of removed markup can leak)", line=fi.node.lineno))
            else:
                rep.ok({"parser": cls.name, "callback": cb, "writes_while_suppressed": False})
            if cb == "handle_comment":
                writes_any = any(o.mutations for s in mach.init_states for o in mach.interp.run(cb, s, args))
                if writes_any:
                    rep.fail(Finding("C17-N4", cls.module.rel, f"{cls.name}.{cb}", "comment", "handle_comment writes parser state: comment content can reach the text", line=fi.node.lineno))
                else:
                    rep.ok({"parser": cls.name, "comments": "ignored"})
        # the property's list of removable tags is covered by the table the class consults
        for t in REMOVABLE:
            if t in HTML_VOID:
                continue
            st = mach.step(mach.init_states, ("start", t))
            if mach.data_writes(st):
                rep.fail(Finding("C17-N4", cls.module.rel, cls.name, t, f"content of <{t}> is not suppressed", line=cls.node.lineno))
            else:
                rep.ok({"parser": cls.name, "removable": t})
    return rep


_PRE_TRANSFORMS = {"re.sub", "re.subn", "re.split"}


# elements a body fragment typically starts with / whose content must never be text, and the ways an opening tag is written
HTML_HINT_TAGS = ["div", "p", "br", "span", "table", "style", "script"]
HTML_TAG_FORMS = [("bare", "<{t}>"), ("with attribute", '<{t} class="a">'), ("self-closing", "<{t}/>"), ("self-closing with blank", "<{t} />"), ("attribute on next line", "<{t}\nid='x'>")]


def rule_n5(ctx: Ctx) -> RuleReport:
    rep = RuleReport("C17-N5", "MHTML and MSG HTML bodies reach text only through the checked parsers, markup not rewritten on the way")
    # MHTML: read_mhtml -> read_html(io.BytesIO(html_content)); html_content comes from _extract_from_mhtml unchanged
    f = ctx.p.func(MHTML, "read_mhtml")
    rep.unit(f.key)
    calls = [c for c in calls_in(f) if any(g.module.rel == HTML and g.qual == "read_html" for g in resolve_call(ctx.p, f, c).funcs)]
    if not calls:
        rep.fail(Finding("C17-N5", MHTML, "read_mhtml", "read_html", "read_mhtml no longer delegates to read_html", line=f.node.lineno))
    else:
        rep.ok({"read_mhtml": "delegates to read_html"})
    # (a) in read_mhtml the bytes handed to read_html are the value returned by the MIME decoding helper, unchanged
    for c in calls:
        arg = c.args[0] if c.args else None
        src = _trace_unchanged(f, arg)
        if src is not None:
            rep.ok({"read_mhtml": f"read_html receives {src} unchanged"})
        else:
            rep.fail(Finding("C17-N5", MHTML, "read_mhtml", short(c), "the HTML part is transformed between MIME decoding and read_html (a rewrite that knows nothing of raw-text elements can delete end tags and visible text)", line=c.lineno))
    # (a') e-mail results: an HTML body becomes unit text only through the HTML-to-text conversion (an HTML-only message has no
    # text/plain part; its markup, style sheets, scripts and comments must not be the 'text')
    from sa.rules.common import DT as _DT

    iu = ctx.p.func(_DT, "EmailContent.iterate_units")
    rep.unit(iu.key)
    n_html = 0
    for c in ast.walk(iu.node):
        if isinstance(c, ast.Call) and (dotted(c.func) or "").split(".")[-1] == "EmailUnit":
            tv = next((k.value for k in c.keywords if k.arg == "text"), c.args[0] if c.args else None)
            if tv is None or not any(isinstance(x, ast.Attribute) and x.attr == "body_html" for x in ast.walk(tv)):
                continue
            n_html += 1
            conv = [x for x in ast.walk(tv) if isinstance(x, ast.Call) and any(g.module.rel == HTML for g in resolve_call(ctx.p, iu, x).funcs)]
            if conv:
                rep.ok({"EmailContent.iterate_units": f"body_html -> {short(conv[0], 40)}"})
            else:
                rep.fail(Finding("C17-N5", _DT, iu.qual, "raw body_html as unit text", f"`{short(c, 60)}` uses the HTML body as it stands as the text of the unit: for a message without a text/plain part get_full_text() is the markup, including style sheets, scripts and comments", line=c.lineno))
    if n_html == 0:
        rep.ok({"EmailContent.iterate_units": "never uses body_html as text"})
    # (a'') read_html: what is fed to the tree builder is the input, decoded -- never the result of a regular-expression substitution. A
    # pattern knows nothing of raw-text elements: '<!--' inside <script> or <style> is not a comment, and cutting from there to the next
    # '-->' removes the element's end tag together with the visible text behind it. (The copy that is only *sniffed* may be rewritten.)
    rh = ctx.p.func(HTML, "read_html")
    rep.unit(rh.key)
    feeds_h = [c for c in calls_in(rh) if isinstance(c.func, ast.Attribute) and c.func.attr == "feed" and c.args]
    if not feeds_h:
        raise AnalysisError("C17-N5: read_html no longer feeds the tree builder")
    # names the fed value is computed from (assignment closure, backwards)
    src = {x.id for x in ast.walk(feeds_h[0].args[0]) if isinstance(x, ast.Name)}
    changed = True
    while changed:
        changed = False
        for a in walk_own(rh.node):
            if isinstance(a, ast.Assign) and len(a.targets) == 1 and isinstance(a.targets[0], ast.Name) and a.targets[0].id in src:
                v = a.value
                # the data of `x.decode(enc)` / `x.encode(..).decode(..)` / `x[3:]` is x; the codec name is a parameter, not data
                while (isinstance(v, ast.Call) and isinstance(v.func, ast.Attribute) and v.func.attr in ("decode", "encode", "strip", "lstrip")) or isinstance(v, ast.Subscript):
                    v = v.func.value if isinstance(v, ast.Call) else v.value
                for x in ast.walk(v):
                    if isinstance(x, ast.Name) and x.id not in src:
                        src.add(x.id)
                        changed = True
    rewrites = []
    for a in walk_own(rh.node):
        if isinstance(a, ast.Assign) and len(a.targets) == 1 and isinstance(a.targets[0], ast.Name) and a.targets[0].id in src:
            for c in ast.walk(a.value):
                if isinstance(c, ast.Call) and ((isinstance(c.func, ast.Attribute) and c.func.attr in ("sub", "subn") and (dotted(c.func.value) == "re" or _is_regex_obj(ctx, ctx.p.module(HTML), c.func.value))) or dotted(c.func) in _PRE_TRANSFORMS):
                    rewrites.append((a, c))
    if rewrites:
        for a, c in rewrites:
            rep.fail(Finding("C17-N5", HTML, rh.qual, "markup rewritten before the parser: " + anorm(c, rh.node), f"`{short(a, 70)}` rewrites the page with a regular expression before it is parsed: a '<!--' inside <script> / <style> (raw text, no comment there) is cut through to the next '-->' or to the end of the input, the element's end tag goes with it and all visible text behind it is lost", line=a.lineno))
    else:
        rep.ok({"read_html": "the tree builder is fed the decoded input; regular expressions touch only the sniffed copy", "computed_from": sorted(src)})
    # (b) anywhere in the module a regex substitution may only prepare base64 text for decoding
    m = ctx.p.module(MHTML)
    for fi in m.functions.values():
        for c in calls_in(fi):
            d = dotted(c.func) or ""
            is_sub = d in _PRE_TRANSFORMS or (isinstance(c.func, ast.Attribute) and c.func.attr in ("sub", "subn") and _is_regex_obj(ctx, m, c.func.value))
            if not is_sub:
                continue
            if _feeds_only_b64decode(fi, c):
                rep.ok({"mhtml_regex_sub": short(c, 60), "role": "base64 whitespace removal before b64decode"})
            else:
                rep.fail(Finding("C17-N5", MHTML, fi.qual, short(c), "markup is rewritten by a regular expression before it reaches the parser; a pattern that knows nothing of raw-text elements can delete end tags and visible text", line=c.lineno))
    # MSG: the decision "this body is HTML" (PidTagHtml fragments come without <html>/<body>): the hint pattern, folded from the
    # source, is evaluated over the finite table of opening-tag forms of the elements whose content must not become text
    mm = ctx.p.module(MSG)
    lk = ctx.p.maybe_func(MSG, "_looks_like_html")
    if lk is None:
        raise AnalysisError("C17-N5: _looks_like_html vanished from the msg extractor")
    rx_names = [n.func.value.id for n in ast.walk(lk.node) if isinstance(n, ast.Call) and isinstance(n.func, ast.Attribute) and n.func.attr in ("search", "match") and isinstance(n.func.value, ast.Name) and _is_regex_obj(ctx, mm, n.func.value)]
    for rn in rx_names:
        node = mm.assigns[rn]
        pat = ctx.folder.fold(mm, node.args[0]) if node.args else None
        if not isinstance(pat, str):
            raise AnalysisError(f"C17-N5: {rn} is not a foldable str pattern")
        flags = 0
        for a in list(node.args[1:]) + [k.value for k in node.keywords if k.arg == "flags"]:
            for x in ast.walk(a):
                if isinstance(x, ast.Attribute) and isinstance(x.value, ast.Name) and x.value.id == "re":
                    flags |= int(getattr(re, x.attr, 0))
        try:
            rx = re.compile(pat, flags)
        except re.error as exc:
            rep.fail(Finding("C17-N5", MSG, rn, "pattern does not compile", str(exc), line=node.lineno))
            continue
        rep.unit(rn)
        for tag in HTML_HINT_TAGS:
            for form_name, form in HTML_TAG_FORMS:
                sample = "Hello " + form.format(t=tag) + "x"
                if rx.search(sample):
                    rep.ok({"pattern": rn, "tag": tag, "form": form_name})
                else:
                    rep.fail(Finding("C17-N5", MSG, rn, f"<{tag}> {form_name} not recognised", f"{rn} does not find {form.format(t=tag)!r} ({form_name}): an HTML body stored as a fragment (no <html>/<body> wrapper) is taken for plain text, so its markup, style sheets and comments become the extracted text", line=node.lineno))
    # the decision looks at the whole body: a window at the top misses a body that starts with a long comment, a run of inline tags
    # (<font>, <b>, <a>) or quoted plain text before its first block tag
    lk_params = {a.arg for a in lk.node.args.args}
    lk_defs = {a.targets[0].id: a.value for a in walk_own(lk.node) if isinstance(a, ast.Assign) and len(a.targets) == 1 and isinstance(a.targets[0], ast.Name)}

    def _windowed(e, depth=0):
        if depth > 4:
            return None
        for x in ast.walk(e):
            if isinstance(x, ast.Subscript) and isinstance(x.slice, ast.Slice) and x.slice.upper is not None:
                return x
            if isinstance(x, ast.Name) and x.id in lk_defs and x.id not in lk_params:
                w = _windowed(lk_defs[x.id], depth + 1)
                if w is not None:
                    return w
        return None

    subjects = [n.args[0] for n in ast.walk(lk.node) if isinstance(n, ast.Call) and isinstance(n.func, ast.Attribute) and n.func.attr in ("search", "match", "startswith") and n.args and not isinstance(n.args[0], ast.Constant)]
    subjects += [c.comparators[0] for c in ast.walk(lk.node) if isinstance(c, ast.Compare) and len(c.ops) == 1 and isinstance(c.ops[0], ast.In) and isinstance(c.left, ast.Constant)]
    win = next((w for sbj in subjects for w in [_windowed(sbj)] if w is not None), None)
    if win is not None:
        rep.fail(Finding("C17-N5", MSG, lk.qual, "HTML decided on a window of the body: " + anorm(win, lk.node), f"_looks_like_html looks only at `{short(win, 40)}`: a body whose first block tag comes later (a long leading comment, an introduction of <font> / <b> / <a> runs) is taken for plain text and its markup, scripts, styles and comments become the extracted text", line=win.lineno))
    else:
        rep.ok({"_looks_like_html": "decides on the whole body"})
    if not rx_names:
        rep.ok({"_looks_like_html": "no regular expression consulted"})
    # MSG: _html_to_text feeds _HtmlTreeBuilder
    g = ctx.p.func(MSG, "_html_to_text")
    rep.unit(g.key)
    # follow pure delegation: `return helper(<the same argument>)`
    for _hop in range(3):
        from sa.engine.loader import is_noise

        body = [st for st in g.node.body if not is_noise(st)]
        if len(body) == 1 and isinstance(body[0], ast.Return) and isinstance(body[0].value, ast.Call) and len(body[0].value.args) == 1 and isinstance(body[0].value.args[0], ast.Name) \
                and body[0].value.args[0].id in {a.arg for a in g.node.args.args}:
            tgt = resolve_call(ctx.p, g, body[0].value).funcs
            if len(tgt) == 1:
                g = tgt[0]
                rep.unit(g.key)
                continue
        break
    builds = [c for c in calls_in(g) if (lambda t: t.klass is not None and t.klass.name == "_HtmlTreeBuilder")(resolve_call(ctx.p, g, c))]
    feeds = [c for c in calls_in(g) if isinstance(c.func, ast.Attribute) and c.func.attr == "feed"]
    if builds and feeds:
        arg = feeds[0].args[0] if feeds[0].args else None
        params = [a.arg for a in g.node.args.args]
        if isinstance(arg, ast.Name) and arg.id in params:
            rep.ok({"msg": "_html_to_text feeds its argument to _HtmlTreeBuilder unchanged"})
        else:
            rep.fail(Finding("C17-N5", g.module.rel, g.qual, short(feeds[0]), "the HTML body is transformed before it is fed to the parser", line=feeds[0].lineno))
    else:
        rep.fail(Finding("C17-N5", g.module.rel, g.qual, "_HtmlTreeBuilder", "MSG HTML bodies no longer go through _HtmlTreeBuilder", line=g.node.lineno))
    return rep


def _trace_unchanged(fi, e, depth=0):
    """Follow `io.BytesIO(x)` / plain names back to the call that produced the value; None if anything else intervenes."""
    from sa.engine.callgraph import _local_assignments

    if depth > 4 or e is None:
        return None
    if isinstance(e, ast.Call) and (dotted(e.func) or "").split(".")[-1] == "BytesIO" and len(e.args) == 1:
        return _trace_unchanged(fi, e.args[0], depth + 1)
    if isinstance(e, ast.Name):
        assigns = _local_assignments(fi, e.id)
        if len(assigns) != 1 or assigns[0][1] is not None:
            return None
        return _trace_unchanged(fi, assigns[0][0], depth + 1)
    if isinstance(e, ast.Call) and isinstance(e.func, ast.Name) and e.func.id.startswith("_extract_from_mhtml"):
        return norm(e)
    return None


def _feeds_only_b64decode(fi, c: ast.Call) -> bool:
    # direct argument of base64.b64decode(...)
    for n in walk_own(fi.node):
        if isinstance(n, ast.Call) and (dotted(n.func) or "").endswith("b64decode") and any(a is c for a in n.args):
            return True
    # assigned to a name that is used only as the argument of b64decode
    for n in walk_own(fi.node):
        if isinstance(n, ast.Assign) and n.value is c and len(n.targets) == 1 and isinstance(n.targets[0], ast.Name):
            name = n.targets[0].id
            uses = [u for u in walk_own(fi.node) if isinstance(u, ast.Name) and u.id == name and isinstance(u.ctx, ast.Load)]
            ok_uses = 0
            for u in uses:
                for k in walk_own(fi.node):
                    if isinstance(k, ast.Call) and (dotted(k.func) or "").endswith("b64decode") and any(a is u for a in k.args):
                        ok_uses += 1
            return bool(uses) and ok_uses == len(uses)
    return False


def _is_regex_obj(ctx, m, e) -> bool:
    if isinstance(e, ast.Name):
        v = m.assigns.get(e.id)
        return isinstance(v, ast.Call) and dotted(v.func) == "re.compile"
    return False


def eof_sites(ctx: Ctx):
    """Every place where an html.parser subclass is fed: (rel, function, variable, close call or None, flush kind, feed call).

    flush kind: "guarded" = V.handle_data(<from V.rawdata>) under a test that the rest contains no '<'; "unguarded" = the same
    without that test; None = the buffer left by feed() is never delivered."""
    parsers = set()
    for m in ctx.p.modules.values():
        for c in m.classes.values():
            if any((dotted(b) or "").split(".")[-1] == "HTMLParser" for b in c.node.bases):
                parsers.add(c.name)
    if len(parsers) < 2:
        raise AnalysisError(f"C17-EOF: expected the two html.parser subclasses (HTML tree builder, EPUB text extractor), found {sorted(parsers)}")
    out = []
    for m in ctx.p.modules.values():
        if "/tests/" in m.rel:
            continue
        for fi in m.functions.values():
            insts = {n.targets[0].id for n in walk_own(fi.node) if isinstance(n, ast.Assign) and len(n.targets) == 1 and isinstance(n.targets[0], ast.Name) and isinstance(n.value, ast.Call) and (dotted(n.value.func) or "").split(".")[-1] in parsers}
            for V in sorted(insts):
                feeds = [c for c in calls_in(fi) if isinstance(c.func, ast.Attribute) and c.func.attr == "feed" and isinstance(c.func.value, ast.Name) and c.func.value.id == V]
                if not feeds:
                    continue
                close = next((c for c in calls_in(fi) if isinstance(c.func, ast.Attribute) and c.func.attr == "close" and isinstance(c.func.value, ast.Name) and c.func.value.id == V), None)
                rest = {n.targets[0].id for n in walk_own(fi.node) if isinstance(n, ast.Assign) and len(n.targets) == 1 and isinstance(n.targets[0], ast.Name) and any(isinstance(a, ast.Attribute) and a.attr == "rawdata" and isinstance(a.value, ast.Name) and a.value.id == V for a in ast.walk(n.value))}
                kind = None
                for c in calls_in(fi):
                    if isinstance(c.func, ast.Attribute) and c.func.attr == "handle_data" and isinstance(c.func.value, ast.Name) and c.func.value.id == V and c.args:
                        names = {x.id for x in ast.walk(c.args[0]) if isinstance(x, ast.Name)}
                        direct = any(isinstance(a, ast.Attribute) and a.attr == "rawdata" for a in ast.walk(c.args[0]))
                        if not (names & rest or direct):
                            continue
                        guarded = False
                        for i in walk_own(fi.node):
                            if isinstance(i, ast.If) and any(x is c for st in i.body for x in ast.walk(st)):
                                for t in ast.walk(i.test):
                                    if isinstance(t, ast.Compare) and len(t.ops) == 1 and isinstance(t.ops[0], ast.NotIn) and isinstance(t.left, ast.Constant) and t.left.value == "<":
                                        guarded = True
                        kind = "guarded" if guarded else "unguarded"
                out.append((m.rel, fi, V, close, kind, feeds[0]))
    return out


def rule_tree(ctx: Ctx) -> RuleReport:
    """A removed element changes the suppression state and nothing else: it never enters the tree / output and never becomes the
    node that following text is attached to (that text would share the element's fate)."""
    rep = RuleReport("C17-TREE", "in the start-tag handler the branch taken for removable elements writes only the suppression state (depth, name of the open removed element)")
    for cls in _parsers(ctx):
        hs, hd = cls.methods.get("handle_starttag"), cls.methods.get("handle_data")
        if hs is None or hd is None:
            raise AnalysisError(f"C17-TREE: {cls.name} lacks handle_starttag / handle_data")
        rep.unit(hs.key)
        guard = next((i for i in hd.node.body if isinstance(i, ast.If) and i.body and isinstance(i.body[-1], ast.Return)), None)
        if guard is None:
            raise AnalysisError(f"C17-TREE: {cls.name}.handle_data has no early return while suppressed")

        def self_attrs(e):
            return {a.attr for a in ast.walk(e) if isinstance(a, ast.Attribute) and isinstance(a.value, ast.Name) and a.value.id == "self"}

        skip_attrs = set(self_attrs(guard.test))
        gtxt = norm(guard.test)
        for mth in cls.methods.values():
            for i in walk_own(mth.node):
                if isinstance(i, ast.If) and norm(i.test) == gtxt:
                    for j in ast.walk(i):
                        if isinstance(j, ast.If):
                            skip_attrs |= self_attrs(j.test)
        branches = []
        for i in walk_own(hs.node):
            if isinstance(i, ast.If) and isinstance(i.test, ast.Compare) and len(i.test.ops) == 1 and isinstance(i.test.ops[0], ast.In):
                v = ctx.folder.fold(hs.module, i.test.comparators[0])
                if isinstance(v, (set, frozenset, tuple, list)) and {"script", "noscript", "iframe"} <= set(v):
                    branches.append(i)
        if not branches:
            raise AnalysisError(f"C17-TREE: {cls.name}.handle_starttag has no branch for the removable set")
        for br in branches:
            bad = None
            for st in br.body:
                for x in ast.walk(st):
                    if isinstance(x, (ast.Assign, ast.AugAssign, ast.AnnAssign)):
                        for t in (x.targets if isinstance(x, ast.Assign) else [x.target]):
                            for a in ast.walk(t):
                                if isinstance(a, ast.Attribute) and isinstance(a.value, ast.Name) and a.value.id == "self" and a.attr not in skip_attrs:
                                    bad = bad or x
                    elif isinstance(x, ast.Call) and isinstance(x.func, ast.Attribute) and x.func.attr in ("append", "extend", "insert", "pop", "update", "setdefault", "add", "remove", "clear") and self_attrs(x.func.value):
                        bad = bad or x
            if bad is None:
                rep.ok({"parser": cls.name, "removable_branch_writes": sorted(skip_attrs)})
            else:
                rep.fail(Finding("C17-TREE", cls.module.rel, hs.qual, "removable branch: " + norm(bad)[:100], f"the branch of handle_starttag taken for removed elements does `{short(bad, 70)}`: a removed element enters the tree / becomes the node following text is attached to, so visible text after it shares its fate (dropped with the element) or its content reaches the output", line=bad.lineno))
    return rep


def rule_fresh(ctx: Ctx) -> RuleReport:
    """Suppression state must not survive from one document to the next: every feed() goes to a parser created for that document,
    or to one whose reset() re-initialises everything the handlers write."""
    rep = RuleReport("C17-FRESH", "every html.parser subclass instance that is fed was created in the same call (fresh suppression state per document), or is reset by a reset() that re-initialises every attribute its handlers write")
    parsers = {}
    for m in ctx.p.modules.values():
        for c in m.classes.values():
            if any((dotted(b) or "").split(".")[-1] == "HTMLParser" for b in c.node.bases):
                parsers[c.name] = c
    n = 0
    for m in ctx.p.modules.values():
        if "/tests/" in m.rel:
            continue
        for fi in m.functions.values():
            feeds = [c for c in calls_in(fi) if isinstance(c.func, ast.Attribute) and c.func.attr == "feed" and isinstance(c.func.value, ast.Name)]
            if not feeds:
                continue
            fresh = {n_.targets[0].id for n_ in walk_own(fi.node) if isinstance(n_, ast.Assign) and len(n_.targets) == 1 and isinstance(n_.targets[0], ast.Name) and isinstance(n_.value, ast.Call) and (dotted(n_.value.func) or "").split(".")[-1] in parsers}
            for c in feeds:
                V = c.func.value.id
                n += 1
                rep.unit(fi.key)
                if V in fresh:
                    rep.ok({"site": f"{fi.qual}: {V}.feed(...)", "instance": "created in this call"})
                    continue
                # shared instance: which class? every parser class is a candidate; the weakest reset decides
                resets = [x for x in calls_in(fi) if isinstance(x.func, ast.Attribute) and x.func.attr == "reset" and isinstance(x.func.value, ast.Name) and x.func.value.id == V]
                problems = []
                for cname, ci in parsers.items():
                    written = set()
                    for mname, mth in ci.methods.items():
                        if mname.startswith("handle_") or mname in ("unknown_decl",):
                            for a in ast.walk(mth.node):
                                if isinstance(a, (ast.Assign, ast.AugAssign)):
                                    for t in (a.targets if isinstance(a, ast.Assign) else [a.target]):
                                        if isinstance(t, ast.Attribute) and isinstance(t.value, ast.Name) and t.value.id == "self":
                                            written.add(t.attr)
                    rs = ci.methods.get("reset")
                    reinit = {t.attr for a in ast.walk(rs.node) if isinstance(a, (ast.Assign, ast.AnnAssign)) for t in (a.targets if isinstance(a, ast.Assign) else [a.target]) if isinstance(t, ast.Attribute) and isinstance(t.value, ast.Name) and t.value.id == "self"} if rs else set()
                    scalar_state = {w for w in written if w not in reinit}
                    if rs is not None and resets and not scalar_state:
                        problems = []
                        break
                    problems.append((cname, sorted(scalar_state)))
                if problems:
                    cname, left = problems[0]
                    rep.fail(Finding("C17-FRESH", m.rel, fi.qual, f"{V}.feed on a shared parser", f"`{short(c, 40)}` feeds a parser instance that was not created in this call" + (f" and whose reset() leaves {', '.join(left[:6])} as the previous document left them" if resets else " and is never reset") + ": a document that ends inside an unclosed removed element (<noscript>, <iframe>) leaves the suppression depth raised, and every following document extracts as empty text", line=c.lineno))
                else:
                    rep.ok({"site": f"{fi.qual}: {V}.feed(...)", "instance": "shared, fully reset"})
    if n < 3:
        raise AnalysisError(f"C17-FRESH: only {n} feed() sites found (3 confirmed)")
    return rep


def rule_eof(ctx: Ctx) -> RuleReport:
    """What html.parser still buffers at end of input: unterminated markup (comment, tag, script) must not become text."""
    rep = RuleReport("C17-EOF", "end of input: close() is never called on the html.parser subclasses (it hands unterminated comments/markup to handle_data as text); "
                     "the rest of the buffer is delivered only when it contains no '<'")
    sites = eof_sites(ctx)
    shared = [1 for m in ctx.p.modules.values() if "/tests/" not in m.rel for fi in m.functions.values() for c in calls_in(fi)
              if isinstance(c.func, ast.Attribute) and c.func.attr == "feed" and isinstance(c.func.value, ast.Name)]
    if len(sites) < 3 and len(shared) < 3:
        raise AnalysisError(f"C17-EOF: only {len(sites)} feed() sites found (3 confirmed: read_html, msg _html_to_text, EPUB chapter)")
    for rel, fi, V, close, kind, feed in sites:
        rep.unit(fi.key)
        if close is not None:
            rep.fail(Finding("C17-EOF", rel, fi.qual, f"{V}.close()", f"`{short(close, 40)}` is called on an html.parser subclass: at end of input html.parser treats a comment (or conditional comment, declaration, tag) that is not terminated as character data and passes `<!-- ...` to handle_data, so comment content appears in the text", line=close.lineno))
        elif kind == "unguarded":
            rep.fail(Finding("C17-EOF", rel, fi.qual, f"{V}.handle_data(rawdata) unguarded", "the parser's remaining buffer is delivered as text without checking that it holds no '<': an unterminated comment or script at end of input becomes text", line=feed.lineno))
        else:
            rep.ok({"site": f"{fi.qual}: {V}.feed(...)", "close": "not called", "rest": kind or "not delivered"})
    return rep


# names html.parser / _markupbase use for the tokenizer itself (CPython 3.8 - 3.13): everything but the handle_* callbacks
_TOKENIZER = {"CDATA_CONTENT_ELEMENTS", "RCDATA_CONTENT_ELEMENTS", "feed", "close", "get_starttag_text", "set_cdata_mode", "clear_cdata_mode", "goahead", "parse_html_declaration", "parse_bogus_comment",
              "parse_pi", "parse_starttag", "check_for_whole_start_tag", "parse_endtag", "parse_declaration", "parse_marked_section", "parse_comment", "updatepos", "getpos",
              "_parse_doctype_subset", "_parse_doctype_element", "_parse_doctype_attlist", "_parse_doctype_notation", "_parse_doctype_entity", "_scan_name", "_decl_otherchars",
              "cdata_elem", "interesting", "lasttag", "rawdata", "convert_charrefs", "_support_cdata", "_escapable"}


def rule_tok(ctx: Ctx) -> RuleReport:
    """C17-SKIP explores the callbacks against the tokenizer of the standard library as it is: every start and end tag inside a removed
    element is reported (only script and style are raw text), which is what the nesting counter counts. A subclass that reconfigures the
    tokenizer (raw-text elements, cdata mode, its own parse_* methods) leaves that model: in raw-text mode the element ends at the first
    '</name' -- inside a comment or of a nested element of the same name -- and the rest of its content is visible text."""
    rep = RuleReport("C17-TOK", "the HTMLParser subclasses override callbacks only: no tokenizer attribute or method of html.parser is redefined, assigned or called to switch modes")
    for cls in _parsers(ctx):
        rep.unit(cls.module.rel + "::" + cls.name)
        bad = []
        for st in cls.node.body:
            names = []
            if isinstance(st, (ast.FunctionDef, ast.AsyncFunctionDef)):
                names = [st.name]
            elif isinstance(st, ast.Assign):
                names = [t.id for t in st.targets if isinstance(t, ast.Name)]
            elif isinstance(st, ast.AnnAssign) and isinstance(st.target, ast.Name):
                names = [st.target.id]
            for nme in names:
                if nme in _TOKENIZER:
                    bad.append((st, f"class attribute {nme} redefined"))
        for mth in cls.methods.values():
            for x in ast.walk(mth.node):
                if isinstance(x, ast.Attribute) and isinstance(x.value, ast.Name) and x.value.id == "self" and x.attr in _TOKENIZER:
                    if isinstance(x.ctx, (ast.Store, ast.Del)) and x.attr != "rawdata":
                        bad.append((x, f"self.{x.attr} assigned in {mth.name}"))
                if isinstance(x, ast.Call) and isinstance(x.func, ast.Attribute) and isinstance(x.func.value, ast.Name) and x.func.value.id == "self" and x.func.attr in ("set_cdata_mode", "clear_cdata_mode"):
                    bad.append((x, f"self.{x.func.attr}() called in {mth.name}"))
        if bad:
            for node, what in bad:
                rep.fail(Finding("C17-TOK", cls.module.rel, cls.name, what, f"{cls.name}: {what} (`{short(node, 60)}`): the tokenizer no longer reports the tags inside those elements, so the nesting counter of the removal logic stays at 1 and the element ends at the first '</name' it contains: `<object><object>a</object>FALLBACK</object>` and `<noscript><!-- </noscript> -->HIDDEN</noscript>` put FALLBACK / HIDDEN into the text", line=node.lineno))
        else:
            rep.ok({"parser": cls.name, "overrides": sorted(m for m in cls.methods)})
    return rep


def rule_guard(ctx: Ctx) -> RuleReport:
    """While a removed element is open nothing is emitted: in every callback the test of the suppression state comes before the first
    statement that writes parser state (output, tree, flags)."""
    rep = RuleReport("C17-GUARD", "in every handle_* callback that writes parser state, the early return while suppressed precedes the first write")
    n = 0
    for cls in _parsers(ctx):
        hd = cls.methods.get("handle_data")
        if hd is None:
            raise AnalysisError(f"C17-GUARD: {cls.name} lacks handle_data")
        guard = next((i for i in hd.node.body if isinstance(i, ast.If) and i.body and isinstance(i.body[-1], ast.Return)), None)
        if guard is None:
            raise AnalysisError(f"C17-GUARD: {cls.name}.handle_data has no early return while suppressed")
        skip_attrs = {a.attr for a in ast.walk(guard.test) if isinstance(a, ast.Attribute) and isinstance(a.value, ast.Name) and a.value.id == "self"}

        def writes(st):
            for x in ast.walk(st):
                if isinstance(x, ast.Attribute) and isinstance(x.ctx, ast.Store) and isinstance(x.value, ast.Name) and x.value.id == "self":
                    return x
                if isinstance(x, ast.Call) and isinstance(x.func, ast.Attribute) and x.func.attr in ("append", "extend", "insert", "pop", "update", "setdefault", "add", "remove", "clear", "write") \
                        and any(isinstance(y, ast.Attribute) and isinstance(y.value, ast.Name) and y.value.id == "self" for y in ast.walk(x.func.value)):
                    return x
                if isinstance(x, ast.Call) and isinstance(x.func, ast.Attribute) and isinstance(x.func.value, ast.Name) and x.func.value.id == "self" and x.func.attr in cls.methods and not x.func.attr.startswith("handle_") \
                        and any(isinstance(y, ast.Attribute) and isinstance(y.ctx, ast.Store) for y in ast.walk(cls.methods[x.func.attr].node)):
                    return x
                if isinstance(x, ast.Subscript) and isinstance(x.ctx, ast.Store) and any(isinstance(y, ast.Attribute) and isinstance(y.value, ast.Name) and y.value.id == "self" for y in ast.walk(x.value)):
                    return x
            return None

        for name, mth in sorted(cls.methods.items()):
            if not name.startswith("handle_") and name != "unknown_decl":
                continue
            body = mth.node.body
            if not any(writes(st) for st in body):
                continue
            n += 1
            rep.unit(mth.key)
            # delegation: handle_startendtag that only calls the guarded callbacks
            first_write = next((i for i, st in enumerate(body) if writes(st)), None)
            gi = next((i for i, st in enumerate(body) if isinstance(st, ast.If) and st.body and isinstance(st.body[-1], ast.Return) and not st.orelse
                       and {a.attr for a in ast.walk(st.test) if isinstance(a, ast.Attribute) and isinstance(a.value, ast.Name) and a.value.id == "self"} & skip_attrs), None)
            if gi is not None and gi <= first_write:
                # the guard statement itself may write the suppression state (depth bookkeeping) -- that is C17-TREE / C17-SKIP's matter
                rep.ok({"callback": mth.qual, "guard": short(body[gi].test, 40), "statements_before": gi})
            else:
                w = writes(body[first_write])
                rep.fail(Finding("C17-GUARD", cls.module.rel, mth.qual, "state written before the suppression test: " + norm(w)[:80], f"`{short(w, 60)}` in {mth.qual} runs before (or without) the `{short(guard.test, 30)}` test: it also runs for tags and text inside a removed element, so content of <noscript> / <object> / <iframe> (the alt text of the tracking pixel in <noscript><img alt=...></noscript>) reaches the text", line=w.lineno))
    if n < 5:
        raise AnalysisError(f"C17-GUARD: only {n} state-writing callbacks found (6 confirmed)")
    return rep


RULES = [rule_skip, rule_n4, rule_n5, rule_tree, rule_fresh, rule_eof, rule_tok, rule_guard]
