"""C12 — extraction cost is bounded by input size; explicit limits hold."""
from __future__ import annotations

import ast

from sa.engine.callgraph import calls_in, resolve_call
from sa.engine.cfg import normally_dominates
from sa.engine.consts import UNKNOWN
from sa.engine.context import Ctx
from sa.engine.guards import path_conditions
from sa.engine.loader import anorm, local_names, AnalysisError, dotted, norm, short, walk_own
from sa.engine.report import Finding, RuleReport
from sa.rules.common import with_constants, INIT, X, raised_class

ARCH = X + "archive_extractor.py"
SZ = X + "util/sevenzip.py"

EXPLANATION = (
    "Peak memory and run time as multiples of the input size are runtime quantities and are not decided. Decided: (LIMIT) the "
    "explicit limits: read_file compares the size of the file it is about to open (stat, not lstat) with max_file_size under "
    "`max_file_size > 0`, strictly, and raises the too-large error before open(); the 7z reader refuses an archive above "
    "MAX_7Z_FILE_SIZE (100 MiB) before SevenZipFile is constructed; in the ZIP and TAR loops the per-member size test "
    "against the configured limit dominates the read of that member (and, for TAR, only regular members are read, so the "
    "size tested is the size read); for 7z the extraction call must be restricted by the size-filtered work list. (AMP) "
    "taint analysis from *declared* counts (integers parsed from attributes or binary headers) to allocations that consume "
    "no input (sequence repetition `x * n`, bytes(n)); a sink must be bounded by min(n, CONST), a dominating constant upper "
    "bound or a finite small interval. (DECOMP) every LZMA/zlib/bz2 `decompress` call in repository code passes a "
    "max_length. (XML) every XML parse call resolves to defusedxml; xml.etree is imported for types and tree walking only."
    ' (COST) no re-slicing of a bytes-like front inside a loop (quadratic copying; a memoryview is exempt); the member table ZipContext consults with `in` is a set / frozenset / dict.'
)
NOT_DECIDED = ["peak memory / run time multiples (runtime quantities)", "allocation loops inside third-party parsers (olefile.get_metadata, pypdf object loops, openpyxl dimensions)",
               "cost of deep recursion on deeply nested XML/HTML/RTF", "range(n) loops whose body consumes input on every iteration (listed as residual)"]
TRUSTED = ["defusedxml forbids entity expansion / DTD retrieval", "LZMADecompressor.decompress(data, max_length) returns at most max_length bytes",
           "Path.stat() follows symbolic links and reports the size of the object open() reads"]
FLOORS = {"C12-REGEX": 1, "C12-EMPTY": 6, "C12-LIMIT": 10, "C12-AMP": 6, "C12-DECOMP": 2, "C12-XML": 2, "C12-COST": 2}


# ----------------------------------------------------------------------------------------------- LIMIT
def rule_limit(ctx: Ctx) -> RuleReport:
    rep = RuleReport("C12-LIMIT", "explicit size limits are tested on the right quantity, strictly, before the data is opened / read / unpacked")
    rf = ctx.p.func(INIT, "read_file")
    rep.unit(rf.key)
    cfg = ctx.cfg(rf)
    # default
    d = None
    for a, dv in zip(reversed(rf.node.args.args), reversed(rf.node.args.defaults)):
        if a.arg == "max_file_size":
            d = ctx.folder.fold(rf.module, dv)
    if d == 100 * 1024 * 1024:
        rep.ok({"read_file.max_file_size default": d})
    else:
        rep.fail(Finding("C12-LIMIT", INIT, "read_file", f"max_file_size={d}", "default max_file_size is not 100 MiB as documented", line=rf.node.lineno))
    raises = [r for r in walk_own(rf.node) if isinstance(r, ast.Raise) and raised_class(r) == "ExtractionFileTooLargeError"]
    if len(raises) != 1:
        rep.fail(Finding("C12-LIMIT", INIT, "read_file", "ExtractionFileTooLargeError", "read_file no longer raises the too-large error exactly once", line=rf.node.lineno))
    else:
        conds, opaque, _ = path_conditions(rf.node, raises[0])
        cs = {str(c) for c in conds}
        import re as _re
        szv = next((m.group(1) for c_ in cs for m in [_re.fullmatch(r"(\w+) > max_file_size", c_)] if m), None)
        if szv is not None and cs == {"max_file_size > 0", f"{szv} > max_file_size"} and not opaque:
            rep.ok({"read_file": "raise iff max_file_size > 0 and file_size > max_file_size"})
        else:
            rep.fail(Finding("C12-LIMIT", INIT, "read_file", " and ".join(sorted(cs) + opaque), f"the too-large test is `{' and '.join(sorted(cs) + opaque)}`; documented: max_file_size > 0 and file_size > max_file_size (0 disables, limit inclusive)", line=raises[0].lineno))
        fs = [n for n in walk_own(rf.node) if isinstance(n, ast.Assign) and norm(n.targets[0]) == (szv or "file_size")]
        if len(fs) == 1 and norm(fs[0].value) == "path.stat().st_size":
            rep.ok({"read_file": "file_size = path.stat().st_size"})
        else:
            rep.fail(Finding("C12-LIMIT", INIT, "read_file", norm(fs[0].value) if fs else "?", "the size that is compared with the limit is not the size of the file that open() will read (must be path.stat().st_size: stat follows links like open does)", line=fs[0].lineno if fs else rf.node.lineno))
        opens = [c for c in calls_in(rf) if dotted(c.func) == "open"]
        tests = [n for n in walk_own(rf.node) if isinstance(n, ast.If) and norm(n.test) == "max_file_size > 0"]
        if opens and tests and all(all(normally_dominates(cfg, cfg.evaluators(tests[0].test), b) for b in cfg.evaluators(o)) for o in opens):
            rep.ok({"read_file": "size test dominates open()"})
        else:
            rep.fail(Finding("C12-LIMIT", INIT, "read_file", "open(path, 'rb')", "the file is opened on a path that bypasses the size test", line=rf.node.lineno))
        # the object that is opened is the object that was measured
        for o in opens:
            if o.args and norm(o.args[0]) == "path":
                rep.ok()
            else:
                rep.fail(Finding("C12-LIMIT", INIT, "read_file", short(o), "open() reads a different path than the one that was measured", line=o.lineno))
    # 7z archive size
    s7 = ctx.p.func(ARCH, "_extract_from_7z_optimized")
    rep.unit(s7.key)
    cfg7 = ctx.cfg(s7)
    v = ctx.const(ARCH, "MAX_7Z_FILE_SIZE")
    if v == 100 * 1024 * 1024:
        rep.ok({"MAX_7Z_FILE_SIZE": v})
    else:
        rep.fail(Finding("C12-LIMIT", ARCH, "MAX_7Z_FILE_SIZE", repr(v), "the 7z archive limit is not 100 MB as documented"))
    r7 = [r for r in walk_own(s7.node) if isinstance(r, ast.Raise) and raised_class(r) == "ExtractionFileTooLargeError"]
    opens7 = [c for c in calls_in(s7) if (dotted(c.func) or "").endswith("SevenZipFile")]
    if len(r7) == 1:
        conds, opaque, _ = path_conditions(s7.node, r7[0])
        cs = {str(c) for c in conds}
        import re as _re
        asz = next((m.group(1) for c_ in cs for m in [_re.fullmatch(r"(\w+) > MAX_7Z_FILE_SIZE", c_)] if m), None)
        if asz is not None and cs == {f"{asz} > MAX_7Z_FILE_SIZE"} and not opaque:
            rep.ok({"7z": "raise iff archive_size > MAX_7Z_FILE_SIZE"})
        else:
            rep.fail(Finding("C12-LIMIT", ARCH, s7.qual, " and ".join(sorted(cs) + opaque), "7z size test is not `archive_size > MAX_7Z_FILE_SIZE`", line=r7[0].lineno))
        guard_if = [n for n in walk_own(s7.node) if isinstance(n, ast.If) and r7[0] in n.body]
        if guard_if and opens7 and all(all(normally_dominates(cfg7, cfg7.evaluators(guard_if[0].test), b) for b in cfg7.evaluators(o)) for o in opens7):
            rep.ok({"7z": "size test dominates SevenZipFile(...)"})
        else:
            rep.fail(Finding("C12-LIMIT", ARCH, s7.qual, "SevenZipFile(file_like, 'r')", "the 7z archive is opened before / without the 100 MB test", line=s7.node.lineno))
        sz = [n for n in s7.node.body if isinstance(n, ast.Assign) and norm(n.targets[0]) == (asz or "archive_size")]
        # through plain copies (`size = file_like.tell(); ...; archive_size = size`) back to the statement that measures
        hops = 0
        while sz and isinstance(sz[0].value, ast.Name) and hops < 4:
            prev = [n for n in s7.node.body if isinstance(n, ast.Assign) and len(n.targets) == 1 and norm(n.targets[0]) == sz[0].value.id]
            if len(prev) != 1:
                break
            sz, hops = prev, hops + 1
        seq = [norm(s) for s in s7.node.body[:8]]
        if sz and norm(sz[0].value) == "file_like.tell()" and "file_like.seek(0, os.SEEK_END)" in seq and seq.index("file_like.seek(0, os.SEEK_END)") < seq.index(norm(sz[0])):
            rep.ok({"7z": "archive_size = position after seek to the end"})
        else:
            rep.fail(Finding("C12-LIMIT", ARCH, s7.qual, norm(sz[0]) if sz else "archive_size", "archive_size is not measured as tell() after seek(0, SEEK_END)", line=s7.node.lineno))
    else:
        rep.fail(Finding("C12-LIMIT", ARCH, s7.qual, "ExtractionFileTooLargeError", "the 7z size limit is no longer enforced", line=s7.node.lineno))
    # per-member limits dominate the read
    for fnq, readattr, sattr in (("_extract_from_zip_optimized", "read", "file_size"), ("_extract_from_tar_optimized", "extractfile", "size")):
        f = ctx.p.func(ARCH, fnq)
        rep.unit(f.key)
        rcs = [c for c in calls_in(f) if isinstance(c.func, ast.Attribute) and c.func.attr == readattr and isinstance(c.func.value, ast.Name) and c.args and isinstance(c.args[0], ast.Name)]
        if not rcs:
            raise AnalysisError(f"C12-LIMIT: <archive>.{readattr}(<member>) call vanished from {fnq}")
        for c in rcs:
            readcall = norm(c.func)
            sizeattr = f"{c.args[0].id}.{sattr}"
            conds, opaque, _ = path_conditions(f.node, c, terminals=("continue", "return", "break"))
            cs = {str(x) for x in conds}
            if f"_config.max_memory_size >= {sizeattr}" in cs:
                rep.ok({fnq: f"`{readcall}` only when {sizeattr} <= _config.max_memory_size"})
            else:
                rep.fail(Finding("C12-LIMIT", ARCH, fnq, short(c), f"`{readcall}` is reachable without the per-member size test on {sizeattr} (guards: {sorted(cs)})", line=c.lineno))
            arg = norm(c.args[0]) if c.args else "?"
            if not sizeattr.startswith(arg + "."):
                rep.fail(Finding("C12-LIMIT", ARCH, fnq, short(c), f"the member that is read (`{arg}`) is not the member whose size was tested (`{sizeattr}`)", line=c.lineno))
            if readattr == "extractfile":
                if f"{c.args[0].id}.isreg()" in cs and not any("isreg" in o or "islnk" in o for o in opaque):
                    rep.ok({fnq: "only regular members are read (size tested = size read)"})
                else:
                    rep.fail(Finding("C12-LIMIT", ARCH, fnq, short(c), "link members are read: tarfile follows the link, so the bytes read belong to another member than the one whose (zero) size was tested", line=c.lineno))
    # 7z: extraction must be restricted to the filtered work list
    ex = [c for c in calls_in(s7) if isinstance(c.func, ast.Attribute) and c.func.attr == "extractall"]
    for c in ex:
        names = {n.id for a in list(c.args) + [k.value for k in c.keywords] for n in ast.walk(a) if isinstance(n, ast.Name)}
        work = {x.func.value.id for x in calls_in(s7) if isinstance(x.func, ast.Attribute) and x.func.attr == "append" and isinstance(x.func.value, ast.Name) and x.args and isinstance(x.args[0], ast.Tuple)}
        if names & work or any(k.arg in ("targets", "members", "names") for k in c.keywords):
            rep.ok({"7z": "extractall restricted to the filtered members"})
        else:
            rep.fail(Finding("C12-LIMIT", ARCH, s7.qual, anorm(c, s7.node), "extractall() decompresses and writes every member; the per-member size filter only decides which files are read back, so oversize members are still unpacked to disk", line=c.lineno))
    pe = ctx.p.func(ARCH, "_process_archive_entry")
    tests = [norm(n.test) for n in walk_own(pe.node) if isinstance(n, ast.If) and "MAX_ARCHIVE_FILE_SIZE" in norm(n.test)]
    if tests == ["len(file_data) > MAX_ARCHIVE_FILE_SIZE"]:
        rep.ok({"_process_archive_entry": tests[0]})
    else:
        rep.fail(Finding("C12-LIMIT", ARCH, pe.qual, "; ".join(tests), "per-entry MAX_ARCHIVE_FILE_SIZE test changed", line=pe.node.lineno))
    return rep


# ----------------------------------------------------------------------------------------------- AMP
COUNT_READERS = {"_read_number", "_read_uint8", "_read_uint32", "_read_uint64"}


class _Counts:
    """Names holding *declared* counts (parsed from attributes / binary headers), per function, with parameter propagation."""

    def __init__(self, ctx: Ctx):
        self.ctx = ctx
        self.funcs = list(ctx.p.all_functions())
        self.decl: dict[str, set[str]] = {f.key: set() for f in self.funcs}
        self._run()

    def is_count(self, fi, e, depth=0) -> bool:
        if e is None or depth > 8:
            return False
        if isinstance(e, ast.Name):
            f = fi
            while f is not None:
                if e.id in self.decl.get(f.key, ()):
                    return True
                f = f.parent
            return False
        if isinstance(e, ast.Call):
            d = dotted(e.func) or ""
            last = d.split(".")[-1]
            if d == "int" and e.args:
                a = e.args[0]
                if isinstance(a, ast.Call) and isinstance(a.func, ast.Attribute) and a.func.attr == "get":
                    return True
                if isinstance(a, ast.Name):
                    # raw = elem.get(...); int(raw)
                    return self._is_attr_text(fi, a.id)
                return self.is_count(fi, a, depth + 1)
            if d == "int.from_bytes" or last in COUNT_READERS:
                return True
            if d in ("min",):
                return False  # bounded by construction when one operand is constant; checked at the sink
            if d in ("max", "abs") and e.args:
                return any(self.is_count(fi, a, depth + 1) for a in e.args)
            return False
        if isinstance(e, ast.Subscript):
            v = e.value
            if isinstance(v, ast.Call) and ((dotted(v.func) or "").startswith("struct.unpack") or (isinstance(v.func, ast.Attribute) and v.func.attr in ("unpack", "unpack_from"))):
                return True
            return False
        if isinstance(e, ast.BinOp):
            if isinstance(e.op, (ast.BitAnd, ast.Mod)):
                return False  # masked / reduced: finite interval
            return self.is_count(fi, e.left, depth + 1) or self.is_count(fi, e.right, depth + 1)
        if isinstance(e, ast.IfExp):
            return self.is_count(fi, e.body, depth + 1) or self.is_count(fi, e.orelse, depth + 1)
        return False

    def _is_attr_text(self, fi, name) -> bool:
        for n in walk_own(fi.node):
            if isinstance(n, ast.Assign) and len(n.targets) == 1 and isinstance(n.targets[0], ast.Name) and n.targets[0].id == name:
                v = n.value
                if isinstance(v, ast.Call) and isinstance(v.func, ast.Attribute) and v.func.attr == "get":
                    return True
        return False

    def _run(self):
        changed = True
        rounds = 0
        while changed and rounds < 20:
            changed = False
            rounds += 1
            for fi in self.funcs:
                for n in walk_own(fi.node):
                    if isinstance(n, ast.Assign) and len(n.targets) == 1:
                        t = n.targets[0]
                        if isinstance(t, ast.Name) and self.is_count(fi, n.value) and t.id not in self.decl[fi.key]:
                            self.decl[fi.key].add(t.id)
                            changed = True
                        if isinstance(t, ast.Tuple) and isinstance(n.value, ast.Call) and ((dotted(n.value.func) or "").startswith("struct.unpack") or (isinstance(n.value.func, ast.Attribute) and n.value.func.attr in ("unpack", "unpack_from"))):
                            for el in t.elts:
                                if isinstance(el, ast.Name) and el.id not in self.decl[fi.key]:
                                    self.decl[fi.key].add(el.id)
                                    changed = True
                    if isinstance(n, ast.Call):
                        t = resolve_call(self.ctx.p, fi, n)
                        for g in t.funcs:
                            if g.module is not fi.module:
                                continue
                            params = [a.arg for a in g.node.args.args]
                            off = 1 if params and params[0] in ("self", "cls") and isinstance(n.func, ast.Attribute) else 0
                            for i, a in enumerate(n.args):
                                if i + off < len(params) and self.is_count(fi, a) and params[i + off] not in self.decl[g.key]:
                                    self.decl[g.key].add(params[i + off])
                                    changed = True


def _is_seq_literal(e) -> bool:
    if isinstance(e, (ast.List, ast.Tuple)):
        return True
    if isinstance(e, ast.Constant) and isinstance(e.value, (str, bytes)):
        return True
    if isinstance(e, ast.Call) and (dotted(e.func) or "") in ("bytes", "list", "tuple") and e.args:
        return True
    return False


def rule_amp(ctx: Ctx) -> RuleReport:
    rep = RuleReport("C12-AMP", "allocations sized by a count declared in the input are bounded")
    cn = _Counts(ctx)
    n_src = sum(len(v) for v in cn.decl.values())
    if n_src < 10:
        raise AnalysisError(f"C12-AMP: only {n_src} declared-count variables recognised (source recogniser broken)")
    for fi in cn.funcs:
        for n in walk_own(fi.node):
            count_expr = None
            what = None
            if isinstance(n, ast.BinOp) and isinstance(n.op, ast.Mult):
                for seq, cnt in ((n.left, n.right), (n.right, n.left)):
                    seq_like = _is_seq_literal(seq) or (isinstance(seq, ast.Name) and _holds_sequence(fi, seq.id))
                    if seq_like and cn.is_count(fi, cnt):
                        count_expr, what = cnt, norm(n)
                        what_key = anorm(n, fi.node)
            elif isinstance(n, ast.Call) and (dotted(n.func) or "") in ("bytes", "bytearray") and len(n.args) == 1 and cn.is_count(fi, n.args[0]):
                count_expr, what = n.args[0], norm(n)
                what_key = anorm(n, fi.node)
            if count_expr is None:
                continue
            rep.unit(fi.key)
            conds, opaque, _ = path_conditions(fi.node, _stmt_of(fi.node, n))
            cname = norm(count_expr)
            bounded = None
            for c in conds:
                s = str(c)
                # CONST >= n   or  CONST > n
                if c.op in (">=", ">") and c.rhs == cname and (_is_const(ctx, fi, c.lhs) or _is_measured_length(c.lhs)):
                    bounded = s
            if isinstance(count_expr, ast.Call) and dotted(count_expr.func) == "min" and any(_is_const(ctx, fi, norm(a)) for a in count_expr.args):
                bounded = norm(count_expr)
            if bounded:
                rep.ok({"site": f"{fi.qual}: {what[:60]}", "bounded_by": bounded})
            else:
                rep.fail(Finding("C12-AMP", fi.module.rel, fi.qual, what_key[:140], f"`{what[:80]}` allocates `{cname}` items where `{cname}` is a count declared inside the input and nothing bounds it (guards: {[str(c) for c in conds] + opaque}): a few bytes of input buy an arbitrarily large allocation", line=n.lineno))
    return rep


def _is_measured_length(text: str) -> bool:
    """An upper bound that is itself bounded by the size of the input: len(...) or the bytes left in the stream."""
    return text.startswith("len(") or text.endswith("._remaining()") or text == "_remaining()"


def _holds_sequence(fi, name) -> bool:
    for n in walk_own(fi.node):
        if isinstance(n, (ast.Assign, ast.AnnAssign)):
            tg = n.targets if isinstance(n, ast.Assign) else [n.target]
            if any(isinstance(t, ast.Name) and t.id == name for t in tg) and isinstance(getattr(n, "value", None), (ast.List, ast.ListComp, ast.Tuple)):
                return True
    return False


def _stmt_of(fn, node):
    best = None
    for st in ast.walk(fn):
        if isinstance(st, ast.stmt) and not isinstance(st, (ast.FunctionDef, ast.AsyncFunctionDef, ast.ClassDef)):
            if any(x is node for x in ast.walk(st)):
                if best is None or any(x is st for x in ast.walk(best)):
                    best = st
    return best


def _is_const(ctx, fi, text: str) -> bool:
    try:
        e = ast.parse(text, mode="eval").body
    except SyntaxError:
        return False
    v = ctx.folder.fold(fi.module, e)
    return isinstance(v, (int, float)) and not isinstance(v, bool)


# ----------------------------------------------------------------------------------------------- DECOMP / XML
def rule_decomp(ctx: Ctx) -> RuleReport:
    rep = RuleReport("C12-DECOMP", "decompressor objects are never asked for unbounded output")
    n = 0
    for fi in ctx.p.all_functions():
        for c in calls_in(fi):
            if isinstance(c.func, ast.Attribute) and c.func.attr == "decompress":
                recv = c.func.value
                d = dotted(recv) or norm(recv)
                one_shot_module = d in ("zlib", "bz2", "lzma", "gzip")
                n += 1
                rep.unit(fi.key)
                if one_shot_module:
                    rep.fail(Finding("C12-DECOMP", fi.module.rel, fi.qual, short(c), f"`{d}.decompress(data)` inflates the whole stream at once with no output limit", line=c.lineno))
                elif len(c.args) >= 2 or any(k.arg == "max_length" for k in c.keywords):
                    ml = c.args[1] if len(c.args) >= 2 else next(k.value for k in c.keywords if k.arg == "max_length")
                    loops = [l for l in walk_own(fi.node) if isinstance(l, (ast.For, ast.While)) and any(x is c for x in ast.walk(l))]
                    shrinking = any(isinstance(x, ast.BinOp) and isinstance(x.op, ast.Sub) for x in ast.walk(ml)) or any(
                        isinstance(a, ast.AugAssign) and isinstance(a.op, ast.Sub) and isinstance(a.target, ast.Name) and a.target.id in {n.id for n in ast.walk(ml) if isinstance(n, ast.Name)} for l in loops for a in ast.walk(l))
                    unl = _unlimited_on_value(ctx, fi, ml)
                    if unl is not None:
                        rep.fail(Finding("C12-DECOMP", fi.module.rel, fi.qual, "no limit when the declared size is 0: " + unl[0], f"the output limit `{norm(ml)}` becomes 'unlimited' under `{unl[1]}`, a test of the declared size itself, not of its presence: a folder that declares 0 bytes (7 KB archive, 48 MiB stream) is inflated without any limit", line=c.lineno))
                    elif loops and not shrinking:
                        rep.fail(Finding("C12-DECOMP", fi.module.rel, fi.qual, "bounded call in an unbounded loop: " + anorm(c, fi.node), f"`{short(c, 60)}` is limited per call but sits in a loop whose limit `{norm(ml)}` never shrinks: the loop drains the decoder and the total output is again controlled by the stream, not by the declared size", line=c.lineno))
                    else:
                        rep.ok({"site": f"{fi.qual}: {short(c, 70)}", "max_length": norm(ml)})
                else:
                    rep.fail(Finding("C12-DECOMP", fi.module.rel, fi.qual, short(c), "decompress() is called without max_length: the output size is controlled by the stream, not by the declared size", line=c.lineno))
    # the one-shot functions used as values (a dispatch table, a default argument) are the same unbounded inflation
    for m in ctx.p.modules.values():
        if "/tests/" in m.rel:
            continue
        called = {id(c.func) for c in ast.walk(m.tree) if isinstance(c, ast.Call)}
        for a in ast.walk(m.tree):
            if isinstance(a, ast.Attribute) and a.attr in ("decompress", "open") and id(a) not in called and isinstance(a.value, ast.Name) and m.imports.get(a.value.id, a.value.id) in ("zlib", "bz2", "lzma", "gzip") and a.attr == "decompress":
                rep.fail(Finding("C12-DECOMP", m.rel, "<module>", f"{a.value.id}.decompress as a value", f"`{a.value.id}.decompress` is stored / passed as a function: whoever calls it inflates the whole stream at once with no output limit (a 300-byte tar.bz2 expands to its full size in memory before any per-member limit is looked at)", line=a.lineno))
    if n < 2:
        raise AnalysisError(f"C12-DECOMP: only {n} decompress() call sites found (floor 2: LZMA and LZMA2 decoders of the 7z reader)")
    return rep


def _unlimited_on_value(ctx, fi, ml, depth=0):
    """The limit expression is (derived from) a conditional that yields the 'no limit' sentinel (-1 / None) under a test that reads an
    *element* of the declared sizes (`sizes[-1]` falsy) instead of only their presence. Returns (construct, test text) or None."""
    if depth > 3:
        return None

    def sentinel(e):
        return (isinstance(e, ast.Constant) and e.value is None) or (isinstance(e, ast.UnaryOp) and isinstance(e.op, ast.USub) and isinstance(e.operand, ast.Constant) and e.operand.value == 1)

    def reads_element(test):
        return any(isinstance(x, ast.Subscript) for x in ast.walk(test))

    exprs = [ml]
    for x in ast.walk(ml):
        if isinstance(x, ast.Name):
            exprs += [a.value for a in walk_own(fi.node) if isinstance(a, ast.Assign) and any(isinstance(t, ast.Name) and t.id == x.id for t in a.targets)]
    for e in exprs:
        for ie in [y for y in ast.walk(e) if isinstance(y, ast.IfExp)]:
            if (sentinel(ie.orelse) or sentinel(ie.body)) and reads_element(ie.test):
                return (anorm(ie, fi.node), norm(ie.test))
        for c in [y for y in ast.walk(e) if isinstance(y, ast.Call)]:
            for g in resolve_call(ctx.p, fi, c).funcs:
                for r in [r for r in walk_own(g.node) if isinstance(r, ast.Return) and r.value is not None and sentinel(r.value)]:
                    conds, opaque, _ = path_conditions(g.node, r)
                    for cnd in [str(x) for x in conds] + list(opaque):
                        try:
                            t = ast.parse(cnd, mode="eval").body
                        except SyntaxError:
                            continue
                        if reads_element(t):
                            return (f"{g.name}: return {norm(r.value)} when {anorm(t, g.node)}", cnd)
    return None


XML_PARSE = {"fromstring", "parse", "XML", "iterparse", "XMLParser", "XMLPullParser", "fromstringlist", "parseString"}


def rule_xml(ctx: Ctx) -> RuleReport:
    rep = RuleReport("C12-XML", "every XML parse call resolves to defusedxml")
    n = 0
    for fi in list(ctx.p.all_functions()):
        for c in calls_in(fi):
            if not (isinstance(c.func, ast.Attribute) and c.func.attr in XML_PARSE) and not (isinstance(c.func, ast.Name) and c.func.id in XML_PARSE):
                continue
            t = resolve_call(ctx.p, fi, c)
            ext = t.external or ""
            if "ElementTree" in ext or ext.startswith(("xml.", "defusedxml", "lxml")) or "minidom" in ext or "expat" in ext:
                n += 1
                rep.unit(fi.key)
                if ext.startswith("defusedxml"):
                    rep.ok({"site": f"{fi.qual}: {short(c, 50)}", "resolves_to": ext})
                else:
                    rep.fail(Finding("C12-XML", fi.module.rel, fi.qual, short(c), f"XML is parsed with `{ext}`, not defusedxml: entity expansion / DTD tricks are not blocked", line=c.lineno))
    # module-level parse calls
    for m in ctx.p.modules.values():
        for st in m.tree.body:
            if isinstance(st, (ast.FunctionDef, ast.ClassDef, ast.AsyncFunctionDef)):
                continue
            for c in ast.walk(st):
                if isinstance(c, ast.Call) and isinstance(c.func, ast.Attribute) and c.func.attr in XML_PARSE and "ET" in norm(c.func.value):
                    tgt = m.imports.get(norm(c.func.value), "")
                    if not tgt.startswith("defusedxml"):
                        rep.fail(Finding("C12-XML", m.rel, "<module>", short(c), "module-level XML parse outside defusedxml", line=c.lineno))
    if n < 1:
        raise AnalysisError("C12-XML: no XML parse call found (recogniser broken)")
    # all container XML goes through read_zip_xml_root
    rz = ctx.p.func(X + "util/zip_utils.py", "read_zip_xml_root")
    if any((resolve_call(ctx.p, rz, c).external or "").startswith("defusedxml") for c in calls_in(rz)):
        rep.ok({"read_zip_xml_root": "defusedxml.ElementTree.fromstring"})
    else:
        rep.fail(Finding("C12-XML", rz.module.rel, rz.qual, "ET.fromstring", "read_zip_xml_root no longer parses with defusedxml", line=rz.node.lineno))
    return rep


def rule_empty(ctx: Ctx) -> RuleReport:
    """The only caps on ODS repeat expansion apply to *empty* cells (typed value None): a cell without content must be None."""
    rep = RuleReport("C12-EMPTY", "ODS cells without content are reported as None (the precondition of the empty-cell repeat caps and of trailing-row/column trimming)")
    ODS = X + "open_office/ods_extractor.py"
    f = ctx.p.func(ODS, "_extract_cell_value")
    rep.unit(f.key)
    derived = {}
    for n in walk_own(f.node):
        if isinstance(n, ast.Assign) and len(n.targets) == 1 and isinstance(n.targets[0], ast.Name):
            derived.setdefault(n.targets[0].id, set()).update(x.id for x in ast.walk(n.value) if isinstance(x, ast.Name))
    rets = [r for r in walk_own(f.node) if isinstance(r, ast.Return) and isinstance(r.value, ast.Tuple) and r.value.elts]
    if len(rets) < 5:
        raise AnalysisError("C12-EMPTY: _extract_cell_value no longer returns (typed_value, display_text) tuples")
    none_ret = 0
    for r in rets:
        first = r.value.elts[0]
        if isinstance(first, ast.Constant) and first.value is None:
            none_ret += 1
            rep.ok({"return": norm(r), "empty": True})
            continue
        names = {x.id for x in ast.walk(first) if isinstance(x, ast.Name)}
        closure = set(names)
        for _ in range(3):
            for nm in list(closure):
                closure |= derived.get(nm, set())
        conds, opaque, _ = path_conditions(f.node, r)
        truthy = {c.lhs for c in conds if c.op == "truthy"}
        if truthy & closure:
            rep.ok({"return": norm(r), "only_when_non_empty": sorted(truthy & closure)})
        else:
            rep.fail(Finding("C12-EMPTY", ODS, f.qual, norm(r) + " if " + " and ".join([str(c) for c in conds] + opaque),
                             f"`{norm(r)}` can be returned for a cell without content (guards: {[str(c) for c in conds] + opaque}); such cells are then not None, so the caps on large number-columns/rows-repeated values and the trailing-blank trimming no longer apply to blank filler cells", line=r.lineno))
    if none_ret == 0:
        rep.fail(Finding("C12-EMPTY", ODS, f.qual, "return None, ''", "_extract_cell_value never reports an empty cell as None", line=f.node.lineno))
    # the caps themselves: both repeats have an `> CONST` escape for empty content
    sh = ctx.p.func(ODS, "_extract_sheet")
    tests = [anorm(with_constants(ctx, sh, n.test), sh.node) for n in walk_own(sh.node) if isinstance(n, ast.If)]
    for want in ("v0 is None and v1 > 100", "v0 > 100 and all((v1[0] is None for v1 in v2))"):
        if want in tests:
            rep.ok({"cap": want})
        else:
            rep.fail(Finding("C12-EMPTY", ODS, sh.qual, want, f"the empty-cell cap `{want}` vanished or changed", line=sh.node.lineno))
    return rep


WHOLE_INPUT_PATTERNS = [(X + "mail/mbox_email_extractor.py", "MBOX_FROM_PATTERN")]  # run over the complete input with finditer


def html_sniff_window(ctx: Ctx, rep: RuleReport, rule: str) -> None:
    import re as _re

    from sa.engine.redos import Undecided, restart_ambiguity
    from sa.rules.c01 import _pattern_of

    # HTML: the charset sniffer. Its pattern restarts at every '<meta' and reads to the next '>' each time -- harmless on a window of
    # constant size, quadratic on the whole page
    HTML_ = X + "html_extractor.py"
    hm = ctx.p.module(HTML_)
    rh = ctx.p.func(HTML_, "read_html")
    n_sniff = 0
    for c in calls_in(rh):
        if not (isinstance(c.func, ast.Attribute) and c.func.attr in ("search", "finditer", "findall") and isinstance(c.func.value, ast.Name) and c.func.value.id in hm.assigns and c.args):
            continue
        node = hm.assigns[c.func.value.id]
        if not (isinstance(node, ast.Call) and (dotted(node.func) or "") == "re.compile" and node.args):
            continue
        got = _pattern_of(ctx, hm, node.args[0])
        if not got:
            continue
        fl = 0
        for a in list(node.args[1:]) + [k_.value for k_ in node.keywords]:
            for x in ast.walk(a):
                if isinstance(x, ast.Attribute) and isinstance(x.value, ast.Name) and x.value.id == "re" and isinstance(getattr(_re, x.attr, None), _re.RegexFlag):
                    fl |= getattr(_re, x.attr)
        try:
            rw = restart_ambiguity(got[0], int(fl))
        except Undecided:
            rw = None
        if rw is None:
            continue
        n_sniff += 1
        rep.unit(f"{HTML_}::{c.func.value.id}")
        # is the subject bounded by a constant? follow locals: a slice [:K], or .sub / .strip / .lower of something bounded
        defs = {a.targets[0].id: a.value for a in walk_own(rh.node) if isinstance(a, ast.Assign) and len(a.targets) == 1 and isinstance(a.targets[0], ast.Name)}

        def bounded(e, depth=0):
            if depth > 4:
                return False
            if isinstance(e, ast.Subscript) and isinstance(e.slice, ast.Slice) and e.slice.upper is not None and isinstance(ctx.folder.fold(hm, e.slice.upper), int):
                return True
            if isinstance(e, ast.Call) and isinstance(e.func, ast.Attribute) and e.func.attr in ("sub", "strip", "lstrip", "lower", "replace"):
                inner = e.args[1] if e.func.attr == "sub" and len(e.args) > 1 else e.func.value
                return bounded(inner, depth + 1)
            if isinstance(e, ast.Name) and e.id in defs:
                return bounded(defs[e.id], depth + 1)
            return False

        if bounded(c.args[0]):
            rep.ok({"sniffer": c.func.value.id, "subject": norm(c.args[0]), "bounded": True})
        else:
            text = got[0] if isinstance(got[0], str) else got[0].decode("latin-1")
            rep.fail(Finding(rule, HTML_, rh.qual, f"{c.func.value.id} scanned over an unbounded subject: {anorm(c.args[0], rh.node)}", f"`{short(c, 60)}` applies `{text[:50]}` to input whose length the document controls, and {rw}: 775 KB of unclosed '<meta' lines take more than 20 s (0.06 s on an 8 KB window)", line=c.lineno))
    if n_sniff == 0:
        rep.info.append("read_html applies no restart-prone pattern")


def rule_regex(ctx: Ctx) -> RuleReport:
    """Run time within a fixed multiple of the input: a pattern that is run over the whole input must not be polynomially ambiguous."""
    import re as _re

    from sa.engine.redos import Undecided, exponential_ambiguity, polynomial_ambiguity, restart_ambiguity
    from sa.rules.c01 import _RE_FUNCS, _pattern_of

    rep = RuleReport("C12-REGEX", "patterns that scan the whole input (the mailbox separator, the RTF reader's document-level patterns) have no two adjacent repeats that can share a run of characters (IDA on the pattern's automaton: such a pattern needs quadratic time on a long failing line)")
    for rel, const in WHOLE_INPUT_PATTERNS:
        m_ = ctx.p.module(rel)
        node = m_.assigns.get(const)
        if not (isinstance(node, ast.Call) and (dotted(node.func) or "") == "re.compile" and node.args):
            raise AnalysisError(f"C12-REGEX: {const} is no longer a re.compile(...) constant")
        got = _pattern_of(ctx, m_, node.args[0])
        if not got or got[1]:
            raise AnalysisError(f"C12-REGEX: the pattern of {const} is not a constant")
        fl = 0
        for a in list(node.args[1:]) + [k.value for k in node.keywords]:
            for x in ast.walk(a):
                if isinstance(x, ast.Attribute) and isinstance(x.value, ast.Name) and x.value.id == "re" and isinstance(getattr(_re, x.attr, None), _re.RegexFlag):
                    fl |= getattr(_re, x.attr)
        rep.unit(f"{rel}::{const}")
        text = got[0] if isinstance(got[0], str) else got[0].decode("latin-1")
        try:
            w = exponential_ambiguity(got[0], int(fl)) or polynomial_ambiguity(got[0], int(fl))
        except Undecided as exc:
            raise AnalysisError(f"C12-REGEX: {const}: {exc}")
        if w is None:
            rep.ok({"pattern": const, "text": text[:70], "ambiguity": "none"})
        else:
            rep.fail(Finding("C12-REGEX", rel, const, "ambiguous: " + text[:100], f"the pattern `{text[:80]}` is run over the whole input and {w}: a line of n characters after 'From ' costs n^2 steps (seconds for 20 000 characters, hours for a megabyte)", line=node.lineno))
    # RTF: every compiled pattern of the reader that is applied (search / finditer / sub) to the text of the whole document. The
    # patterns are discovered from the call sites: receiver = a module-level pattern (or the loop variable over a module-level
    # list / dict of patterns), subject = the `text` parameter of a parser method or a local computed from it by .sub()
    RTF_ = X + "ms_legacy/rtf_extractor.py"
    rm = ctx.p.module(RTF_)

    def _compiled(node):
        return isinstance(node, ast.Call) and (dotted(node.func) or "") == "re.compile" and node.args

    consts: dict[str, list] = {}
    for name, node in rm.assigns.items():
        if _compiled(node):
            consts[name] = [node]
        elif isinstance(node, (ast.List, ast.Tuple)) and node.elts and all(_compiled(e) for e in node.elts):
            consts[name] = list(node.elts)
        elif isinstance(node, ast.DictComp) and _compiled(node.value):
            consts[name] = [node.value]
    judged: dict[str, list] = {}
    kinds: dict[str, set] = {}
    # helpers that apply a pattern given as argument with .match() at one position (no scan): pattern -> "match"
    for fi in rm.functions.values():
        for c in calls_in(fi):
            if isinstance(c.func, ast.Name) and c.func.id in rm.functions and c.args and isinstance(c.args[0], ast.Name) and c.args[0].id in consts:
                g = rm.functions[c.func.id]
                p0 = g.node.args.args[0].arg if g.node.args.args else None
                uses = {x.func.attr for x in ast.walk(g.node) if isinstance(x, ast.Call) and isinstance(x.func, ast.Attribute) and isinstance(x.func.value, ast.Name) and x.func.value.id == p0}
                if uses and len(c.args) > 1 and isinstance(c.args[1], ast.Name) and c.args[1].id == "text":
                    judged.setdefault(c.args[0].id, []).append(f"{fi.qual}: {short(c, 40)}")
                    kinds.setdefault(c.args[0].id, set()).update(uses)
    for fi in rm.functions.values():
        params = {a.arg for a in fi.node.args.args}
        if "text" not in params:
            continue
        whole = {"text"}
        changed = True
        while changed:
            changed = False
            for a in walk_own(fi.node):
                if isinstance(a, ast.Assign) and len(a.targets) == 1 and isinstance(a.targets[0], ast.Name) and a.targets[0].id not in whole:
                    v = a.value
                    if isinstance(v, ast.Name) and v.id in whole:
                        whole.add(a.targets[0].id); changed = True
                    elif isinstance(v, ast.Call) and isinstance(v.func, ast.Attribute) and v.func.attr == "sub" and len(v.args) >= 2 and isinstance(v.args[1], ast.Name) and v.args[1].id in whole:
                        whole.add(a.targets[0].id); changed = True
        loopvars = {}
        for l in walk_own(fi.node):
            if isinstance(l, ast.For):
                it = l.iter
                base = it.func.value if isinstance(it, ast.Call) and isinstance(it.func, ast.Attribute) and it.func.attr in ("items", "values") else it
                if isinstance(base, ast.Name) and base.id in consts:
                    for t in ast.walk(l.target):
                        if isinstance(t, ast.Name):
                            loopvars[t.id] = base.id
        for c in calls_in(fi):
            if not (isinstance(c.func, ast.Attribute) and c.func.attr in ("search", "finditer", "sub", "subn", "findall", "match") and isinstance(c.func.value, ast.Name)):
                continue
            rn = c.func.value.id
            cname = rn if rn in consts else loopvars.get(rn)
            if cname is None:
                continue
            subj = c.args[1] if c.func.attr in ("sub", "subn") and len(c.args) > 1 else (c.args[0] if c.args else None)
            if isinstance(subj, ast.Name) and subj.id in whole:
                judged.setdefault(cname, []).append(f"{fi.qual}: {short(c, 40)}")
                kinds.setdefault(cname, set()).add(c.func.attr)
    if len(judged) < 10:
        raise AnalysisError(f"C12-REGEX: only {len(judged)} RTF patterns applied to the whole document were recognised (10 confirmed)")
    for cname, sites in sorted(judged.items()):
        for k, node in enumerate(consts[cname]):
            got = _pattern_of(ctx, rm, node.args[0])
            if not got:
                raise AnalysisError(f"C12-REGEX: the pattern of {cname} is not a constant")
            fl = 0
            for a in list(node.args[1:]) + [k_.value for k_ in node.keywords]:
                for x in ast.walk(a):
                    if isinstance(x, ast.Attribute) and isinstance(x.value, ast.Name) and x.value.id == "re" and isinstance(getattr(_re, x.attr, None), _re.RegexFlag):
                        fl |= getattr(_re, x.attr)
            label = cname if len(consts[cname]) == 1 else f"{cname}[{k}]"
            rep.unit(f"{RTF_}::{label}")
            text = got[0] if isinstance(got[0], str) else got[0].decode("latin-1")
            try:
                w = exponential_ambiguity(got[0], int(fl)) or polynomial_ambiguity(got[0], int(fl))
            except Undecided as exc:
                rep.fail(Finding("C12-REGEX", RTF_, label, "undecided: " + text[:100], f"the pattern `{text[:80]}` is run over the whole document and is too large to be decided ({exc}); split it or simplify it", line=node.lineno))
                continue
            scans = bool(kinds.get(cname, {"search"}) & {"search", "finditer", "sub", "subn", "findall"})
            try:
                rw = restart_ambiguity(got[0], int(fl)) if (w is None and scans) else None
            except Undecided as exc:
                rw = None
                rep.info.append(f"{label}: restart cost undecided ({exc})")
            if w is None and rw is None:
                rep.ok({"pattern": label, "applied_in": sites[:2], "applied_with": sorted(kinds.get(cname, [])), "ambiguity": "none"})
            elif w is not None:
                rep.fail(Finding("C12-REGEX", RTF_, label, "ambiguous: " + text[:100], f"the pattern `{text[:80]}` is run over the whole document ({sites[0]}) and {w}: an unclosed group or a long run of blanks costs quadratic or cubic time (24 KB of '\\field{{\\fldinst{{' took 97 s)", line=node.lineno))
            else:
                rep.fail(Finding("C12-REGEX", RTF_, label, "restarts: " + text[:100], f"the pattern `{text[:80]}` is scanned over the whole document ({sites[0]}, {'/'.join(sorted(kinds.get(cname, [])))}) and {rw}", line=node.lineno))
    html_sniff_window(ctx, rep, "C12-REGEX")
    # the other patterns of the library: counted, not judged (they run on fields or on documents whose size the guards bound)
    n_poly = 0
    for m_ in ctx.p.modules.values():
        if "/tests/" in m_.rel:
            continue
        for c in ast.walk(m_.tree):
            if isinstance(c, ast.Call) and c.args and (dotted(c.func) or "").startswith("re.") and (dotted(c.func) or "").split(".")[-1] in _RE_FUNCS:
                got = _pattern_of(ctx, m_, c.args[0])
                if not got or got == ("Q", True):
                    continue
                try:
                    if polynomial_ambiguity(got[0], 0):
                        n_poly += 1
                except Exception:
                    pass
    rep.info.append(f"{n_poly} other patterns are polynomially ambiguous (RTF group patterns, length parsers); they are applied to single fields or to documents and are not judged")
    return rep


def rule_cost(ctx: Ctx) -> RuleReport:
    """Two shapes that turn a linear pass into a quadratic one without changing any result: consuming a buffer by re-slicing it from the
    front inside a loop (every step copies the rest), and membership tests against a list where one test is made per reference."""
    rep = RuleReport("C12-COST", "no loop consumes a sequence by `x = x[k:]` (each step copies the remainder); the member-name collection that `in` tests consult is hash based")
    n_loops = 0
    for fi in ctx.p.all_functions():
        if "/tests/" in fi.module.rel:
            continue
        for lp in [n for n in walk_own(fi.node) if isinstance(n, (ast.While, ast.For))]:
            n_loops += 1
            for a in ast.walk(lp):
                if isinstance(a, ast.Assign) and len(a.targets) == 1 and isinstance(a.targets[0], ast.Name) and isinstance(a.value, ast.Subscript) and isinstance(a.value.value, ast.Name) \
                        and a.value.value.id == a.targets[0].id and isinstance(a.value.slice, ast.Slice) and a.value.slice.lower is not None and a.value.slice.upper is None and a.value.slice.step is None:
                    # a memoryview is sliced without copying
                    mv = any(isinstance(d, ast.Assign) and any(isinstance(t, ast.Name) and t.id == a.targets[0].id for t in d.targets) and isinstance(d.value, ast.Call) and (dotted(d.value.func) or "") == "memoryview" for d in walk_own(fi.node))
                    if mv:
                        rep.ok({"loop": fi.qual, "front_slice_of": "memoryview (no copy)"})
                    else:
                        rep.fail(Finding("C12-COST", fi.module.rel, fi.qual, "buffer consumed by re-slicing: " + anorm(a, fi.node), f"`{short(a, 50)}` inside a loop copies the rest of the buffer at every step: a stream of n short records costs n^2/2 byte copies (0.8 MB of empty BIFF records: 2 s instead of 0.08 s); keep an offset instead", line=a.lineno))
    rep.ok({"loops_scanned": n_loops})
    # ZipContext: `name in self._namelist` is asked once per reference of a document (every picture, every relationship)
    ZC = X + "util/zip_context.py"
    zm = ctx.p.module(ZC)
    tested = set()
    for fi in zm.functions.values():
        for c in ast.walk(fi.node):
            if isinstance(c, ast.Compare) and len(c.ops) == 1 and isinstance(c.ops[0], (ast.In, ast.NotIn)) and isinstance(c.comparators[0], ast.Attribute) and isinstance(c.comparators[0].value, ast.Name) and c.comparators[0].value.id == "self":
                tested.add(c.comparators[0].attr)
    if not tested:
        raise AnalysisError("C12-COST: ZipContext no longer tests membership in a collection of member names")
    for attr in sorted(tested):
        stores = [a for fi in zm.functions.values() for a in walk_own(fi.node) if isinstance(a, (ast.Assign, ast.AnnAssign)) and any(isinstance(t, ast.Attribute) and t.attr == attr and isinstance(t.value, ast.Name) and t.value.id == "self" for t in (a.targets if isinstance(a, ast.Assign) else [a.target]))]
        for a in stores:
            v = a.value
            hashy = isinstance(v, (ast.Set, ast.SetComp, ast.Dict, ast.DictComp)) or (isinstance(v, ast.Call) and (dotted(v.func) or "") in ("set", "frozenset", "dict", "dict.fromkeys"))
            rep.unit(f"{ZC}::{attr}")
            if hashy:
                rep.ok({"membership_collection": f"self.{attr} = {short(v, 50)}", "hash_based": True})
            else:
                rep.fail(Finding("C12-COST", ZC, "ZipContext", f"self.{attr} is not hash based: {anorm(v, ctx.p.func(ZC, 'ZipContext.__init__').node) if ctx.p.maybe_func(ZC, 'ZipContext.__init__') else norm(v)}", f"`{short(a, 60)}`: `name in self.{attr}` is evaluated once per reference of a document; on a list each test is a linear scan, so an ODT with 15 000 picture references and 15 000 entries takes 16 times as long for 5 times the input", line=a.lineno))
    return rep


RULES = [rule_limit, rule_amp, rule_decomp, rule_xml, rule_empty, rule_regex, rule_cost]
