"""C11 — ZIP-container bomb guard decides exactly and runs before any read."""
from __future__ import annotations

import ast

from sa.engine.callgraph import calls_in, reachable_functions, resolve_call
from sa.engine.cfg import must_pass_after, normally_dominates
from sa.engine.consts import UNKNOWN
from sa.engine.context import Ctx
from sa.engine.guards import Cond, path_conditions, terminal
from sa.engine.loader import AnalysisError, dotted, norm, short, walk_own, anorm
from sa.engine.report import Finding, RuleReport
from sa.rules.common import X, extractor_entries, raised_class

ZB = X + "util/zip_bomb.py"
ZC = X + "util/zip_context.py"
ENC = X + "util/encryption.py"
ARCH = X + "archive_extractor.py"
XLSX = X + "ms_modern/xlsx_extractor.py"

EXPLANATION = (
    "Static analysis of the ZIP-bomb guard. (PRED) the guards of every `raise ExtractionZipBombError` in "
    "validate_zipfile are extracted with their lexical path conditions, local names are substituted by their "
    "definitions (per-entry sizes, running sums, ratios) and comparisons normalised; the resulting set must equal the "
    "property's decision table (entry count, single size, zero compressed size, per-entry ratio, running total, total "
    "zero-compressed, total ratio; strict '>' everywhere; directories skipped before any accounting; no other early "
    "exit). (OWN) who-may-open: zipfile.ZipFile is constructed only inside the guard module (and the plain-archive "
    "reader, out of scope); third-party openers that unzip internally (openpyxl.load_workbook) are dominated by "
    "validate_zip_bytesio on the same bytes; every ZIP-container extractor reaches the guard. (ORDER) in open_zipfile "
    "the validation completes normally on every path to `return zf`, and a failing validation closes the handle and "
    "re-raises; ZipContext's only handle is the result of open_zipfile. (POS) validate_zip_bytesio restores the saved "
    "position on every exit, normal or exceptional."
)
NOT_DECIDED = ["truthfulness of ZipInfo sizes (forged central directories) — behaviour of zipfile itself",
               "floating point division semantics at ratio boundaries (the comparison operators and operands are decided, not the arithmetic)"]
TRUSTED = ["Python grammar (ast 3.12)", "CFG construction in sa/engine/cfg.py", "zipfile.ZipFile(...) reads only the central directory; ZipFile.read/open decompress",
           "openpyxl.load_workbook is the only third-party call in the repository that opens a ZIP container by itself"]
FLOORS = {"C11-DIR": 2, "C11-PROP": 3, "C11-PRED": 14, "C11-OWN": 12, "C11-ORDER": 5, "C11-POS": 2}

CONTAINER_EXTRACTORS = ["read_docx", "read_pptx", "read_xlsx", "read_odt", "read_ods", "read_odp", "read_odg", "read_odf", "read_epub"]
THIRD_PARTY_ZIP_OPENERS = {"openpyxl.load_workbook"}
ALLOWED_ZIPFILE_SITES = {(ZB, "open_zipfile"), (ZB, "validate_zip_bytesio"), (ARCH, "_extract_from_zip_optimized")}


# ------------------------------------------------------------------------------------------- PRED
class _Canon:
    """Canonical symbolic text of expressions inside validate_zipfile."""

    def __init__(self, fn: ast.FunctionDef):
        self.fn = fn
        self.defs: dict[str, list[ast.AST]] = {}
        self.aug: dict[str, list[ast.AugAssign]] = {}
        self.loop_targets: set[str] = set()
        for n in walk_own(fn):
            if isinstance(n, ast.Assign) and len(n.targets) == 1 and isinstance(n.targets[0], ast.Name):
                self.defs.setdefault(n.targets[0].id, []).append(n.value)
            elif isinstance(n, ast.AugAssign) and isinstance(n.target, ast.Name):
                self.aug.setdefault(n.target.id, []).append(n)
            elif isinstance(n, ast.For) and isinstance(n.target, ast.Name):
                self.loop_targets.add(n.target.id)
        self.limits_param = None
        for a in fn.args.kwonlyargs + fn.args.args:
            if a.arg == "limits":
                self.limits_param = a.arg

    def __call__(self, e: ast.AST, depth: int = 0) -> str:
        if depth > 8:
            return norm(e)
        c = lambda x: self(x, depth + 1)
        if isinstance(e, ast.Constant):
            return repr(e.value)
        if isinstance(e, ast.Name):
            if e.id in self.aug:
                inits = self.defs.get(e.id, [])
                augs = self.aug[e.id]
                if len(inits) == 1 and isinstance(inits[0], ast.Constant) and inits[0].value == 0 and len(augs) == 1 and isinstance(augs[0].op, ast.Add):
                    return f"SUM({c(augs[0].value)})"
                return f"?{e.id}"
            ds = self.defs.get(e.id, [])
            if len(ds) == 1 and e.id not in self.loop_targets:
                return c(ds[0])
            if e.id in self.loop_targets:
                return "ENTRY"
            return e.id
        if isinstance(e, ast.Attribute):
            return f"{c(e.value)}.{e.attr}"
        if isinstance(e, ast.BoolOp) and isinstance(e.op, ast.Or) and len(e.values) == 2 and isinstance(e.values[1], ast.Constant) and e.values[1].value == 0:
            return c(e.values[0])  # `x or 0`
        if isinstance(e, ast.Call):
            d = dotted(e.func)
            if d == "int" and len(e.args) == 1:
                return c(e.args[0])
            if d == "getattr" and len(e.args) in (2, 3) and isinstance(e.args[1], ast.Constant):
                if len(e.args) == 3 and not (isinstance(e.args[2], ast.Constant) and e.args[2].value in (0, None)):
                    return norm(e)
                return f"{c(e.args[0])}.{e.args[1].value}"
            if d == "len" and len(e.args) == 1:
                return f"len({c(e.args[0])})"
            if d and d.endswith(".infolist") and not e.args:
                return "INFOS"
            if d and d.split(".")[-1] in ("_is_directory",) and len(e.args) == 1:
                return f"ISDIR({c(e.args[0])})"
            return norm(e)
        if isinstance(e, ast.BinOp) and isinstance(e.op, ast.Div):
            return f"({c(e.left)} / {c(e.right)})"
        return norm(e)


EXPECTED = {
    ("pre", frozenset({"len(INFOS) > limits.max_entries"})),
    ("loop", frozenset({"not ISDIR(ENTRY)", "ENTRY.file_size > limits.max_single_uncompressed_bytes"})),
    ("loop", frozenset({"not ISDIR(ENTRY)", "ENTRY.file_size > 0", "0 >= ENTRY.compress_size"})),
    ("loop", frozenset({"not ISDIR(ENTRY)", "ENTRY.file_size > 0", "(ENTRY.file_size / ENTRY.compress_size) > limits.max_entry_compression_ratio"})),
    ("loop", frozenset({"not ISDIR(ENTRY)", "SUM(ENTRY.file_size) > limits.max_total_uncompressed_bytes"})),
    ("post", frozenset({"SUM(ENTRY.file_size) > 0", "0 >= SUM(ENTRY.compress_size)"})),
    ("post", frozenset({"SUM(ENTRY.file_size) > 0", "(SUM(ENTRY.file_size) / SUM(ENTRY.compress_size)) > limits.max_total_compression_ratio"})),
}
EXPECTED_DESCR = {
    "len(INFOS) > limits.max_entries": "entry count",
    "ENTRY.file_size > limits.max_single_uncompressed_bytes": "single uncompressed size",
    "0 >= ENTRY.compress_size": "non-empty entry with zero compressed size",
    "(ENTRY.file_size / ENTRY.compress_size) > limits.max_entry_compression_ratio": "per-entry ratio",
    "SUM(ENTRY.file_size) > limits.max_total_uncompressed_bytes": "running total uncompressed size",
    "0 >= SUM(ENTRY.compress_size)": "total zero compressed size",
    "(SUM(ENTRY.file_size) / SUM(ENTRY.compress_size)) > limits.max_total_compression_ratio": "total ratio",
}


def rule_pred(ctx: Ctx) -> RuleReport:
    rep = RuleReport("C11-PRED", "decision table of validate_zipfile equals the property's table (CMP-TABLE)")
    fi = ctx.p.func(ZB, "validate_zipfile")
    rep.unit(fi.key)
    fn = fi.node
    canon = _Canon(fn)
    loops = [n for n in walk_own(fn) if isinstance(n, (ast.For, ast.While))]
    if len(loops) != 1 or not isinstance(loops[0], ast.For):
        raise AnalysisError("C11-PRED: validate_zipfile no longer has exactly one for-loop over the entries (idiom not recognised)")
    loop = loops[0]
    if canon(loop.iter) != "INFOS":
        rep.fail(Finding("C11-PRED", ZB, fi.qual, short(loop.iter), "the accounting loop does not iterate zf.infolist() — entries may be missed", line=loop.lineno))
    else:
        rep.ok({"loop_over": "zf.infolist()"})

    def where(st):
        if any(n is st for n in ast.walk(loop)):
            return "loop"
        return "pre" if st.lineno < loop.lineno else "post"

    def conds_of(st):
        conds, opaque, _ = path_conditions(fn, st, subst_at=lambda _s: canon, terminals=("continue", "return", "break"))
        # only non-raising early exits shape the decision; `except` context of the infolist() wrapper is not a guard
        return {str(c) for c in conds}, [o for o in opaque]

    found = set()
    for r in [n for n in walk_own(fn) if isinstance(n, ast.Raise)]:
        cls = raised_class(r)
        conds, opaque = conds_of(r)
        if any(o.startswith("except") for o in opaque):
            # the `except Exception -> ExtractionZipBombError("Failed to inspect")` wrapper around infolist()
            if cls == "ExtractionZipBombError":
                rep.ok({"wrapper": "infolist() failure -> ExtractionZipBombError"})
            else:
                rep.fail(Finding("C11-PRED", ZB, fi.qual, short(r), f"failure to inspect the container raises {cls}, not the zip-bomb error", line=r.lineno))
            continue
        if opaque:
            raise AnalysisError(f"C11-PRED: guard of `{short(r, 60)}` is not a conjunction of comparisons: {opaque}")
        if cls != "ExtractionZipBombError":
            rep.fail(Finding("C11-PRED", ZB, fi.qual, short(r, 80), f"validate_zipfile raises {cls}; rejections must use the zip-bomb error", line=r.lineno))
            continue
        # drop conditions that merely restate "no earlier raise fired": path_conditions adds the negation of earlier
        # terminal raises — those never change the accept/reject decision (all raises reject with the same error)
        found.add((where(r), frozenset(conds), r))

    def strip_prior_raise_negations(items):
        """Remove from each guard the negations contributed by *earlier raising ifs* in the same block."""
        out = set()
        for w, conds, r in items:
            out.add((w, conds))
        return out

    got = _raise_guards(fn, canon, loop)
    got_keys = {(w, c) for (w, c, _r) in got}
    for w, c, r in got:
        if (w, c) in EXPECTED:
            key = sorted(c - {"not ISDIR(ENTRY)"}, key=len)[-1]
            rep.ok({"guard": sorted(c), "where": w, "meaning": EXPECTED_DESCR.get(key, "")})
        else:
            rep.fail(Finding("C11-PRED", ZB, fi.qual, " and ".join(sorted(c)) + f" [{w}]",
                             f"validate_zipfile rejects under a condition that is not in the property's table: {' and '.join(sorted(c))} ({w}-loop position)", line=r.lineno))
    for w, c in sorted(EXPECTED - got_keys, key=lambda t: sorted(t[1])):
        rep.fail(Finding("C11-PRED", ZB, fi.qual, " and ".join(sorted(c)) + f" [{w}]",
                         f"missing or altered rejection condition: expected `{' and '.join(sorted(c))}` ({w}-loop position)", line=fn.lineno))

    # early exits: only the directory `continue`; no return / break
    for n in walk_own(fn):
        if isinstance(n, ast.Return) and n.value is not None or isinstance(n, ast.Break) or (isinstance(n, ast.Return) and n is not fn.body[-1]):
            rep.fail(Finding("C11-PRED", ZB, fi.qual, short(n), "early exit from validate_zipfile skips the remaining checks", line=n.lineno))
        if isinstance(n, ast.Continue):
            conds, opaque = conds_of(n)
            if conds == {"ISDIR(ENTRY)"} and not opaque:
                rep.ok({"continue": "directory entries skipped before accounting"})
            else:
                rep.fail(Finding("C11-PRED", ZB, fi.qual, "continue if " + " and ".join(sorted(conds) + opaque),
                                 "an entry other than a directory is skipped before it is accounted for", line=n.lineno))
    # accumulations: unconditional for every non-directory entry, and before the running-total test
    for name, augs in canon.aug.items():
        for a in augs:
            conds, opaque = conds_of(a)
            if where(a) == "loop" and conds == {"not ISDIR(ENTRY)"} and not opaque:
                rep.ok({"accumulate": norm(a), "for": "every non-directory entry"})
            else:
                rep.fail(Finding("C11-PRED", ZB, fi.qual, norm(a) + " if " + " and ".join(sorted(conds)),
                                 f"accumulation `{norm(a)}` is conditional ({sorted(conds)}) — totals no longer cover every non-directory entry", line=a.lineno))
    for w, c, r in got:
        if w == "loop" and any(s.startswith("SUM(") for s in c):
            # the test must come after both accumulations in the loop body
            for name, augs in canon.aug.items():
                for a in augs:
                    if a.lineno > r.lineno:
                        rep.fail(Finding("C11-PRED", ZB, fi.qual, norm(a), "running total is tested before the current entry is added", line=a.lineno))
                    else:
                        rep.ok()
    # limits defaults are sane positive finite numbers and are passed through
    lim = ctx.p.cls(ZB, "ZipBombLimits")
    for fname, (ann, default) in lim.fields.items():
        v = ctx.folder.fold(lim.module, default) if default is not None else UNKNOWN
        if isinstance(v, (int, float)) and 0 < v < float("inf"):
            rep.ok({"limit_default": fname, "value": v})
        else:
            rep.fail(Finding("C11-PRED", ZB, "ZipBombLimits", f"{fname} = {norm(default) if default is not None else '?'}", f"default limit {fname} is not a positive finite number", line=lim.node.lineno))
    if canon("limits") != "limits":
        rep.fail(Finding("C11-PRED", ZB, fi.qual, "limits", "the `limits` parameter is rebound inside validate_zipfile", line=fn.lineno))
    return rep


def _raise_guards(fn, canon, loop):
    """(where, frozenset(cond strings), raise node) for every zip-bomb raise, ignoring negations of earlier raises."""
    out = []

    def where(st):
        if any(n is st for n in ast.walk(loop)):
            return "loop"
        return "pre" if st.lineno < loop.lineno else "post"

    def walk(body, inherited: list[Cond]):
        pre: list[Cond] = []
        for st in body:
            cur = inherited + pre
            if isinstance(st, ast.Raise):
                if raised_class(st) == "ExtractionZipBombError":
                    out.append((where(st), frozenset(str(c) for c in cur), st))
                continue
            if isinstance(st, ast.If):
                from sa.engine.guards import atoms

                pos = atoms(st.test, True, canon)
                neg = atoms(st.test, False, canon)
                if pos is None:
                    raise AnalysisError(f"C11-PRED: guard `{norm(st.test)}` is not a conjunction")
                walk(st.body, cur + pos)
                if st.orelse:
                    if neg is None:
                        raise AnalysisError(f"C11-PRED: negated guard `{norm(st.test)}` is not a conjunction")
                    walk(st.orelse, cur + neg)
                t = terminal(st.body)
                if t in ("continue", "return", "break") and not st.orelse:
                    if neg is None:
                        raise AnalysisError(f"C11-PRED: negated guard `{norm(st.test)}` is not a conjunction")
                    pre.extend(neg)
                # a body ending in `raise` contributes nothing: later guards are evaluated only when it did not fire,
                # and firing rejects anyway
            elif isinstance(st, (ast.For, ast.While)):
                walk(st.body, cur)
            elif isinstance(st, ast.Try):
                walk(st.body, cur)
            elif isinstance(st, ast.With):
                walk(st.body, cur)

    walk(fn.body, [])
    return out


# ------------------------------------------------------------------------------------------- OWN
_POSITIVE_EXAMPLE = '''
import zipfile
def sneaky(file_like):
    with zipfile.ZipFile(file_like) as zf:
        return zf.read("x")
'''


def rule_own(ctx: Ctx) -> RuleReport:
    rep = RuleReport("C11-OWN", "who may open a ZIP container: only the guard module; third-party openers dominated by the guard")
    # embedded positive example: the recogniser must see a ZipFile construction
    t = ast.parse(_POSITIVE_EXAMPLE)
    if not any(isinstance(n, ast.Call) and dotted(n.func) == "zipfile.ZipFile" for n in ast.walk(t)):
        raise AnalysisError("C11-OWN: positive example no longer matches")
    n_sites = 0
    for fi in ctx.p.all_functions():
        for c in calls_in(fi):
            tg = resolve_call(ctx.p, fi, c)
            ext = tg.external or ""
            if ext == "zipfile.ZipFile" or ext.endswith(".ZipFile") and ext.split(".")[0] == "zipfile":
                n_sites += 1
                top = fi
                while top.parent is not None:
                    top = top.parent
                if (fi.module.rel, top.qual) in ALLOWED_ZIPFILE_SITES:
                    rep.ok({"ZipFile_constructed_in": fi.key})
                else:
                    rep.fail(Finding("C11-OWN", fi.module.rel, fi.qual, short(c), "zipfile.ZipFile is constructed outside the guard module: the container is opened without the bomb check", line=c.lineno))
    # module-level constructions
    for m in ctx.p.modules.values():
        for n in m.tree.body:
            if isinstance(n, (ast.FunctionDef, ast.AsyncFunctionDef, ast.ClassDef)):
                continue
            for c in ast.walk(n):
                if isinstance(c, ast.Call) and (dotted(c.func) or "").endswith("ZipFile") and "SevenZip" not in (dotted(c.func) or ""):
                    rep.fail(Finding("C11-OWN", m.rel, "<module>", short(c), "ZipFile constructed at module level", line=c.lineno))
    if n_sites < 1:
        raise AnalysisError("C11-OWN: no zipfile.ZipFile construction site found anywhere (the guard module must have one)")
    # third-party openers
    entries = extractor_entries(ctx)
    reach = reachable_functions(ctx.p, list(entries.values()), list(entries.values()))
    for fi in ctx.p.all_functions():
        for c in calls_in(fi):
            tg = resolve_call(ctx.p, fi, c)
            if (tg.external or "") in THIRD_PARTY_ZIP_OPENERS:
                if fi.key not in reach:
                    rep.info.append(f"{fi.key}: {short(c, 80)} is not reachable from any extractor entry point (dead helper) — not judged")
                    continue
                cfg = ctx.cfg(fi)
                vals = [v for v in calls_in(fi) if any(g.module.rel == ZB and g.qual == "validate_zip_bytesio" for g in resolve_call(ctx.p, fi, v).funcs)]
                arg = c.args[0] if c.args else None
                ok = False
                for v in vals:
                    varg = v.args[0] if v.args else None
                    if arg is None or varg is None:
                        continue
                    if _same_bytes(arg, varg) and all(normally_dominates(cfg, cfg.evaluators(v), b) for b in cfg.evaluators(c)):
                        ok = True
                if ok:
                    rep.ok({"third_party_opener": fi.key, "call": short(c, 80), "dominated_by": "validate_zip_bytesio(same bytes)"})
                else:
                    rep.fail(Finding("C11-OWN", fi.module.rel, fi.qual, short(c), "load_workbook opens the container without a dominating validate_zip_bytesio on the same bytes", line=c.lineno))
    # every container extractor reaches the guard
    byname = {f.qual: f for f in entries.values()}
    for name in CONTAINER_EXTRACTORS:
        fi = byname.get(name)
        if fi is None:
            raise AnalysisError(f"C11-OWN: container extractor {name} vanished from the registry")
        r = reachable_functions(ctx.p, [fi])
        guard = [k for k in r if k in (f"{ZB}::open_zipfile", f"{ZB}::validate_zip_bytesio")]
        if guard:
            rep.ok({"extractor": name, "reaches_guard": sorted(guard)})
        else:
            rep.fail(Finding("C11-OWN", fi.module.rel, fi.qual, name, f"{name} never reaches open_zipfile / validate_zip_bytesio", line=fi.node.lineno))
    f_odf = ctx.p.func(ENC, "is_odf_encrypted")
    r = reachable_functions(ctx.p, [f_odf])
    if f"{ZB}::open_zipfile" in r:
        rep.ok({"probe": "is_odf_encrypted", "reaches_guard": True})
    else:
        rep.fail(Finding("C11-OWN", ENC, "is_odf_encrypted", "open_zipfile", "the ODF encryption probe reads the manifest without the bomb check", line=f_odf.node.lineno))
    return rep


def _same_bytes(a: ast.AST, b: ast.AST) -> bool:
    def core(e):
        if isinstance(e, ast.Call) and (dotted(e.func) or "").split(".")[-1] == "BytesIO" and len(e.args) == 1:
            return norm(e.args[0])
        return None

    ca, cb = core(a), core(b)
    if ca is not None and cb is not None:
        return ca == cb
    return isinstance(a, ast.Name) and isinstance(b, ast.Name) and a.id == b.id


# ------------------------------------------------------------------------------------------- ORDER
def rule_order(ctx: Ctx) -> RuleReport:
    rep = RuleReport("C11-ORDER", "validation completes before the handle is handed out; failure closes and re-raises")
    fi = ctx.p.func(ZB, "open_zipfile")
    rep.unit(fi.key)
    cfg = ctx.cfg(fi)
    vcalls = [c for c in calls_in(fi) if any(g.qual in ("validate_zipfile", "validate_zip_bytesio") for g in resolve_call(ctx.p, fi, c).funcs)]
    rets = [n for n in walk_own(fi.node) if isinstance(n, ast.Return) and n.value is not None]
    if not rets:
        raise AnalysisError("C11-ORDER: open_zipfile lost its return (idiom not recognised)")
    if not vcalls:
        rep.fail(Finding("C11-ORDER", ZB, fi.qual, "no validation", "open_zipfile hands out a ZipFile without calling validate_zipfile / validate_zip_bytesio: ZipContext and the ODF encryption probe read unvalidated containers", line=fi.node.lineno))
        return rep
    vnodes = [x for v in vcalls for x in cfg.evaluators(v)]
    for r in rets:
        for b in cfg.evaluators(r):
            if normally_dominates(cfg, vnodes, b):
                rep.ok({"open_zipfile": "validate_zipfile completes normally before `" + norm(r) + "`"})
            else:
                path = cfg.paths_avoiding(b, set())
                rep.fail(Finding("C11-ORDER", ZB, fi.qual, norm(r), "a path reaches `return zf` without validate_zipfile having completed normally (handle handed out unvalidated)", line=r.lineno))
    # limits / source are passed through to validate_zipfile
    for v in vcalls:
        kws = {k.arg: norm(k.value) for k in v.keywords}
        if kws.get("limits") == "limits":
            rep.ok({"passes": "limits=limits"})
        else:
            rep.fail(Finding("C11-ORDER", ZB, fi.qual, "limits not passed: " + anorm(v, fi.node), f"open_zipfile does not pass its `limits` to `{short(v, 50)}`: the opener behind ZipContext ignores configured limits (max_entries, ratios, sizes)", line=v.lineno))
    # handlers around the validation: close + bare raise
    for t in [n for n in walk_own(fi.node) if isinstance(n, ast.Try)]:
        if not any(v in list(ast.walk(t)) for v in vcalls):
            continue
        for h in t.handlers:
            last = h.body[-1] if h.body else None
            closes = any(isinstance(c, ast.Call) and (dotted(c.func) or "").endswith(".close") for st in h.body for c in ast.walk(st))
            if isinstance(last, ast.Raise) and last.exc is None and closes:
                rep.ok({"on_failure": "zf.close(); raise"})
            elif not (isinstance(last, ast.Raise)):
                rep.fail(Finding("C11-ORDER", ZB, fi.qual, "except " + (norm(h.type) if h.type else ""), "a failing validation is swallowed: the unvalidated handle is returned", line=h.lineno))
            elif not closes:
                rep.fail(Finding("C11-ORDER", ZB, fi.qual, "except " + (norm(h.type) if h.type else ""), "a failing validation does not close the ZIP handle", line=h.lineno))
            else:
                rep.ok()
    # validate_zip_bytesio validates too
    fb = ctx.p.func(ZB, "validate_zip_bytesio")
    if any(any(g.qual in ("validate_zipfile", "open_zipfile") for g in resolve_call(ctx.p, fb, c).funcs) for c in calls_in(fb)):
        rep.ok({"validate_zip_bytesio": "calls validate_zipfile"})
    else:
        rep.fail(Finding("C11-ORDER", ZB, fb.qual, "validate_zipfile", "validate_zip_bytesio no longer validates", line=fb.node.lineno))
    # ZipContext: the only handle is open_zipfile's result
    zc = ctx.p.cls(ZC, "ZipContext")
    fam = [c for c in ctx.p.all_classes() if zc in ctx.p.mro(c)]
    rep.unit(f"ZipContext family: {sorted(c.name for c in fam)}")
    n_assign = 0
    for c in fam:
        for mname, mf in c.methods.items():
            for n in walk_own(mf.node):
                tgts = []
                if isinstance(n, ast.Assign):
                    tgts = n.targets
                elif isinstance(n, (ast.AnnAssign, ast.AugAssign)):
                    tgts = [n.target]
                for tg in tgts:
                    if isinstance(tg, ast.Attribute) and isinstance(tg.value, ast.Name) and tg.value.id == "self" and tg.attr == "_zip":
                        n_assign += 1
                        val = getattr(n, "value", None)
                        good = isinstance(val, ast.Call) and any(g.module.rel == ZB and g.qual == "open_zipfile" for g in resolve_call(ctx.p, mf, val).funcs)
                        if good:
                            rep.ok({"ZipContext._zip": norm(n)})
                        else:
                            rep.fail(Finding("C11-ORDER", c.module.rel, mf.qual, norm(n), "the container handle is not the result of open_zipfile", line=n.lineno))
    if n_assign == 0:
        raise AnalysisError("C11-ORDER: no assignment to self._zip found in the ZipContext family (anchor vanished)")
    # in __init__ nothing reads the handle before it is assigned
    init = zc.methods.get("__init__")
    if init is None:
        raise AnalysisError("C11-ORDER: ZipContext.__init__ vanished")
    cfg = ctx.cfg(init)
    assign_nodes = []
    use_nodes = []
    for n in walk_own(init.node):
        if isinstance(n, ast.Attribute) and isinstance(n.value, ast.Name) and n.value.id == "self" and n.attr == "_zip":
            (assign_nodes if isinstance(n.ctx, ast.Store) else use_nodes).append(n)
    an = [x for a in assign_nodes for x in cfg.evaluators(a)]
    for u in use_nodes:
        if all(normally_dominates(cfg, an, b) for b in cfg.evaluators(u)):
            rep.ok()
        else:
            rep.fail(Finding("C11-ORDER", ZC, init.qual, "self._zip", "the handle is used before open_zipfile returned", line=u.lineno))
    return rep


# ------------------------------------------------------------------------------------------- POS
def rule_pos(ctx: Ctx) -> RuleReport:
    rep = RuleReport("C11-POS", "validate_zip_bytesio restores the caller's stream position on every exit (PAIR tell/seek)")
    fi = ctx.p.func(ZB, "validate_zip_bytesio")
    rep.unit(fi.key)
    cfg = ctx.cfg(fi)
    param = fi.node.args.args[0].arg if fi.node.args.args else None
    saves = []
    for n in walk_own(fi.node):
        if isinstance(n, ast.Assign) and isinstance(n.value, ast.Call) and dotted(n.value.func) == f"{param}.tell" and isinstance(n.targets[0], ast.Name):
            saves.append((n, n.targets[0].id))
    if len(saves) != 1:
        raise AnalysisError("C11-POS: expected exactly one `saved = file_like.tell()` in validate_zip_bytesio")
    save_stmt, saved = saves[0]
    restores = [c for c in calls_in(fi) if dotted(c.func) == f"{param}.seek" and len(c.args) == 1 and isinstance(c.args[0], ast.Name) and c.args[0].id == saved]
    if not restores:
        rep.fail(Finding("C11-POS", ZB, fi.qual, f"{param}.seek({saved})", "the saved position is never restored", line=fi.node.lineno))
        return rep
    rnodes = [x for r in restores for x in cfg.evaluators(r)]
    snodes = cfg.evaluators(save_stmt)
    w = must_pass_after(cfg, snodes, rnodes)
    if w is None:
        rep.ok({"pair": f"{saved} = {param}.tell()  ...  {param}.seek({saved}) on every exit (normal and exceptional)"})
    else:
        rep.fail(Finding("C11-POS", ZB, fi.qual, f"{param}.seek({saved})", "a path from the position save to an exit skips the restore: " + " -> ".join(cfg.describe_path(w)),
                         line=save_stmt.lineno, path=cfg.describe_path(w)))
    # the save dominates every statement that moves the stream
    movers = [c for c in calls_in(fi) if (dotted(c.func) or "").startswith(f"{param}.") and c not in restores and dotted(c.func) != f"{param}.tell"]
    movers += [c for c in calls_in(fi) if any(isinstance(a, ast.Name) and a.id == param for a in c.args)]
    for mv in movers:
        if all(normally_dominates(cfg, snodes, b) for b in cfg.evaluators(mv)):
            rep.ok({"save_before": short(mv, 60)})
        else:
            rep.fail(Finding("C11-POS", ZB, fi.qual, short(mv), "the stream is moved before its position is saved", line=mv.lineno))
    return rep


def rule_dir(ctx: Ctx) -> RuleReport:
    """Directory entries are exempt from every clause: the test that grants the exemption must be one a file entry cannot pass."""
    rep = RuleReport("C11-DIR", "an entry is treated as a directory only by name (ZipInfo.is_dir / trailing '/'), never by attributes a file entry can carry")
    f = ctx.p.maybe_func(ZB, "_is_directory")
    if f is None:
        raise AnalysisError("C11-DIR: _is_directory vanished")
    rep.unit(f.key)
    prm = f.node.args.args[0].arg
    # locals bound to the is_dir method:  is_dir = getattr(info, "is_dir", None)
    isdir_names = {n.targets[0].id for n in walk_own(f.node) if isinstance(n, ast.Assign) and len(n.targets) == 1 and isinstance(n.targets[0], ast.Name)
                   and isinstance(n.value, ast.Call) and dotted(n.value.func) == "getattr" and len(n.value.args) >= 2 and isinstance(n.value.args[1], ast.Constant) and n.value.args[1].value == "is_dir"}

    def by_name(e) -> bool:
        if isinstance(e, ast.Call) and isinstance(e.func, ast.Name) and e.func.id == "bool" and len(e.args) == 1:
            return by_name(e.args[0])
        if isinstance(e, ast.Call) and isinstance(e.func, ast.Name) and e.func.id in isdir_names and not e.args:
            return True
        if isinstance(e, ast.Call) and isinstance(e.func, ast.Attribute) and e.func.attr == "is_dir" and norm(e.func.value) == prm:
            return True
        if isinstance(e, ast.Call) and isinstance(e.func, ast.Attribute) and e.func.attr == "endswith" and norm(e.func.value) == f"{prm}.filename" and e.args and isinstance(e.args[0], ast.Constant) and e.args[0].value in ("/", ("/", "\\")):
            return True
        if isinstance(e, ast.BoolOp):
            return all(by_name(v) for v in e.values)
        return False

    rets = [r for r in walk_own(f.node) if isinstance(r, ast.Return) and r.value is not None]
    if not rets:
        raise AnalysisError("C11-DIR: _is_directory returns nothing")
    for r in rets:
        if isinstance(r.value, ast.Constant) and r.value.value is False:
            rep.ok({"return": "False"})
            continue
        if isinstance(r.value, ast.Constant) and r.value.value is True:
            conds, opaque, _ = path_conditions(f.node, r)
            rep.fail(Finding("C11-DIR", ZB, f.qual, "return True if " + " and ".join([str(c) for c in conds] + opaque),
                             "an entry is declared a directory (and skipped by every size / ratio clause) on a condition that is not its name: a regular over-limit entry carrying that attribute passes the guard", line=r.lineno))
            continue
        if by_name(r.value):
            rep.ok({"return": norm(r.value)})
        else:
            rep.fail(Finding("C11-DIR", ZB, f.qual, "return " + short(r.value, 70), "the directory test depends on something other than ZipInfo.is_dir() / a trailing '/' in the name", line=r.lineno))
    return rep


def rule_prop(ctx: Ctx) -> RuleReport:
    """The zip-bomb error must reach the caller as such: no handler around the guard may translate it."""
    rep = RuleReport("C11-PROP", "no handler around open_zipfile / validate_zip_bytesio / validate_zipfile replaces the zip-bomb error by another one")
    guards = {"open_zipfile", "validate_zip_bytesio", "validate_zipfile"}
    n_sites = 0
    for fi in ctx.p.all_functions():
        if "/tests/" in fi.module.rel or fi.module.rel == ZB:
            continue
        for c in calls_in(fi):
            t = resolve_call(ctx.p, fi, c)
            if not any(g.name in guards and g.module.rel == ZB for g in t.funcs):
                continue
            n_sites += 1
            rep.unit(fi.key)
            tries = [tr for tr in walk_own(fi.node) if isinstance(tr, ast.Try) and any(x is c for st in tr.body for x in ast.walk(st))]
            bad = None
            for tr in tries:
                for h in tr.handlers:
                    names = [(dotted(e) or "?").split(".")[-1] for e in (h.type.elts if isinstance(h.type, ast.Tuple) else [h.type])] if h.type is not None else ["<bare>"]
                    passes_on = len(h.body) >= 1 and isinstance(h.body[-1], ast.Raise) and h.body[-1].exc is None
                    if any(n in ("ExtractionError", "ExtractionZipBombError") for n in names) and passes_on:
                        break  # the family is re-raised unchanged before any broader handler
                    if any(n in ("Exception", "BaseException", "<bare>", "ExtractionError", "ExtractionZipBombError") for n in names) and not passes_on:
                        bad = (h, names)
                        break
                if bad:
                    break
            if bad is None:
                rep.ok({"site": f"{fi.qual}: {short(c, 40)}", "bomb_error": "propagates unchanged"})
            else:
                h, names = bad
                rep.fail(Finding("C11-PROP", fi.module.rel, fi.qual, f"except {', '.join(names)} around {short(c, 40)}",
                                 "the handler around the bomb guard also catches ExtractionZipBombError and raises / returns something else: an archive that exceeds the limits is no longer rejected with the zip-bomb error", line=h.lineno))
    if n_sites < 3:
        raise AnalysisError(f"C11-PROP: only {n_sites} guard call sites found (3 confirmed)")
    return rep


RULES = [rule_dir, rule_prop, rule_pred, rule_own, rule_order, rule_pos]
