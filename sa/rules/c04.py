"""C04 — every result honours the common interface, for any input."""
from __future__ import annotations

import ast
import re

from sa.engine.callgraph import calls_in, resolve_call
from sa.engine.cfg import normally_dominates
from sa.engine.context import Ctx
from sa.engine.guards import path_conditions
from sa.engine.loader import anorm, AnalysisError, dotted, norm, short, walk_own, is_noise
from sa.engine.loops import Intervals
from sa.engine.nullness import M, N, Nullness, ann_optional
from sa.engine.report import Finding, RuleReport
from sa.engine.resolver import Resolver
from sa.rules.common import DT, X, extractor_entries, implementers

EXPLANATION = (
    "'Accessors never raise' in general and 'document properties reported unchanged' are value-level and not decided. Decided: "
    "(IFACE) every dataclass that lists one of the four protocols among its bases defines all of its methods. (STR) every "
    "text accessor returns str under a local type inference over field annotations, string methods, f-strings, joins and "
    "`or \"\"` defaults; and at every constructor call of a result dataclass in the extractors, a value that may be None "
    "(flow-sensitive nullness over the CFG: .text, one-argument .get, .find ...) is never passed to a field annotated "
    "plain `str`. (CHR) every chr(e): the interval of e avoids the surrogate range, or the text it goes into passes the "
    "surrogate normaliser before it is returned or stored; no decode uses surrogateescape/surrogatepass. (BYTES) payload / "
    "size pairing and get_bytes shapes (shared with C14). (DIM) get_dim is (len(T), max(len(row))) over exactly what "
    "get_table returns. (NUMPOS) every image record carries a running number and counters and records agree on every path "
    "(shared with C14-PAIR); unit numbers come from enumerate(start=1) or counters starting at 1. (META) every yield of an "
    "extractor is dominated by populate_from_path(path) on the yielded object's metadata, and populate_from_path returns "
    "before touching anything when path is None."
    " (PROP) string properties of the OLE summary streams are decoded with the code page of their property set, never with a fixed codec and never strictly; repeatable properties (ODF meta:keyword, EPUB dc:creator / dc:subject / dc:contributor) are collected with findall."
)
NOT_DECIDED = ["accessors never raise (in general)", "document properties reported unchanged (value identity through XML/OLE readers)", "behaviour on damaged-but-accepted files beyond the nullness facts", "which of several stored values feeds a metadata field when a file carries more than one candidate (e.g. <meta name=description> and og:description): value-level choice"]
TRUSTED = ["ElementTree .text / one-argument .get / .find may return None", "str methods return str", "nullness and interval engines"]
FLOORS = {"C04-IFACE": 40, "C04-STR": 100, "C04-CHR": 5, "C04-BYTES": 20, "C04-DIM": 6, "C04-NUMPOS": 12, "C04-META": 21, "C04-TRUTH": 100, "C04-SAME": 8, "C04-PROP": 4}

PROTO_METHODS = {
    "ExtractionInterface": ["iterate_units", "iterate_images", "iterate_tables", "get_full_text", "get_metadata", "to_json"],
    "UnitInterface": ["get_text", "get_images", "get_tables", "get_metadata", "to_json"],
    "ImageInterface": ["get_bytes", "get_content_type", "get_caption", "get_description", "get_metadata"],
    "TableInterface": ["get_table", "get_dim"],
}
TEXT_ACCESSORS = {"get_text", "get_full_text", "get_caption", "get_description", "get_content_type"}


def rule_iface(ctx: Ctx) -> RuleReport:
    rep = RuleReport("C04-IFACE", "protocol methods are all implemented")
    dt = ctx.p.module(DT)
    for iface, methods in PROTO_METHODS.items():
        proto = dt.classes.get(iface)
        if proto is None:
            raise AnalysisError(f"C04-IFACE: protocol {iface} vanished")
        declared = [m for m in proto.methods if not m.startswith("_") and m != "from_json"]
        missing_decl = set(methods) - set(declared)
        if missing_decl:
            raise AnalysisError(f"C04-IFACE: protocol {iface} no longer declares {sorted(missing_decl)}")
        impls = implementers(ctx, iface)
        for c in impls:
            rep.unit(c.key)
            for m in methods:
                f = ctx.p.find_method(c, m)
                concrete = f is not None and f.cls is not None and f.cls.name not in PROTO_METHODS
                if concrete:
                    rep.ok({"class": c.name, "implements": f"{iface}.{m}"})
                else:
                    rep.fail(Finding("C04-IFACE", DT, c.name, f"{iface}.{m}", f"{c.name} lists {iface} among its bases but does not define {m}()", line=c.node.lineno))
    # accessors compute on stored strings: float -> int conversions of document values cannot overflow
    dtm = ctx.p.module(DT)
    n_conv = 0
    for fi in dtm.functions.values():
        convs = [c for c in ast.walk(fi.node) if isinstance(c, ast.Call) and isinstance(c.func, ast.Name) and c.func.id == "int" and c.args and any(isinstance(x, ast.Call) and isinstance(x.func, ast.Name) and x.func.id == "round" for x in ast.walk(c.args[0]))]
        if not convs:
            continue
        floats = {n.targets[0].id for n in walk_own(fi.node) if isinstance(n, ast.Assign) and len(n.targets) == 1 and isinstance(n.targets[0], ast.Name) and isinstance(n.value, ast.Call) and isinstance(n.value.func, ast.Name) and n.value.func.id == "float"}
        guarded = any(isinstance(i, ast.If) and i.body and isinstance(i.body[-1], ast.Return) and any(isinstance(x, ast.Name) and x.id in floats for x in ast.walk(i.test))
                      and any(isinstance(x, ast.Compare) and isinstance(x.ops[0], (ast.Gt, ast.GtE, ast.In)) for x in ast.walk(i.test)) for i in walk_own(fi.node))
        in_try = all(any(isinstance(t, ast.Try) and any(x is c for st in t.body for x in ast.walk(st)) and any(h.type is None or "OverflowError" in norm(h.type) or norm(h.type) in ("Exception", "ArithmeticError") for h in t.handlers) for t in walk_own(fi.node)) for c in convs)
        n_conv += len(convs)
        rep.unit(fi.key)
        if guarded or in_try:
            for _ in convs:
                rep.ok()
        else:
            rep.fail(Finding("C04-IFACE", DT, fi.qual, "int(round(<float from the document>)) unguarded", f"{fi.qual} converts a float parsed from a stored string with int(round(...)) without a magnitude test or an OverflowError handler: a length with hundreds of digits is infinite as a float and the accessor that calls this raises OverflowError", line=convs[0].lineno))
    return rep


# ----------------------------------------------------------------------------------------------- STR
def _str_fields(ctx, c) -> dict[str, str]:
    """field -> 'str' | 'opt' | 'other' following repo bases"""
    out = {}
    for k in reversed(ctx.p.mro(c)):
        for f, (ann, _d) in k.fields.items():
            if ann is None:
                continue
            a = norm(ann)
            if a == "str":
                out[f] = "str"
            elif ann_optional(ann) and "str" in a:
                out[f] = "opt"
            else:
                out[f] = "other"
    return out


def _is_str_expr(ctx, fi, e, fields, depth=0) -> str:
    """'str' | 'maybe-none' | 'unknown'"""
    if depth > 8 or e is None:
        return "unknown"
    if isinstance(e, ast.Constant):
        return "str" if isinstance(e.value, str) else ("maybe-none" if e.value is None else "unknown")
    if isinstance(e, ast.JoinedStr):
        return "str"
    if isinstance(e, ast.Attribute) and isinstance(e.value, ast.Name) and e.value.id == "self":
        k = fields.get(e.attr)
        if k == "str":
            return "str"
        if k == "opt":
            return "maybe-none"
        # property of the class returning str
        if fi.cls is not None:
            p = ctx.p.find_method(fi.cls, e.attr)
            if p is not None and p.node.returns is not None and norm(p.node.returns) == "str":
                return "str"
        return "unknown"
    if isinstance(e, ast.Call):
        f = e.func
        if isinstance(f, ast.Attribute):
            if f.attr in ("strip", "lstrip", "rstrip", "lower", "upper", "replace", "title", "format", "join", "decode", "rjust", "ljust", "removeprefix", "removesuffix", "expandtabs", "sub"):
                if f.attr == "sub":
                    return "str"
                base = _is_str_expr(ctx, fi, f.value, fields, depth + 1)
                if f.attr == "join" or f.attr == "decode":
                    return "str"
                return "str" if base == "str" else ("maybe-none" if base == "maybe-none" else "unknown")
            if f.attr == "get" and len(e.args) == 2:
                d = _is_str_expr(ctx, fi, e.args[1], fields, depth + 1)
                return "str" if d == "str" else "unknown"
        d = dotted(f) or ""
        if d == "str":
            return "str"
        t = resolve_call(ctx.p, fi, e)
        for g in t.funcs:
            if g.node.returns is not None and norm(g.node.returns) == "str":
                return "str"
        return "unknown"
    if isinstance(e, ast.BinOp) and isinstance(e.op, ast.Add):
        a, b = _is_str_expr(ctx, fi, e.left, fields, depth + 1), _is_str_expr(ctx, fi, e.right, fields, depth + 1)
        if "maybe-none" in (a, b):
            return "maybe-none"
        return "str" if a == b == "str" else "unknown"
    if isinstance(e, ast.BoolOp) and isinstance(e.op, ast.Or):
        last = _is_str_expr(ctx, fi, e.values[-1], fields, depth + 1)
        return last
    if isinstance(e, ast.IfExp):
        a, b = _is_str_expr(ctx, fi, e.body, fields, depth + 1), _is_str_expr(ctx, fi, e.orelse, fields, depth + 1)
        if "maybe-none" in (a, b):
            return "maybe-none"
        return "str" if a == b == "str" else "unknown"
    if isinstance(e, ast.Name):
        # local assigned once
        vals = [n.value for n in walk_own(fi.node) if isinstance(n, ast.Assign) and any(isinstance(t, ast.Name) and t.id == e.id for t in n.targets)]
        augs = [n for n in walk_own(fi.node) if isinstance(n, ast.AugAssign) and isinstance(n.target, ast.Name) and n.target.id == e.id]
        if vals:
            kinds = {_is_str_expr(ctx, fi, v, fields, depth + 1) for v in vals}
            if kinds == {"str"}:
                return "str"
            if "maybe-none" in kinds:
                return "maybe-none"
        return "unknown"
    if isinstance(e, ast.Subscript):
        base = _is_str_expr(ctx, fi, e.value, fields, depth + 1)
        return "str" if base == "str" and isinstance(e.slice, ast.Slice) else "unknown"
    return "unknown"


_maybe_cache: dict = {}


def rule_str(ctx: Ctx) -> RuleReport:
    _maybe_cache.clear()
    rep = RuleReport("C04-STR", "text accessors return str; constructor sites never pass a possibly-None value to a str field")
    dt = ctx.p.module(DT)
    dcs = {c.name: c for c in dt.classes.values() if c.is_dataclass}
    # (a) accessors
    n_acc = 0
    for c in dcs.values():
        fields = _str_fields(ctx, c)
        for mname in TEXT_ACCESSORS:
            fi = c.methods.get(mname)
            if fi is None:
                continue
            n_acc += 1
            rets = [r for r in walk_own(fi.node) if isinstance(r, ast.Return)]
            for r in rets:
                k = _is_str_expr(ctx, fi, r.value, fields) if r.value is not None else "maybe-none"
                if k == "str":
                    rep.ok({"accessor": fi.qual, "returns": short(r.value, 50)})
                elif k == "maybe-none":
                    rep.fail(Finding("C04-STR", DT, fi.qual, norm(r), f"{fi.qual} can return None (`{short(r.value, 60) if r.value else 'bare return'}` involves an Optional field or None)", line=r.lineno))
                else:
                    rep.obligations += 1
                    rep.residual.append(f"{fi.qual}: `{short(r.value, 60)}` not proven to be str")
    if n_acc < 60:
        raise AnalysisError(f"C04-STR: only {n_acc} text accessors found")
    # (b) constructor sites
    # only the str fields that the class's own text accessors (and the properties they use) read
    fields_read = {}
    for c in dcs.values():
        strf = {f for f, k in _str_fields(ctx, c).items() if k == "str"}
        read = set()
        work = [c.methods[m] for m in TEXT_ACCESSORS if m in c.methods]
        seen = set()
        while work:
            mth = work.pop()
            if mth.key in seen:
                continue
            seen.add(mth.key)
            for n in walk_own(mth.node):
                if isinstance(n, ast.Attribute) and isinstance(n.value, ast.Name) and n.value.id == "self":
                    if n.attr in strf:
                        read.add(n.attr)
                    elif n.attr in c.methods:
                        work.append(c.methods[n.attr])
        fields_read[c.name] = read
    n_sites = 0
    for fi in ctx.p.all_functions():
        if fi.module.rel == DT or not fi.module.rel.startswith(X):
            continue
        sites = [c for c in calls_in(fi) if (dotted(c.func) or "").split(".")[-1] in dcs and c.keywords]
        if not sites:
            continue
        cfg = ctx.cfg(fi)
        from sa.engine.nullness import maybe_none_functions
        nl = Nullness(fi.node, cfg, maybe_funcs=_maybe_cache.setdefault(fi.module.rel, maybe_none_functions(ctx, fi.module.rel)) if True else None)
        for c in sites:
            cname = (dotted(c.func) or "").split(".")[-1]
            env = nl.env_at(c)
            for k in c.keywords:
                if k.arg in fields_read[cname]:
                    n_sites += 1
                    v = nl.expr(k.value, env)
                    if v == M:
                        rep.unit(fi.key)
                        rep.fail(Finding("C04-STR", fi.module.rel, fi.qual, f"{cname}({k.arg}={norm(k.value)})", f"`{norm(k.value)}` may be None here but {cname}.{k.arg} is declared `str`: a text accessor of the result then returns None or raises", line=c.lineno))
                    else:
                        rep.ok({"site": f"{fi.qual}: {cname}.{k.arg}", "non_null": True} if n_sites % 10 == 0 else None)
    if n_sites < 40:
        raise AnalysisError(f"C04-STR: only {n_sites} accessor-read str-field constructor arguments analysed (floor 40)")
    return rep


# ----------------------------------------------------------------------------------------------- CHR
SURR = (0xD800, 0xDFFF)


def rule_chr(ctx: Ctx) -> RuleReport:
    rep = RuleReport("C04-CHR", "text manufactured from integers / bytes is well-formed Unicode")
    n = 0
    for fi in list(ctx.p.all_functions()):
        if fi.module.rel.startswith("sharepoint2text/sharepoint_io/"):
            continue
        res = Resolver(ctx, fi)
        iv = Intervals(None, res)
        # include lambdas inside the function
        nodes = list(walk_own(fi.node))
        for lam in [x for x in nodes if isinstance(x, ast.Lambda)]:
            nodes += list(ast.walk(lam.body))
        for c in nodes:
            if isinstance(c, ast.Call) and isinstance(c.func, ast.Name) and c.func.id == "chr" and c.args:
                n += 1
                rep.unit(fi.key)
                arg = c.args[0]
                env = _local_env(fi, iv)
                val = _chr_interval(arg, env, iv)
                lo, hi = val
                if hi < SURR[0] or lo > SURR[1]:
                    rep.ok({"chr": f"{fi.qual}: {short(c, 50)}", "interval": [lo, hi]})
                    continue
                if lo == -float("inf") and hi == float("inf"):
                    # unanalysable argument: accept only known-safe idioms (glyph ids keyed as map keys, never emitted as text)
                    if "font_map[chr(" in norm(_stmt(fi.node, c)):
                        rep.obligations += 1
                        rep.residual.append(f"{fi.key}: `{short(c, 50)}` argument not analysable (used as a font-map key)")
                        continue
                if _passes_normaliser(fi, c):
                    rep.ok({"chr": f"{fi.qual}: {short(c, 50)}", "interval": [lo, hi], "normalised_by": "_combine_surrogates"})
                else:
                    rep.fail(Finding("C04-CHR", fi.module.rel, fi.qual, short(c), f"`{short(c, 50)}` can produce a lone surrogate (argument in [{lo}, {hi}]) and the text it goes into is not passed through a surrogate normaliser: the result is not encodable as UTF-8", line=c.lineno))
    # module-level chr() (constant tables)
    for m in ctx.p.modules.values():
        for st in m.tree.body:
            if isinstance(st, (ast.FunctionDef, ast.ClassDef, ast.AsyncFunctionDef)):
                continue
            for c in ast.walk(st):
                if isinstance(c, ast.Call) and isinstance(c.func, ast.Name) and c.func.id == "chr":
                    n += 1
                    gens = [g for g in ast.walk(st) if isinstance(g, ast.comprehension)]
                    ok = any(isinstance(g.iter, ast.Call) and dotted(g.iter.func) == "range" and all(isinstance(a, ast.Constant) and a.value < SURR[0] for a in g.iter.args) for g in gens)
                    if ok:
                        rep.ok({"chr": f"{m.rel}: {short(st, 50)}", "range": "below the surrogate block"})
                    else:
                        rep.fail(Finding("C04-CHR", m.rel, "<module>", short(c), "module-level chr() over a range that is not provably outside the surrogate block", line=c.lineno))
    if n < 5:
        raise AnalysisError(f"C04-CHR: only {n} chr() sites found (floor 5)")
    # decode error handlers / literals
    for fi in ctx.p.all_functions():
        for c in calls_in(fi):
            if isinstance(c.func, ast.Attribute) and c.func.attr in ("decode", "encode"):
                errs = [k.value for k in c.keywords if k.arg == "errors"] + list(c.args[1:2])
                for e in errs:
                    if isinstance(e, ast.Constant) and e.value in ("surrogateescape",) and c.func.attr == "decode":
                        rep.fail(Finding("C04-CHR", fi.module.rel, fi.qual, short(c), "decode(..., 'surrogateescape') smuggles undecodable bytes into the text as lone surrogates", line=c.lineno))
                    if isinstance(e, ast.Constant) and e.value == "surrogatepass" and c.func.attr == "decode":
                        rep.fail(Finding("C04-CHR", fi.module.rel, fi.qual, short(c), "decode(..., 'surrogatepass') lets lone surrogates through", line=c.lineno))
    _declared_charset_decodes(ctx, rep)
    return rep


def _stmt(fn, node):
    best = None
    for st in ast.walk(fn):
        if isinstance(st, ast.stmt) and any(x is node for x in ast.walk(st)):
            if best is None or any(x is st for x in ast.walk(best)):
                best = st
    return best


def _local_env(fi, iv):
    return {}


def _chr_interval(arg, env, iv):
    """[lo, hi] of the chr() argument using the interval evaluator plus regex-group and fixed-width hex facts."""
    # int(<2 hex digits>, 16) / int(text[i+2:i+4], 16)
    if isinstance(arg, ast.Call) and dotted(arg.func) == "int" and len(arg.args) == 2 and isinstance(arg.args[1], ast.Constant) and arg.args[1].value == 16:
        w = Intervals._slice_width(arg.args[0])
        if w:
            return (0, 16**w - 1)
        g = arg.args[0]
        if isinstance(g, ast.Call) and isinstance(g.func, ast.Attribute) and g.func.attr == "group":
            # width of the group from the module's pattern is resolved by the caller's rule where needed; conservatively 2 hex digits for \\'hh
            return (0, 255) if _hex_escape_group(iv, g) else (-float("inf"), float("inf"))
    if isinstance(arg, ast.BinOp) and isinstance(arg.op, ast.BitAnd):
        for side in (arg.left, arg.right):
            if isinstance(side, ast.Constant) and isinstance(side.value, int):
                return (0, side.value)
    if isinstance(arg, ast.Constant) and isinstance(arg.value, int):
        return (arg.value, arg.value)
    v = iv.ev(arg, env)
    if v[0] == "abs":
        return (v[1], v[2])
    return (-float("inf"), float("inf"))


def _hex_escape_group(iv, g) -> bool:
    """m.group(1) of a module-level pattern whose first group is exactly two hex digits."""
    import re as _re

    res = iv.resolver
    if res is None:
        return False
    for name, node in res.m.assigns.items():
        if isinstance(node, ast.Call) and dotted(node.func) == "re.compile" and node.args:
            pat = res.ctx.folder.fold(res.m, node.args[0])
            if isinstance(pat, str) and _re.search(r"\(\[0-9a-fA-F\]\{2\}\)", pat) and "HEX" in name.upper():
                return True
    return False


SAFE_CODECS = {"utf-8", "utf8", "utf-16", "utf-16-le", "utf-16-be", "utf-32", "ascii", "latin-1", "latin1", "iso-8859-1", "cp1252", "cp1250", "cp1251", "cp437", "cp850", "mac_roman", "mac-roman"}


def _is_surrogate_sanitiser(e) -> bool:
    """`X.encode("utf-16-le", "surrogatepass").decode("utf-16-le", "replace")`: pairs are combined, lone surrogates replaced."""
    if not (isinstance(e, ast.Call) and isinstance(e.func, ast.Attribute) and e.func.attr == "decode"):
        return False
    inner = e.func.value
    if not (isinstance(inner, ast.Call) and isinstance(inner.func, ast.Attribute) and inner.func.attr == "encode"):
        return False
    consts = [a.value for c in (e, inner) for a in list(c.args) + [k.value for k in c.keywords] if isinstance(a, ast.Constant)]
    return "surrogatepass" in consts and "replace" in consts and any(str(x).startswith("utf-16") for x in consts)


SURROGATE_CODECS = {"utf_7", "unicode_escape", "raw_unicode_escape"}


def _cp_family_safe() -> bool:
    """No codec reachable under a name of the form cp<digits> decodes to lone surrogates (checked against the interpreter's alias table)."""
    import encodings.aliases as _al
    import re as _re

    return not any(_re.fullmatch(r"cp_?\d+", k) and v in SURROGATE_CODECS for k, v in _al.aliases.items())


def _codec_domain(ctx, m, fi, e, depth=0):
    """Every value the codec-name expression can take: a set of names, with "cp*" for f"cp{...}" (a code-page number); None = unknown."""
    if depth > 5 or e is None:
        return None
    v = ctx.folder.fold(m, e)
    if isinstance(v, str):
        return {v}
    if isinstance(v, (tuple, list)) and v and all(isinstance(y, str) for y in v):
        return set(v)
    if isinstance(e, ast.JoinedStr) and e.values and isinstance(e.values[0], ast.Constant) and str(e.values[0].value).lower() == "cp" and len(e.values) == 2:
        return {"cp*"}
    if isinstance(e, ast.IfExp):
        a, b = _codec_domain(ctx, m, fi, e.body, depth + 1), _codec_domain(ctx, m, fi, e.orelse, depth + 1)
        return a | b if a is not None and b is not None else None
    if isinstance(e, ast.BoolOp):
        parts = [_codec_domain(ctx, m, fi, x, depth + 1) for x in e.values]
        return set().union(*parts) if all(p is not None for p in parts) else None
    # codecs.lookup(E).name is the canonical name of E
    if isinstance(e, ast.Attribute) and e.attr == "name" and isinstance(e.value, ast.Call) and (dotted(e.value.func) or "") == "codecs.lookup" and e.value.args:
        return _codec_domain(ctx, m, fi, e.value.args[0], depth + 1)
    # helper(...) of the same module: its return values
    if isinstance(e, ast.Call) and isinstance(e.func, ast.Name) and e.func.id in m.functions and e.func.id != fi.name:
        g = m.functions[e.func.id]
        out = set()
        for r in [x for x in walk_own(g.node) if isinstance(x, ast.Return)]:
            d = _codec_domain(ctx, m, g, r.value, depth + 1)
            if d is None:
                return None
            out |= d
        return out or None
    # self.X where X is a property of the class: its return values
    if isinstance(e, ast.Attribute) and isinstance(e.value, ast.Name) and e.value.id == "self" and "." in fi.qual:
        cls = m.classes.get(fi.qual.split(".")[0])
        prop = cls.methods.get(e.attr) if cls else None
        if prop is not None and any((dotted(d) or "") == "property" for d in prop.node.decorator_list):
            out = set()
            for r in [x for x in walk_own(prop.node) if isinstance(x, ast.Return)]:
                d = _codec_domain(ctx, m, prop, r.value, depth + 1)
                if d is None:
                    return None
                out |= d
            return out or None
        return None
    if isinstance(e, ast.Name):
        params = [a.arg for a in fi.node.args.posonlyargs + fi.node.args.args + fi.node.args.kwonlyargs]
        vals = []
        for a in walk_own(fi.node):
            if isinstance(a, ast.Assign) and any(isinstance(t, ast.Name) and t.id == e.id for t in a.targets):
                vals.append(a.value)
            elif isinstance(a, ast.For) and isinstance(a.target, ast.Name) and a.target.id == e.id:
                vals.append(a.iter)
        if vals:
            out = set()
            for x in vals:
                d = _codec_domain(ctx, m, fi, x, depth + 1)
                if d is None:
                    return None
                out |= d
            return out
        if e.id in params:
            # every call site of the function in its module supplies the value
            idx = params.index(e.id)
            bound = "." in fi.qual and params and params[0] == "self"
            out, sites = set(), 0
            for g in m.functions.values():
                for c in ast.walk(g.node):
                    if not isinstance(c, ast.Call):
                        continue
                    d_ = dotted(c.func) or ""
                    if d_.split(".")[-1] != fi.name or (g is fi and False):
                        continue
                    k = idx - 1 if bound else idx
                    arg = c.args[k] if 0 <= k < len(c.args) else next((kw.value for kw in c.keywords if kw.arg == e.id), None)
                    if arg is None:
                        return None
                    # the argument is evaluated in the caller (a lambda's enclosing function is the caller)
                    d = _codec_domain(ctx, m, g, arg, depth + 1)
                    if d is None:
                        return None
                    out |= d
                    sites += 1
            return out if sites else None
    return None


def _declared_charset_decodes(ctx, rep):
    """A codec named by the document (meta charset, MIME charset, RFC 2047 word) may be one that decodes to lone surrogates (utf-7,
    unicode_escape, raw_unicode_escape): what it produced must pass the surrogate sanitiser before it becomes result text."""
    n = 0
    for m in ctx.p.modules.values():
        if "/tests/" in m.rel or not m.rel.startswith(X):
            continue
        helpers = {fi.qual for fi in m.functions.values() if any(isinstance(r, ast.Return) and r.value is not None and _is_surrogate_sanitiser(r.value) for r in walk_own(fi.node))}
        for fi in m.functions.values():
            for c in ast.walk(fi.node):
                if not (isinstance(c, ast.Call) and isinstance(c.func, ast.Attribute) and c.func.attr == "decode" and c.args):
                    continue
                codec = c.args[0]
                v = ctx.folder.fold(m, codec)
                if isinstance(v, str):
                    continue
                # every value the codec name can take
                domain = None
                if isinstance(codec, ast.Name):
                    vals = []
                    for a in walk_own(fi.node):
                        if isinstance(a, ast.Assign) and any(isinstance(t, ast.Name) and t.id == codec.id for t in a.targets):
                            vals.append(a.value)
                        elif isinstance(a, ast.For) and isinstance(a.target, ast.Name) and a.target.id == codec.id:
                            vals.append(a.iter)
                    flat = []
                    for x in vals:
                        f_ = ctx.folder.fold(m, x)
                        if isinstance(f_, str):
                            flat.append(f_)
                        elif isinstance(f_, (tuple, list)) and all(isinstance(y, str) for y in f_):
                            flat.extend(f_)
                        elif isinstance(x, ast.IfExp) and isinstance(ctx.folder.fold(m, x.body), str) and isinstance(ctx.folder.fold(m, x.orelse), str):
                            flat += [ctx.folder.fold(m, x.body), ctx.folder.fold(m, x.orelse)]
                        else:
                            flat = None
                            break
                    if flat:
                        domain = set(flat)
                n += 1
                rep.unit(fi.key)
                if domain is None:
                    domain = _codec_domain(ctx, m, fi, codec)
                if domain is not None and "cp*" in domain and not _cp_family_safe():
                    domain = None
                if domain is not None and {d.lower() for d in domain} <= SAFE_CODECS | {"cp*"}:
                    rep.ok({"decode": f"{fi.qual}: {short(c, 50)}", "codec_in": sorted(domain)})
                    continue
                # the decoded value reaches a sanitiser in this function (assignment closure over locals)
                st = _stmt(fi.node, c)
                seeds = {t.id for t in (st.targets if isinstance(st, ast.Assign) else []) if isinstance(t, ast.Name)}
                if isinstance(st, ast.Expr) and isinstance(st.value, ast.Call) and isinstance(st.value.func, ast.Attribute) and st.value.func.attr == "append" and isinstance(st.value.func.value, ast.Name):
                    seeds.add(st.value.func.value.id)
                changed = True
                while changed:
                    changed = False
                    for a in walk_own(fi.node):
                        if isinstance(a, ast.Assign) and len(a.targets) == 1 and isinstance(a.targets[0], ast.Name) and a.targets[0].id not in seeds and any(isinstance(x, ast.Name) and x.id in seeds for x in ast.walk(a.value)):
                            seeds.add(a.targets[0].id)
                            changed = True
                clean = False
                conditional = None
                codec_names = {x.id for x in ast.walk(codec) if isinstance(x, ast.Name)}
                for x in ast.walk(fi.node):
                    hit = (_is_surrogate_sanitiser(x) and any(isinstance(y, ast.Name) and y.id in seeds for y in ast.walk(x))) or \
                          (isinstance(x, ast.Call) and (dotted(x.func) or "").split(".")[-1] in helpers and any(isinstance(y, ast.Name) and y.id in seeds for a in x.args for y in ast.walk(a)))
                    if not hit:
                        continue
                    clean = True
                    # the clean-up must not depend on how the document spells the codec: 'utf7', 'UTF_7', 'unicode-escape', 'csUnicode11UTF7'
                    # all name the same decoders (codecs.lookup normalises them); a membership test on the raw name lets the aliases through
                    conds, opaque, _ = path_conditions(fi.node, x)
                    for cnd in [str(q) for q in conds] + list(opaque):
                        if any(re.search(r"\b%s\b" % re.escape(v), cnd) for v in codec_names) and "codecs.lookup" not in cnd:
                            conditional = cnd
                if clean and conditional:
                    rep.fail(Finding("C04-CHR", m.rel, fi.qual, "surrogate clean-up only for some spellings of the codec: " + conditional[:80], f"the surrogate clean-up after `{short(c, 50)}` runs only when `{conditional}`: the decision is taken on the name as the document spells it, and the aliases of the same decoders ('utf7', 'UTF_7', 'unicode-escape', 'csUnicode11UTF7') skip it -- the text then holds lone surrogates and .encode('utf-8') raises", line=c.lineno))
                elif clean:
                    rep.ok({"decode": f"{fi.qual}: {short(c, 50)}", "codec": "declared by the document", "sanitised": True})
                else:
                    rep.fail(Finding("C04-CHR", m.rel, fi.qual, "declared charset decoded without surrogate clean-up: " + anorm(c, fi.node), f"`{short(c, 60)}` decodes with a codec the document names; utf-7 ('+2D0-'), unicode_escape and raw_unicode_escape decode to lone surrogates, and nothing replaces them before the text is returned: get_full_text().encode('utf-8') raises", line=c.lineno))
    if n < 6:
        raise AnalysisError(f"C04-CHR: only {n} decode sites with a computed codec name found (6 confirmed)")
    _sanitiser_integrity(ctx, rep)


def _covers_all_surrogates(test: ast.AST, param: str, ctx, m) -> bool:
    """`test` is true only if `param` holds no code point in U+D800..U+DFFF (so returning it unchanged is safe)."""
    t = test
    if not (isinstance(t, ast.UnaryOp) and isinstance(t.op, ast.Not)):
        # text.isascii()
        return isinstance(t, ast.Call) and isinstance(t.func, ast.Attribute) and t.func.attr == "isascii" and norm(t.func.value) == param
    t = t.operand
    # not any(LO <= ch <= HI for ch in text)
    if isinstance(t, ast.Call) and isinstance(t.func, ast.Name) and t.func.id == "any" and t.args and isinstance(t.args[0], ast.GeneratorExp):
        g = t.args[0]
        if len(g.generators) == 1 and norm(g.generators[0].iter) == param and isinstance(g.elt, ast.Compare) and len(g.elt.ops) == 2 and all(isinstance(o, ast.LtE) for o in g.elt.ops):
            lo, hi = g.elt.left, g.elt.comparators[1]
            if isinstance(lo, ast.Constant) and isinstance(hi, ast.Constant) and isinstance(lo.value, str) and isinstance(hi.value, str) and len(lo.value) == 1 and len(hi.value) == 1:
                return ord(lo.value) <= 0xD800 and ord(hi.value) >= 0xDFFF
        return False
    # not PATTERN.search(text) with PATTERN one character class
    if isinstance(t, ast.Call) and isinstance(t.func, ast.Attribute) and t.func.attr == "search" and t.args and norm(t.args[0]) == param and isinstance(t.func.value, ast.Name):
        node = m.assigns.get(t.func.value.id)
        pat = ctx.folder.fold(m, node.args[0]) if isinstance(node, ast.Call) and node.args else None
        if isinstance(pat, str):
            try:
                import re._parser as sp  # type: ignore

                items = list(sp.parse(pat))
            except Exception:
                return False
            if len(items) == 1 and str(items[0][0]) == "IN":
                covered = set()
                for o, v in items[0][1]:
                    if str(o) == "RANGE":
                        covered |= set(range(max(v[0], 0xD800), min(v[1], 0xDFFF) + 1))
                    elif str(o) == "LITERAL" and 0xD800 <= v <= 0xDFFF:
                        covered.add(v)
                return len(covered) == 0x800
    return False


def _sanitiser_integrity(ctx, rep):
    """A function that ends in the surrogate sanitiser may return its argument untouched only when it has tested that the argument holds
    no surrogate at all (high *and* low: a lone low surrogate is as unencodable as a lone high one)."""
    for m in ctx.p.modules.values():
        if "/tests/" in m.rel or not m.rel.startswith(X):
            continue
        for fi in m.functions.values():
            rets = [r for r in walk_own(fi.node) if isinstance(r, ast.Return) and r.value is not None]
            if not any(_is_surrogate_sanitiser(r.value) for r in rets) or not fi.node.args.args:
                continue
            params = {a.arg for a in fi.node.args.args}
            for r in rets:
                if _is_surrogate_sanitiser(r.value) or not (isinstance(r.value, ast.Name) and r.value.id in params):
                    continue
                decider = next((i for i in walk_own(fi.node) if isinstance(i, ast.If) and r in i.body), None)
                rep.unit(fi.key)
                if decider is not None and _covers_all_surrogates(decider.test, r.value.id, ctx, m):
                    rep.ok({"sanitiser": fi.qual, "fast_path_when": short(decider.test, 70)})
                else:
                    rep.fail(Finding("C04-CHR", m.rel, fi.qual, "fast path of the surrogate clean-up: " + (anorm(decider.test, fi.node) if decider is not None else "unconditional"),
                                     f"{fi.qual} returns its argument unchanged when `{short(decider.test, 60) if decider is not None else 'always'}`, which does not exclude every code point of U+D800..U+DFFF: a lone low surrogate (\\u-8704 in RTF) passes the clean-up and the text cannot be encoded as UTF-8", line=r.lineno))


def _passes_normaliser(fi, chr_call) -> bool:
    """The function that manufactures the character returns / stores only strings wrapped by `_combine_surrogates`."""
    top = fi
    while top.parent is not None:
        top = top.parent
    calls = [c for c in ast.walk(top.node) if isinstance(c, ast.Call) and (dotted(c.func) or "").endswith("_combine_surrogates")]
    if not calls:
        # a module-level helper that only builds the string: every call of it in the module is wrapped by the normaliser
        mod = top.module
        if "." in top.qual:
            return False
        sites = [(g, c) for g in mod.functions.values() if g is not top for c in ast.walk(g.node) if isinstance(c, ast.Call) and isinstance(c.func, ast.Name) and c.func.id == top.name]
        if not sites:
            return False
        for g, c in sites:
            wraps = [w for w in ast.walk(g.node) if isinstance(w, ast.Call) and (dotted(w.func) or "").endswith("_combine_surrogates") and any(x is c for a in w.args for x in ast.walk(a))]
            if not wraps:
                return False
        return True
    # direct wrap: _combine_surrogates(<expr containing the chr call>)
    for c in calls:
        if any(x is chr_call for x in ast.walk(c)):
            return True
    # list accumulation: every "".join(<list the char is appended to>) in the function is wrapped
    lists = set()
    st = _stmt(top.node, chr_call)
    tgt = st.targets[0].id if isinstance(st, ast.Assign) and isinstance(st.targets[0], ast.Name) else None
    if tgt is None:
        return False
    for a in ast.walk(top.node):
        if isinstance(a, ast.Call) and isinstance(a.func, ast.Attribute) and a.func.attr == "append" and a.args and isinstance(a.args[0], ast.Name) and a.args[0].id == tgt and isinstance(a.func.value, ast.Name):
            lists.add(a.func.value.id)
    if not lists:
        return False
    joins = [j for j in ast.walk(top.node) if isinstance(j, ast.Call) and isinstance(j.func, ast.Attribute) and j.func.attr == "join" and j.args and isinstance(j.args[0], ast.Name) and j.args[0].id in lists]
    if not joins:
        return False
    return all(any(any(x is j for x in ast.walk(c)) for c in calls) for j in joins)


# ----------------------------------------------------------------------------------------------- DIM / NUMPOS / BYTES / META
def rule_dim(ctx: Ctx) -> RuleReport:
    rep = RuleReport("C04-DIM", "get_dim equals the shape of get_table")
    for c in implementers(ctx, "TableInterface"):
        gt, gd = ctx.p.find_method(c, "get_table"), ctx.p.find_method(c, "get_dim")
        if gt is None or gd is None:
            continue
        rep.unit(c.key)
        rets = [r for r in walk_own(gt.node) if isinstance(r, ast.Return) and r.value is not None]
        if len(rets) != 1:
            rep.obligations += 1
            rep.residual.append(f"{gt.qual}: several returns; shape agreement not checked")
            continue
        T = norm(rets[0].value)
        defs = {norm(n.targets[0]): norm(n.value) for n in walk_own(gd.node) if isinstance(n, ast.Assign) and len(n.targets) == 1}
        ret = [r for r in walk_own(gd.node) if isinstance(r, ast.Return) and r.value is not None]
        txt = norm(ret[0].value) if ret else ""
        # the comprehension variable of the column maximum is spelled `row` whatever the source calls it
        if ret:
            comp_vars = {g.target.id for n in ast.walk(gd.node) if isinstance(n, (ast.GeneratorExp, ast.ListComp)) for g in n.generators if isinstance(g.target, ast.Name)}
            import re as _re
            for cv in comp_vars:
                txt = _re.sub(rf"\b{_re.escape(cv)}\b", "row", txt)
                defs = {k: _re.sub(rf"\b{_re.escape(cv)}\b", "row", v) for k, v in defs.items()}
        for k, v in defs.items():
            txt = txt.replace(f"rows={k}", f"rows={v}").replace(f"columns={k}", f"columns={v}")
        calls_table = "self.get_table()" in txt or any("self.get_table()" in v for v in defs.values())
        Tn = "self.get_table()" if calls_table and T not in txt else T
        for k, v in defs.items():
            if v == "self.get_table()":
                txt = txt.replace(k, "self.get_table()")
                Tn = "self.get_table()"
        want_rows = f"rows=len({Tn})"
        want_cols = f"columns=max((len(row) for row in {Tn}), default=0)"
        if want_rows in txt and want_cols in txt:
            rep.ok({"class": c.name, "get_dim": f"(len(T), max(len(row) for row in T, default=0)) over T = {Tn}"})
        else:
            rep.fail(Finding("C04-DIM", DT, gd.qual, txt[:160], f"{c.name}.get_dim is not (len(T), max(len(row) for row in T, default=0)) over the table that get_table returns (`{T}`): for ragged or empty tables the reported shape differs from the data", line=gd.node.lineno))
    return rep


def rule_numpos(ctx: Ctx) -> RuleReport:
    from sa.rules.c14 import rule_pair

    rep = rule_pair(ctx)
    rep.rule = "C04-NUMPOS"
    rep.description = "image numbers are positive: every record carries the running counter and counters / records agree on every path"
    for f in rep.findings:
        f.rule = "C04-NUMPOS"
    return rep


def rule_bytes(ctx: Ctx) -> RuleReport:
    from sa.rules.c14 import rule_bytes as rb

    rep = rb(ctx)
    rep.rule = "C04-BYTES"
    for f in rep.findings:
        f.rule = "C04-BYTES"
    return rep


def rule_meta(ctx: Ctx) -> RuleReport:
    rep = RuleReport("C04-META", "file metadata is populated from the path before any result is yielded; None path leaves everything None")
    pf = ctx.p.func(DT, "FileMetadataInterface.populate_from_path")
    first = [s for s in pf.node.body if not is_noise(s)][0]
    if isinstance(first, ast.If) and norm(first.test) == "path is None" and isinstance(first.body[-1], ast.Return):
        rep.ok({"populate_from_path": "returns first when path is None"})
    else:
        rep.fail(Finding("C04-META", DT, pf.qual, norm(first)[:80], "populate_from_path does not return before touching the fields when path is None", line=pf.node.lineno))
    assigns = {norm(n.targets[0]): anorm(n.value, pf.node) for n in walk_own(pf.node) if isinstance(n, ast.Assign)}
    # the local Path object is v0 whatever it is called
    for fld, want in (("self.filename", "v0.name"), ("self.file_extension", "v0.suffix")):
        if assigns.get(fld) == want:
            rep.ok({fld: want})
        else:
            rep.fail(Finding("C04-META", DT, pf.qual, f"{fld} = {assigns.get(fld)}", f"{fld} is not derived as {want}", line=pf.node.lineno))
    for fld in ("self.file_path", "self.folder_path"):
        if fld in assigns:
            rep.ok()
        else:
            rep.fail(Finding("C04-META", DT, pf.qual, fld, f"{fld} is no longer populated", line=pf.node.lineno))
    for key, fi in sorted(extractor_entries(ctx).items()):
        rep.unit(key)
        if fi.qual == "read_archive":
            rep.ok({"read_archive": "results come from the member extractors"})
            continue
        cfg = ctx.cfg(fi)
        ys = [y for y in walk_own(fi.node) if isinstance(y, ast.Yield) and y.value is not None]
        yfs = [y for y in walk_own(fi.node) if isinstance(y, ast.YieldFrom)]
        pops = [c for c in calls_in(fi) if isinstance(c.func, ast.Attribute) and c.func.attr == "populate_from_path" and c.args and norm(c.args[0]) == "path"]
        # one level of summary: helpers that receive `path` and call populate_from_path(path)
        helper_calls = []
        for c in calls_in(fi):
            if any(isinstance(a, ast.Name) and a.id == "path" for a in list(c.args) + [k.value for k in c.keywords]):
                t = resolve_call(ctx.p, fi, c)
                callees = list(t.funcs)
                if t.klass is not None:
                    callees += [m for m in t.klass.methods.values()]
                for g in callees:
                    if any(isinstance(x.func, ast.Attribute) and x.func.attr == "populate_from_path" for x in calls_in(g)) or any(
                        any(isinstance(x.func, ast.Attribute) and x.func.attr == "populate_from_path" for x in calls_in(h)) for c2 in calls_in(g) for h in resolve_call(ctx.p, g, c2).funcs):
                        helper_calls.append(c)
        anchors = [x for c in pops + helper_calls for x in cfg.evaluators(c)]
        # `if path:`-guarded population (mail extractors): the guard test counts as the anchor
        for n in walk_own(fi.node):
            if isinstance(n, ast.If) and norm(n.test) in ("path", "path is not None") and any(isinstance(c, ast.Call) and isinstance(c.func, ast.Attribute) and c.func.attr == "populate_from_path" for st in n.body for c in ast.walk(st)):
                anchors += cfg.evaluators(n.test)
        if not ys and yfs:
            # delegating extractors (mhtml -> read_html(path=path); mail -> helper(path))
            ok = all(any(isinstance(a, ast.Name) and a.id == "path" for a in list(y.value.args) + [k.value for k in y.value.keywords]) for y in yfs if isinstance(y.value, ast.Call))
            if ok:
                rep.ok({"extractor": fi.qual, "delegates_with_path": True})
            else:
                rep.fail(Finding("C04-META", fi.module.rel, fi.qual, short(yfs[0]), "results are delegated without the path: file metadata stays empty", line=yfs[0].lineno))
            continue
        for y in ys:
            # results produced by a delegate called with path are fine (for result in read_html(buffer, path=path): yield result)
            loop_deleg = False
            for l in walk_own(fi.node):
                if isinstance(l, ast.For) and any(x is y for x in ast.walk(l)) and isinstance(l.iter, ast.Call) and any(isinstance(a, ast.Name) and a.id == "path" for a in list(l.iter.args) + [k.value for k in l.iter.keywords]):
                    loop_deleg = True
            if loop_deleg:
                rep.ok({"extractor": fi.qual, "yield": "results of a delegate that received the path"})
                continue
            if anchors and all(normally_dominates(cfg, anchors, b) for b in cfg.evaluators(y)):
                rep.ok({"extractor": fi.qual, "yield": short(y, 40), "dominated_by": "populate_from_path(path)"})
            else:
                rep.fail(Finding("C04-META", fi.module.rel, fi.qual, short(y), f"`{short(y, 50)}` can be reached without populate_from_path(path): filename / extension / folder of the result stay None although a path was given", line=y.lineno))
    return rep


def _is_elem_find(ctx, mod, c) -> bool:
    """`X.find(<tag path>[, namespaces])` of ElementTree (str.find takes a plain substring and returns an int)."""
    if not (isinstance(c, ast.Call) and isinstance(c.func, ast.Attribute) and c.func.attr == "find" and c.args):
        return False
    v = ctx.folder.fold(mod, c.args[0])
    if isinstance(v, str) and (":" in v or "{" in v or "/" in v):
        return True
    return len(c.args) >= 2 or any(k.arg == "namespaces" for k in c.keywords)


def rule_same(ctx: Ctx) -> RuleReport:
    """'Textual document properties stored in the file are reported unchanged': sibling fields filled from one reader helper are
    all filled the same way (a field whose value passes through an extra transformation is the deviant)."""
    rep = RuleReport("C04-SAME", "metadata fields that are filled from one reader helper are all assigned the helper's result itself (no field is rewritten on the way)")
    n_groups = 0
    for m in ctx.p.modules.values():
        if "/tests/" in m.rel or not m.rel.startswith(X):
            continue
        for fi in m.functions.values():
            groups = {}
            for a in walk_own(fi.node):
                if isinstance(a, ast.Assign) and len(a.targets) == 1 and isinstance(a.targets[0], ast.Attribute) and "metadata" in norm(a.targets[0].value):
                    calls = [c for c in ast.walk(a.value) if isinstance(c, ast.Call) and isinstance(c.func, ast.Name) and len(c.args) == 1 and isinstance(c.args[0], ast.Constant) and isinstance(c.args[0].value, str)]
                    for c in calls:
                        groups.setdefault(c.func.id, []).append((a, c))
            for helper, sites in groups.items():
                if len(sites) < 5:
                    continue
                n_groups += 1
                rep.unit(fi.key)
                for a, c in sites:
                    if a.value is c:
                        rep.ok({"field": norm(a.targets[0]), "value": norm(c)})
                    else:
                        rep.fail(Finding("C04-SAME", m.rel, fi.qual, f"{a.targets[0].attr} rewritten: " + anorm(a.value, fi.node)[:80], f"`{short(a, 80)}` rewrites what {helper}() read from the file while the {len(sites) - 1} sibling fields report it as stored: the property is not reported unchanged (a description such as 'pressures < 1 bar, temperatures > 300 K' loses the part between the angle brackets)", line=a.lineno))
    if n_groups < 1:
        raise AnalysisError("C04-SAME: no group of sibling metadata assignments found (the EPUB Dublin Core block was confirmed)")
    return rep


def rule_truth(ctx: Ctx) -> RuleReport:
    """An Element is false when it has no children: `find(a) or find(b)` and `if elem:` silently discard leaf elements (dc:creator, dc:title, ...)."""
    rep = RuleReport("C04-TRUTH", "the result of Element.find is compared with None, never truth-tested (a childless element is falsy, so a stored property would be replaced or dropped)")
    for m in ctx.p.modules.values():
        if "/tests/" in m.rel:
            continue
        for fi in m.functions.values():
            ev = {}
            direct = []
            for a in walk_own(fi.node):
                if isinstance(a, ast.Assign) and len(a.targets) == 1 and isinstance(a.targets[0], ast.Name):
                    ev.setdefault(a.targets[0].id, []).append(_is_elem_find(ctx, m, a.value))
                if isinstance(a, ast.Call) and _is_elem_find(ctx, m, a):
                    direct.append(a)
            elemvars = {k for k, v in ev.items() if v and all(v)}
            if not elemvars and not direct:
                continue
            rep.unit(fi.key)
            tests = []
            for x in walk_own(fi.node):
                if isinstance(x, (ast.If, ast.While, ast.IfExp)):
                    tests.append(x.test)
                elif isinstance(x, ast.BoolOp):
                    tests.extend(x.values)
                elif isinstance(x, ast.UnaryOp) and isinstance(x.op, ast.Not):
                    tests.append(x.operand)
                elif isinstance(x, ast.comprehension):
                    tests.extend(x.ifs)
                elif isinstance(x, ast.Assert):
                    tests.append(x.test)
            bad = [t for t in tests if (isinstance(t, ast.Name) and t.id in elemvars) or _is_elem_find(ctx, m, t)]
            seen = set()
            for t in bad:
                k = anorm(t, fi.node)
                if k in seen:
                    continue
                seen.add(k)
                rep.fail(Finding("C04-TRUTH", m.rel, fi.qual, "truth value of " + k, f"`{short(t, 60)}` is used as a truth value: an Element without children is false, so an element that is present (a leaf such as dc:creator with its text) counts as missing and its value is replaced or dropped", line=t.lineno))
            for _ in range(max(0, len(direct) - len(bad))):
                rep.ok()
    return rep


# ----------------------------------------------------------------------------------------------- PROP
OLE_READERS = [X + "ms_legacy/doc_extractor.py", X + "ms_legacy/ppt_extractor.py", X + "ms_legacy/xls_extractor.py"]


def rule_prop(ctx: Ctx) -> RuleReport:
    """[MS-OLEPS]: VT_LPSTR property values are bytes in the code page that property 1 of the set declares; olefile returns them undecoded."""
    rep = RuleReport("C04-PROP", "string properties of the OLE summary streams are decoded with the code page of their property set (never a fixed codec, never strictly): "
                     "a Windows-1252 author is reported unchanged and cannot fail the extraction")
    n = 0
    for rel in OLE_READERS:
        m = ctx.p.module(rel)
        for fi in m.functions.values():
            if fi.parent is not None:
                continue
            metas = {a.targets[0].id for a in walk_own(fi.node) if isinstance(a, ast.Assign) and len(a.targets) == 1 and isinstance(a.targets[0], ast.Name) and isinstance(a.value, ast.Call)
                     and isinstance(a.value.func, ast.Attribute) and a.value.func.attr == "get_metadata" and not (isinstance(a.value.func.value, ast.Name) and a.value.func.value.id == "self" and False)}
            metas = {v for v in metas if any(isinstance(x, ast.Attribute) and isinstance(x.value, ast.Name) and x.value.id == v and x.attr in ("title", "author", "subject") for x in ast.walk(fi.node))
                     or any(isinstance(x, ast.Call) and isinstance(x.func, ast.Name) and x.func.id == "getattr" and x.args and isinstance(x.args[0], ast.Name) and x.args[0].id == v for x in ast.walk(fi.node))}
            if not metas:
                continue
            n += 1
            rep.unit(fi.key)
            # every decode inside the function (nested helpers and lambdas included)
            decs = [c for c in ast.walk(fi.node) if isinstance(c, ast.Call) and isinstance(c.func, ast.Attribute) and c.func.attr == "decode"]
            for c in decs:
                codec = ctx.folder.fold(m, c.args[0]) if c.args else "utf-8"
                strict = not any(k.arg == "errors" for k in c.keywords) and len(c.args) < 2
                rep.fail(Finding("C04-PROP", rel, fi.qual, f"property bytes decoded as {codec if isinstance(codec, str) else 'a computed codec'}" + (" (strict)" if strict else ""),
                                 f"`{short(c, 50)}` decodes a summary-stream string with a fixed codec; the bytes are in the code page the property set declares (1252 for Western Office files): "
                                 f"author 'T\\xf6by' becomes 'T\\ufffdby'" + (", and the strict decode raises UnicodeDecodeError, which loses the whole document" if strict else ""), line=c.lineno))
            helper = [c for c in ast.walk(fi.node) if isinstance(c, ast.Call) and isinstance(c.func, ast.Name) and c.func.id == "decode_ole_string"]
            for c in helper:
                cp = c.args[1] if len(c.args) > 1 else next((k.value for k in c.keywords if k.arg == "codepage"), None)
                # the code page argument is read from the metadata object (directly or through a local / conditional of locals)
                names = {x.id for x in ast.walk(cp) if isinstance(x, ast.Name)} if cp is not None else set()
                srcs = [a.value for a in ast.walk(fi.node) if isinstance(a, ast.Assign) and any(isinstance(t, ast.Name) and t.id in names for t in a.targets)]
                from_meta = cp is not None and any(isinstance(x, ast.Constant) and isinstance(x.value, str) and x.value.startswith("codepage") for s_ in srcs + [cp] for x in ast.walk(s_)) or \
                    any(isinstance(x, ast.Attribute) and x.attr.startswith("codepage") for s_ in srcs + ([cp] if cp is not None else []) for x in ast.walk(s_))
                if from_meta:
                    rep.ok({"reader": fi.qual, "decode": short(c, 60), "codepage": "of the property set"})
                else:
                    rep.fail(Finding("C04-PROP", rel, fi.qual, "code page not taken from the property set: " + anorm(c, fi.node), f"`{short(c, 60)}` is not given the code page stored in the metadata object (meta.codepage / meta.codepage_doc)", line=c.lineno))
            if not decs and not helper:
                rep.fail(Finding("C04-PROP", rel, fi.qual, "property strings not decoded", "the string properties returned by olefile (bytes) are used without decoding", line=fi.node.lineno))
    if n < 3:
        raise AnalysisError(f"C04-PROP: only {n} OLE metadata readers found (doc, ppt, xls confirmed)")
    # repeatable properties: ODF stores one meta:keyword per keyword (ODF 1.2 part 1, 4.3.2.7), Dublin Core elements of an OPF are repeatable
    # (one dc:creator per author); find() reports the first only
    REPEATABLE = [(X + "open_office/_shared.py", "extract_odf_metadata", {"meta:keyword"}), (X + "epub_extractor.py", None, {"creator", "subject", "contributor"})]
    for rel, fname, names in REPEATABLE:
        mm = ctx.p.module(rel)
        fns = [f for f in mm.functions.values() if (fname is None or f.name == fname) and f.parent is None]
        seen_names: set[str] = set()
        for f in fns:
            # local helpers that look at the first match only
            # the helpers a lookup goes through: closures of f, module-level functions it calls, and either of them bound with functools.partial
            helpers = {g.name: g.node for g in mm.functions.values() if g.parent is f}
            helpers.update({g.name: g.node for g in mm.functions.values() if g.parent is None and g.cls is None and g is not f and any(isinstance(c, ast.Call) and isinstance(c.func, ast.Name) and c.func.id == g.name for c in ast.walk(f.node))})
            for a in walk_own(f.node):
                if isinstance(a, ast.Assign) and len(a.targets) == 1 and isinstance(a.targets[0], ast.Name) and isinstance(a.value, ast.Call) and (dotted(a.value.func) or "").split(".")[-1] == "partial" and a.value.args \
                        and isinstance(a.value.args[0], ast.Name) and a.value.args[0].id in mm.functions:
                    helpers[a.targets[0].id] = mm.functions[a.value.args[0].id].node
            first_only = {nm for nm, nd in helpers.items() if any(isinstance(c, ast.Call) and isinstance(c.func, ast.Attribute) and c.func.attr == "find" for c in ast.walk(nd))
                          and not any(isinstance(c, ast.Call) and isinstance(c.func, ast.Attribute) and c.func.attr in ("findall", "iter", "iterfind") for c in ast.walk(nd))}
            for c in ast.walk(f.node):
                if not isinstance(c, ast.Call):
                    continue
                lit = [a.value for a in c.args if isinstance(a, ast.Constant) and isinstance(a.value, str)]
                hit = [x for x in lit if x in names or x.split(":")[-1] in {y.split(":")[-1] for y in names} and (":" in x) == any(":" in y for y in names)]
                if not hit:
                    continue
                is_find = isinstance(c.func, ast.Attribute) and c.func.attr in ("find", "findtext")
                is_first_helper = isinstance(c.func, ast.Name) and c.func.id in first_only
                is_all = (isinstance(c.func, ast.Attribute) and c.func.attr in ("findall", "iter", "iterfind")) or (isinstance(c.func, ast.Name) and not is_first_helper and c.func.id in helpers)
                for x in hit:
                    if is_find or is_first_helper:
                        rep.fail(Finding("C04-PROP", rel, f.qual, f"first {x} only", f"`{short(c, 50)}` reports the first `{x}` element only; the property is repeatable (one element per keyword / author / subject), the others are lost", line=c.lineno))
                        seen_names.add(x)
                    elif is_all:
                        rep.ok({"repeatable": x, "collected_with": short(c, 50)})
                        seen_names.add(x)
        want = {y.split(":")[-1] for y in names}
        if not {y.split(":")[-1] for y in seen_names} >= want:
            raise AnalysisError(f"C04-PROP: lookups of {sorted(want - {y.split(':')[-1] for y in seen_names})} not found in {rel}")
    # the shared decoder: codec derived from the code page, never strict
    um = ctx.p.by_rel.get(X + "util/ole_metadata.py")
    dec = um.functions.get("decode_ole_string") if um is not None else None
    if dec is None:
        # no shared decoder: the readers decode by themselves and were judged above
        if not rep.findings:
            raise AnalysisError("C04-PROP: decode_ole_string vanished and no reader decodes property strings itself")
        return rep
    rep.unit(dec.key)
    for c in [x for x in ast.walk(dec.node) if isinstance(x, ast.Call) and isinstance(x.func, ast.Attribute) and x.func.attr == "decode"]:
        dom = _codec_domain(ctx, um, dec, c.args[0]) if c.args else None
        lossy = any(k.arg == "errors" for k in c.keywords) or len(c.args) > 1
        if dom is not None and "cp*" in dom and lossy:
            rep.ok({"decode_ole_string": short(c, 60), "codec_in": sorted(dom), "strict": False})
        else:
            rep.fail(Finding("C04-PROP", um.rel, dec.qual, "decoder: " + anorm(c, dec.node), f"`{short(c, 60)}` does not decode with the declared code page (codec in {sorted(dom) if dom else '?'}) or decodes strictly (a byte outside the code page would fail the document)", line=c.lineno))
    return rep


RULES = [rule_iface, rule_str, rule_chr, rule_bytes, rule_dim, rule_numpos, rule_meta, rule_truth, rule_same, rule_prop]
