"""Facts shared by several rule families (entry points, exception family, result classes)."""
from __future__ import annotations

import ast

from sa.engine.consts import UNKNOWN
from sa.engine.context import Ctx
from sa.engine.loader import AnalysisError, ClassInfo, FuncInfo, dotted, walk_own

ROUTER = "sharepoint2text/parsing/router.py"
EXC = "sharepoint2text/parsing/exceptions.py"
DT = "sharepoint2text/parsing/extractors/data_types.py"
INIT = "sharepoint2text/__init__.py"
CLI = "sharepoint2text/cli.py"
X = "sharepoint2text/parsing/extractors/"


def extractor_entries(ctx: Ctx) -> dict[str, FuncInfo]:
    """Distinct extractor functions named by the folded registry: function name -> FuncInfo."""
    reg = ctx.const(ROUTER, "_EXTRACTOR_REGISTRY")
    if reg is UNKNOWN or not isinstance(reg, dict):
        raise AnalysisError("router._EXTRACTOR_REGISTRY is no longer a foldable literal")
    out: dict[str, FuncInfo] = {}
    for k, v in reg.items():
        if not (isinstance(v, tuple) and len(v) == 2):
            raise AnalysisError(f"registry value for {k!r} is not a pair")
        mod = ctx.p.modules.get(v[0])
        fi = mod.functions.get(v[1]) if mod else None
        if fi is None:
            raise AnalysisError(f"registry target {v[0]}.{v[1]} does not resolve (C07 reports this as a violation)")
        out[fi.key] = fi
    if len(out) < 21:
        raise AnalysisError(f"only {len(out)} extractor entry points resolved from the registry (floor 21)")
    return out


def exception_family(ctx: Ctx, root: str = "ExtractionError", rel: str = EXC) -> set[str]:
    m = ctx.p.module(rel)
    if root not in m.classes:
        raise AnalysisError(f"{root} vanished from {rel}")
    fam = {root}
    changed = True
    while changed:
        changed = False
        for c in m.classes.values():
            if c.name not in fam and any(b.split(".")[-1] in fam for b in c.bases):
                fam.add(c.name)
                changed = True
    return fam


def implementers(ctx: Ctx, iface: str) -> list[ClassInfo]:
    """Dataclasses in data_types.py that list `iface` among their (transitive, in-repo) bases."""
    m = ctx.p.module(DT)
    return [c for c in m.classes.values() if c.name != iface and iface in ctx.p.base_names(c)]


def raises_in(fn_node: ast.AST):
    for n in walk_own(fn_node):
        if isinstance(n, ast.Raise):
            yield n


def raised_class(r: ast.Raise) -> str | None:
    e = r.exc
    if e is None:
        return None
    if isinstance(e, ast.Call):
        e = e.func
    d = dotted(e)
    return d.split(".")[-1] if d else None


def stmt_of(fn_node: ast.AST, expr: ast.AST) -> ast.AST | None:
    """The innermost statement of fn_node that contains expr."""
    best = None
    for st in ast.walk(fn_node):
        if isinstance(st, ast.stmt):
            for n in ast.walk(st):
                if n is expr:
                    if best is None or _depth_contains(best, st):
                        best = st
                    break
    return best


def _depth_contains(outer: ast.AST, inner: ast.AST) -> bool:
    for n in ast.walk(outer):
        if n is inner:
            return True
    return False


def transcode_chains(fn_node: ast.AST) -> list[ast.Call]:
    """`.encode(...)` calls whose receiver is the result of a `.decode(...)` (directly or through one local): bytes -> str -> bytes."""
    from sa.engine.loader import walk_own

    decoded = set()
    for n in walk_own(fn_node):
        if isinstance(n, ast.Assign) and len(n.targets) == 1 and isinstance(n.targets[0], ast.Name):
            v = n.value
            if isinstance(v, ast.Call) and isinstance(v.func, ast.Attribute) and v.func.attr == "decode" and not (isinstance(v.func.value, ast.Name) and v.func.value.id in ("base64", "quopri", "binascii", "codecs")):
                decoded.add(n.targets[0].id)
    out = []
    for c in ast.walk(fn_node):
        if isinstance(c, ast.Call) and isinstance(c.func, ast.Attribute) and c.func.attr == "encode":
            r = c.func.value
            if (isinstance(r, ast.Call) and isinstance(r.func, ast.Attribute) and r.func.attr == "decode" and not (isinstance(r.func.value, ast.Name) and r.func.value.id in ("base64", "quopri", "binascii", "codecs"))) or (isinstance(r, ast.Name) and r.id in decoded):
                out.append(c)
    return out


def constants_of(ctx: Ctx, fi: FuncInfo, kinds=(str,)) -> set:
    """The constants a function works with, however they are spelled: the literals in its body, and the folded values of the module-level
    names it reads (a tuple / set / list / dict of constants contributes its elements) -- `"Workbook"` in the body and
    `_XLS_STREAMS = ("Workbook", "Book")` at module level are the same thing to a rule."""
    out = set()

    def add(v, depth=0):
        if isinstance(v, kinds):
            out.add(v)
        elif isinstance(v, (tuple, list, set, frozenset)) and depth < 3:
            for x in v:
                add(x, depth + 1)
        elif isinstance(v, dict) and depth < 3:
            for k, x in v.items():
                add(k, depth + 1)
                add(x, depth + 1)

    local = {n.id for n in ast.walk(fi.node) if isinstance(n, ast.Name) and isinstance(n.ctx, ast.Store)} | {a.arg for a in ast.walk(fi.node) if isinstance(a, ast.arg)}
    for n in walk_own(fi.node):
        if isinstance(n, ast.Constant):
            add(n.value)
        elif isinstance(n, ast.Name) and isinstance(n.ctx, ast.Load) and n.id not in local:
            v = ctx.folder.fold(fi.module, n)
            if v is not UNKNOWN:
                add(v)
    return out


def with_constants(ctx: Ctx, fi: FuncInfo, node: ast.AST) -> ast.AST:
    """A copy of `node` in which the module-level names that fold to a number, string or bytes are replaced by that value: `> 100` and
    `> _EMPTY_REPEAT_CAP` (with `_EMPTY_REPEAT_CAP = 100` at module level) read the same."""
    import copy

    local = {n.id for n in ast.walk(fi.node) if isinstance(n, ast.Name) and isinstance(n.ctx, ast.Store)} | {a.arg for a in ast.walk(fi.node) if isinstance(a, ast.arg)}
    folder, module = ctx.folder, fi.module

    class Put(ast.NodeTransformer):
        def visit_Name(self, n):
            if isinstance(n.ctx, ast.Load) and n.id not in local:
                v = folder.fold(module, n)
                if v is not UNKNOWN and isinstance(v, (int, float, str, bytes)) and not isinstance(v, bool):
                    return ast.copy_location(ast.Constant(value=v), n)
            return n

    return Put().visit(copy.deepcopy(node))
