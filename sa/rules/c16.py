"""C16 — e-mail: headers, bodies, attachments and mailbox boundaries (the structural part)."""
from __future__ import annotations

import ast
import re

from sa.engine.callgraph import calls_in, resolve_call
from sa.engine.consts import UNKNOWN
from sa.engine.context import Ctx
from sa.engine.guards import path_conditions
from sa.engine.loader import AnalysisError, anorm, dotted, is_noise, local_names, norm, short, walk_own
from sa.engine.report import Finding, RuleReport
from sa.rules.common import DT, X

EXPLANATION = (
    "Header decoding, address parsing and body selection are value level (they are delegated to email / mailparser / "
    "extract_msg) and are not decided. Decided: (SIB) the three mail extractors are implementations of one role: each "
    "constructs EmailContent with a non-constant value for every field the property names (sender, recipients, subject, both "
    "bodies, attachments, metadata with date and message id). (ATT) in each attachment collection loop every element of the "
    "source sequence is appended on every path, except the skip conditions confirmed by reading (multipart containers and "
    "parts that are neither named nor declared attachments in MIME; an unreadable data stream in MSG); payloads are taken "
    "with the transfer encoding undone (get_payload(decode=True) / base64 for mailparser's binary flag). (ORDER) RFC 2047 "
    "decoding is applied to display names after the address list has been split: nothing derived from a header decoder "
    "reaches email.utils.getaddresses / parseaddr (a decoded name may contain commas, quotes and angle brackets). (SEP) the "
    "mailbox separator pattern, folded from the source, is evaluated over the finite table of boundary contexts {start of "
    "file, after a blank line, after a message body} x {LF, CRLF} x {separator line, quoted '>From', 'From' in mid line}: it matches "
    "exactly at line starts in both conventions. (ROUTE) iterate_supported_attachments chooses the extractor by attachment "
    "name first and by MIME type second, isolates each attachment in its own try, and rewinds the stream before and after. (BYTES) no bytes -> str -> bytes chain in a function that builds EmailAttachment (an attachment is a file; only the transfer encoding is undone); header text is not rebuilt with email.header.make_header, whose Header.__str__ inserts spaces between charset chunks."
)
NOT_DECIDED = ["decoded header / address / body values", "date conversion", "charset fallbacks", "that mailparser and the stdlib parser agree on a given message",
               "attachments whose MIME type is generic (application/octet-stream) are skipped although their name is supported (is_supported_mime_type gate, documented behaviour)"]
TRUSTED = ["email.message.Message.walk / get_payload(decode=True) / get_filename, mailparser's attachment dictionaries, re module semantics"]
FLOORS = {"C16-SIB": 27, "C16-ATT": 6, "C16-ORDER": 2, "C16-SEP": 36, "C16-ROUTE": 5, "C16-BYTES": 8, "C16-POST": 1}

EML = X + "mail/eml_email_extractor.py"
MBOX = X + "mail/mbox_email_extractor.py"
MSG = X + "mail/msg_email_extractor.py"
SITES = [(EML, "_read_eml_format"), (MBOX, "parse_email_message"), (MSG, "read_msg_format_mail")]
FIELDS = ["from_email", "to_emails", "to_cc", "to_bcc", "subject", "body_plain", "body_html", "attachments", "metadata"]


def _ctor_calls(fn: ast.AST, cls: str):
    return [n for n in walk_own(fn) if isinstance(n, ast.Call) and (dotted(n.func) or "").split(".")[-1] == cls]


def rule_sib(ctx: Ctx) -> RuleReport:
    rep = RuleReport("C16-SIB", "each mail extractor fills every EmailContent field the property names")
    dt = ctx.p.module(DT)
    ec = dt.classes.get("EmailContent")
    if ec is None:
        raise AnalysisError("C16-SIB: EmailContent vanished")
    order = list(ec.fields)
    for f in FIELDS:
        if f not in ec.fields:
            raise AnalysisError(f"C16-SIB: EmailContent.{f} vanished")
    for rel, q in SITES:
        fi = ctx.p.maybe_func(rel, q)
        if fi is None:
            raise AnalysisError(f"C16-SIB: {rel}::{q} vanished")
        calls = _ctor_calls(fi.node, "EmailContent")
        if len(calls) != 1:
            raise AnalysisError(f"C16-SIB: expected one EmailContent(...) in {q}, found {len(calls)}")
        rep.unit(fi.key)
        c = calls[0]
        passed = {k.arg: k.value for k in c.keywords if k.arg}
        for name, a in zip(order, c.args):
            passed[name] = a
        for f in FIELDS:
            v = passed.get(f)
            if v is None:
                rep.fail(Finding("C16-SIB", rel, q, f"EmailContent(...) without {f}", f"{q} never passes '{f}' to EmailContent: every message read through this extractor has the default (empty) {f}", line=c.lineno))
            elif isinstance(v, ast.Constant) or (isinstance(v, (ast.List, ast.Tuple, ast.Dict)) and not getattr(v, "elts", getattr(v, "keys", None))):
                rep.fail(Finding("C16-SIB", rel, q, f"{f}={norm(v)}", f"{q} passes a constant for '{f}'", line=c.lineno))
            else:
                rep.ok({"extractor": q, "field": f, "value": short(v, 50)})
        # metadata carries date and message id
        metas = _ctor_calls(fi.node, "EmailMetadata")
        if len(metas) != 1:
            raise AnalysisError(f"C16-SIB: expected one EmailMetadata(...) in {q}")
        mk = {k.arg for k in metas[0].keywords if k.arg}
        for f in ("date", "message_id"):
            if f in mk:
                rep.ok()
            else:
                rep.fail(Finding("C16-SIB", rel, q, f"EmailMetadata(...) without {f}", f"{q} never fills metadata.{f}", line=metas[0].lineno))
    return rep


# ------------------------------------------------------------------------------------------------ ATT

ATT_SITES = [
    # module, function, allowed skip conditions (normalised test text, branch) / 'exc:<stmt>'
    (EML, "_read_eml_format", set()),
    (MBOX, "get_attachments", {("v0.is_multipart()", "true"), ("not v0 and 'attachment' not in v1", "true")}),
    (MSG, "_extract_msg_attachments", {("exc", "v0 = v1.openstream([v2, '__substg1.0_37010102']).read()")}),
]


def rule_att(ctx: Ctx) -> RuleReport:
    rep = RuleReport("C16-ATT", "every element of the attachment source is appended on every path (confirmed skip conditions only); payload bytes are transfer-decoded")
    for rel, q, allowed in ATT_SITES:
        fi = ctx.p.maybe_func(rel, q)
        if fi is None:
            raise AnalysisError(f"C16-ATT: {rel}::{q} vanished")
        appends = [n for n in walk_own(fi.node) if isinstance(n, ast.Call) and isinstance(n.func, ast.Attribute) and n.func.attr == "append" and isinstance(n.func.value, ast.Name)
                   and n.args and isinstance(n.args[0], ast.Call) and (dotted(n.args[0].func) or "").endswith("EmailAttachment")]
        if len(appends) != 1:
            raise AnalysisError(f"C16-ATT: expected one attachments.append(EmailAttachment(...)) in {q}, found {len(appends)}")
        ap = appends[0]
        loop = None
        for n in walk_own(fi.node):
            if isinstance(n, ast.For) and any(x is ap for x in ast.walk(n)):
                loop = n  # innermost wins (walk order is outer first)
        if loop is None:
            raise AnalysisError(f"C16-ATT: the append in {q} is not inside a loop")
        rep.unit(fi.key)
        locs = local_names(fi.node)
        cfg = ctx.cfg(fi)
        heads = set(cfg.loop_head.get(id(loop), []))
        ins = cfg.loop_body_in.get(id(loop), [])
        ap_nodes = set()
        for nd in cfg.nodes:
            if nd.ast is not None and nd.kind == "stmt" and any(x is ap for x in ast.walk(nd.ast)):
                ap_nodes.add(nd.id)
        if not heads or not ins or not ap_nodes:
            raise AnalysisError(f"C16-ATT: cannot locate loop / append nodes in the CFG of {q}")
        # enumerate simple paths body-in -> head avoiding the append
        skipping = []
        def dfs(n, path, seen):
            if len(skipping) > 64:
                return
            for s in cfg.succ[n]:
                if s in ap_nodes:
                    continue
                if s in heads:
                    skipping.append(path + [s])
                    continue
                if s in seen or s in (cfg.exit, cfg.raise_exit):
                    continue
                dfs(s, path + [s], seen | {s})
        for i in ins:
            if i in ap_nodes:
                continue
            dfs(i, [i], {i})
        bad = []
        for path in skipping:
            reasons = []
            for a, b in zip(path, path[1:]):
                lab = cfg.elabel.get((a, b))
                nd = cfg.nodes[a]
                if nd.kind == "test" and lab in ("true", "false"):
                    reasons.append((anorm(nd.ast, rename=locs), lab))
                elif lab == "exc":
                    reasons.append(("exc", anorm(nd.ast, rename=locs) if nd.ast is not None else "?"))
            if not any(r in allowed for r in reasons):
                bad.append(reasons)
        if bad:
            why = bad[0]
            desc = " and ".join(f"{t} is {b}" if t != "exc" else f"exception in {short(b, 50)}" for t, b in why[-2:]) or "unconditionally"
            rep.fail(Finding("C16-ATT", rel, q, f"attachment skipped when {desc}",
                             f"an element of the attachment source reaches the next iteration without being appended ({desc}): this attachment is missing from EmailContent.attachments", line=loop.lineno))
        else:
            rep.ok({"fn": q, "skip_paths": len(skipping), "allowed": sorted(map(str, allowed))})
        # every allowed condition still exists (a vanished idiom must not leave a stale whitelist)
        present = set()
        for nd in cfg.nodes:
            if nd.kind == "test":
                present.add(anorm(nd.ast, rename=locs))
        for (t, b) in allowed:
            if t != "exc" and t not in present:
                rep.info.append(f"{q}: whitelisted skip condition no longer present: {t}")
    # transfer decoding
    for rel in (MBOX,):
        m = ctx.p.module(rel)
        for fi in m.functions.values():
            for n in walk_own(fi.node):
                if isinstance(n, ast.Call) and isinstance(n.func, ast.Attribute) and n.func.attr == "get_payload":
                    dec = [k for k in n.keywords if k.arg == "decode"]
                    ok = bool(dec) and isinstance(dec[0].value, ast.Constant) and dec[0].value.value is True
                    if ok:
                        rep.ok({"fn": fi.qual, "call": norm(n)})
                    else:
                        rep.fail(Finding("C16-ATT", rel, fi.qual, norm(n), "get_payload without decode=True returns the base64 / quoted-printable text, not the bytes of the body or attachment", line=n.lineno))
    # eml: binary payloads are base64 in mailparser's dictionaries
    fi = ctx.p.func(EML, "_read_eml_format")
    b64 = [n for n in walk_own(fi.node) if isinstance(n, ast.Call) and dotted(n.func) == "base64.b64decode"]
    bin_vars = {n.targets[0].id for n in walk_own(fi.node) if isinstance(n, ast.Assign) and len(n.targets) == 1 and isinstance(n.targets[0], ast.Name) and "'binary'" in norm(n.value)}
    def under_flag(c):
        conds, opaque, _ = path_conditions(fi.node, c)
        texts = [str(k) for k in conds] + [o for o in opaque if not o.startswith("not ")]
        return any(t in bin_vars or ("'binary'" in t and not t.startswith("not ")) for t in texts)

    if b64 and all(under_flag(c) for c in b64):
        rep.ok({"fn": "_read_eml_format", "binary payload": "base64.b64decode under `if is_binary`"})
    else:
        rep.fail(Finding("C16-ATT", EML, "_read_eml_format", "binary payload decoding", "mailparser hands binary attachments over as base64 text; they must be decoded under the `binary` flag (and only there)", line=fi.node.lineno))
    return rep


# ------------------------------------------------------------------------------------------------ ORDER

DECODERS = {"decode_header_value", "decode_header", "make_header"}
SPLITTERS = {"getaddresses", "parseaddr"}


def rule_order(ctx: Ctx) -> RuleReport:
    rep = RuleReport("C16-ORDER", "address lists are split before display names are RFC 2047-decoded")
    m = ctx.p.module(MBOX)
    n_sites = 0
    for fi in m.functions.values():
        # names tainted by a decoder inside this function
        tainted: set[str] = set()
        changed = True
        while changed:
            changed = False
            for n in walk_own(fi.node):
                if isinstance(n, ast.Assign) and len(n.targets) == 1 and isinstance(n.targets[0], ast.Name):
                    if _derived(n.value, tainted) and n.targets[0].id not in tainted:
                        tainted.add(n.targets[0].id)
                        changed = True
        for n in walk_own(fi.node):
            if isinstance(n, ast.Call) and (dotted(n.func) or "").split(".")[-1] in SPLITTERS:
                n_sites += 1
                rep.unit(fi.key)
                if any(_derived(a, tainted) for a in n.args):
                    rep.fail(Finding("C16-ORDER", MBOX, fi.qual, norm(n), "the address parser receives an already RFC 2047-decoded header: a decoded display name containing a comma, quote or angle bracket is split into bogus addresses or swallows the real one", line=n.lineno))
                else:
                    rep.ok({"fn": fi.qual, "split": norm(n)})
    # ... and across calls: a function that hands one of its parameters to the splitter must not be called with a decoded header
    splitting = {}  # function -> indexes of parameters that reach a splitter
    for fi in m.functions.values():
        params = [a.arg for a in fi.node.args.args]
        reach = set()
        for n in walk_own(fi.node):
            if isinstance(n, ast.Call) and (dotted(n.func) or "").split(".")[-1] in SPLITTERS:
                for a in n.args:
                    for x in ast.walk(a):
                        if isinstance(x, ast.Name) and x.id in params:
                            reach.add(params.index(x.id))
        if reach:
            splitting[fi.qual] = reach
    for fi in m.functions.values():
        tainted: set[str] = set()
        changed = True
        while changed:
            changed = False
            for n in walk_own(fi.node):
                if isinstance(n, ast.Assign) and len(n.targets) == 1 and isinstance(n.targets[0], ast.Name) and _derived(n.value, tainted) and n.targets[0].id not in tainted:
                    tainted.add(n.targets[0].id)
                    changed = True
        for c in [n for n in walk_own(fi.node) if isinstance(n, ast.Call)]:
            callee = (dotted(c.func) or "").split(".")[-1]
            if callee in splitting:
                n_sites += 1
                bad = [i for i in splitting[callee] if i < len(c.args) and _derived(c.args[i], tainted)]
                if bad:
                    rep.fail(Finding("C16-ORDER", MBOX, fi.qual, "decoded header passed to " + callee, f"`{short(c, 70)}` hands an already RFC 2047-decoded header to {callee}, which splits it with the address parser: a display name such as 'Müller, Anna' is split at its comma into two bogus addresses", line=c.lineno))
                else:
                    rep.ok({"fn": fi.qual, "call": short(c, 50), "argument": "raw header"})
    if n_sites < 2:
        raise AnalysisError(f"C16-ORDER: only {n_sites} address split sites found in the mbox extractor (2 confirmed)")
    return rep


def _derived(e: ast.AST, tainted: set[str]) -> bool:
    for x in ast.walk(e):
        if isinstance(x, ast.Call) and (dotted(x.func) or "").split(".")[-1] in DECODERS:
            return True
        if isinstance(x, ast.Name) and x.id in tainted:
            return True
    return False


# ------------------------------------------------------------------------------------------------ SEP

LINE = b"From alice@example.org Mon Jan  1 10:00:00 2024"
BODY = b"Subject: x\n\nbody"


# From_ lines as mailbox writers emit them (RFC 4155 asctime; Gmail Takeout puts the zone before the year; some MTAs append it;
# bounces use MAILER-DAEMON as the envelope sender)
SEPARATOR_FORMS = [
    ("asctime", LINE),
    ("zone before the year (Gmail Takeout)", b"From 1712345678901234567@xxx Mon Jan 01 10:00:00 +0000 2024"),
    ("trailing numeric zone", b"From alice@example.org Mon Jan  1 10:00:00 2024 +0100"),
    ("MAILER-DAEMON sender", b"From MAILER-DAEMON Mon Jan  1 10:00:00 2024"),
]


def rule_sep(ctx: Ctx) -> RuleReport:
    rep = RuleReport("C16-SEP", "the mbox separator pattern matches exactly at line starts, for LF and CRLF mailboxes alike")
    m = ctx.p.module(MBOX)
    node = m.assigns.get("MBOX_FROM_PATTERN")
    if not (isinstance(node, ast.Call) and dotted(node.func) == "re.compile" and node.args):
        raise AnalysisError("C16-SEP: MBOX_FROM_PATTERN is no longer a re.compile(...) constant")
    pat = ctx.folder.fold(m, node.args[0])
    if not isinstance(pat, bytes):
        raise AnalysisError("C16-SEP: the separator pattern is not a foldable bytes literal")
    flags = 0
    for a in list(node.args[1:]) + [k.value for k in node.keywords if k.arg == "flags"]:
        for x in ast.walk(a):
            if isinstance(x, ast.Attribute) and isinstance(x.value, ast.Name) and x.value.id == "re":
                flags |= int(getattr(re, x.attr, 0))
    split = ctx.p.maybe_func(MBOX, "_split_mbox_messages")
    if split is None or "MBOX_FROM_PATTERN.finditer(data)" not in norm(split.node):
        raise AnalysisError("C16-SEP: _split_mbox_messages no longer splits with MBOX_FROM_PATTERN.finditer(data)")
    rep.unit("MBOX_FROM_PATTERN")
    try:
        rx = re.compile(pat, flags)
    except re.error as exc:
        rep.fail(Finding("C16-SEP", MBOX, "MBOX_FROM_PATTERN", "pattern does not compile", str(exc), line=node.lineno))
        return rep
    for eol_name, eol in (("LF", b"\n"), ("CRLF", b"\r\n")):
        # (a From_ line directly after a non-blank line is left open: writers always put a blank line before it)
        contexts = [("start of file", b""), ("after a blank line", b"previous line" + eol + eol),
                    ("after a message body", BODY.replace(b"\n", eol) + eol + eol)]
        for cname, prefix in contexts:
            # a separator line must be found exactly at len(prefix), in each form mailbox writers use
            for vname, sep_line in SEPARATOR_FORMS:
                text = prefix + sep_line + eol + BODY.replace(b"\n", eol)
                starts = [mm.start() for mm in rx.finditer(text)]
                if starts == [len(prefix)]:
                    rep.ok({"eol": eol_name, "context": cname, "form": vname, "separator": "recognised"})
                else:
                    rep.fail(Finding("C16-SEP", MBOX, "MBOX_FROM_PATTERN", f"separator line ({vname}) {cname} ({eol_name}) -> matches at {starts}",
                                     f"a From_ line in the {vname} form {cname} in a {eol_name} mailbox is {'not recognised' if not starts else 'matched at the wrong place'}: messages are merged or split wrongly", line=node.lineno))
            # quoted and mid-line occurrences are never separators
            for what, line in (("quoted '>From'", b">" + LINE), ("'From' in mid line", b"x " + LINE)):
                text2 = prefix + line + eol + b"rest"
                if list(rx.finditer(text2)):
                    rep.fail(Finding("C16-SEP", MBOX, "MBOX_FROM_PATTERN", f"{what} {cname} ({eol_name}) taken as separator",
                                     f"{what} is matched as a message boundary: a body line splits the message", line=node.lineno))
                else:
                    rep.ok()
    return rep


# ------------------------------------------------------------------------------------------------ ROUTE

def cnt_if_test(fn_node, cnt):
    """The test of the innermost `if` whose branch holds the statement."""
    best = None
    for i in ast.walk(fn_node):
        if isinstance(i, ast.If) and (cnt in i.body or cnt in i.orelse):
            best = i
    return best.test if best is not None else None


def rule_route(ctx: Ctx) -> RuleReport:
    rep = RuleReport("C16-ROUTE", "supported attachments are routed by name, then by MIME type; each in isolation; streams rewound")
    fi = ctx.p.maybe_func(DT, "EmailContent.iterate_supported_attachments")
    if fi is None:
        raise AnalysisError("C16-ROUTE: EmailContent.iterate_supported_attachments vanished")
    rep.unit(fi.key)
    loops = [n for n in walk_own(fi.node) if isinstance(n, ast.For) and norm(n.iter) == "self.attachments"]
    if len(loops) != 1:
        raise AnalysisError("C16-ROUTE: expected one loop over self.attachments")
    loop = loops[0]
    tries = [s for s in loop.body if isinstance(s, ast.Try)]
    # 1. name first
    LV = loop.target.id if isinstance(loop.target, ast.Name) else "attachment"
    name_try = [t for t in tries if any(isinstance(n, ast.Call) and norm(n) == f"get_extractor({LV}.filename)" for st in t.body for n in ast.walk(st))]
    if name_try:
        rep.ok({"step": "get_extractor(attachment.filename) tried first"})
        t = name_try[0]
        hs = [h for h in t.handlers if "ExtractionFileFormatNotSupportedError" in norm(h.type or ast.Constant(value=""))]
        uses_mime = hs and any(f"MIME_TYPE_MAPPING.get({LV}.mime_type)" in norm(st) for st in hs[0].body)
        if uses_mime:
            rep.ok({"step": "MIME_TYPE_MAPPING.get(attachment.mime_type) as fallback"})
        else:
            rep.fail(Finding("C16-ROUTE", DT, fi.qual, "no MIME fallback", "an attachment whose name has no known extension is no longer routed by its MIME type", line=t.lineno))
    else:
        rep.fail(Finding("C16-ROUTE", DT, fi.qual, "name-based routing missing", "the extractor is no longer chosen from the attachment's file name first", line=loop.lineno))
    # 1b. nothing is skipped on the declared MIME type alone before the name had its say
    if name_try:
        for st in loop.body[:loop.body.index(name_try[0])]:
            for cnt in [n for n in ast.walk(st) if isinstance(n, ast.Continue)]:
                conds, opaque, _ = path_conditions(fi.node, cnt, terminals=("continue", "return", "break", "raise"))
                cs = sorted({str(c) for c in conds} | set(opaque))
                by_name = [c for c in cs if f"{LV}.filename" in c]
                by_mime = [c for c in cs if "mime_type" in c]
                # the name-based part of the decision is the router's own answer, not a second implementation of it (case folding,
                # compound extensions and aliases would have to be repeated exactly)
                ROUTER = "sharepoint2text/parsing/router.py"
                router_calls = [c for c in ast.walk(cnt_if_test(fi.node, cnt)) if isinstance(c, ast.Call) and any(g.module.rel == ROUTER for g in resolve_call(ctx.p, fi, c).funcs)] if cnt_if_test(fi.node, cnt) is not None else []
                if by_name and not router_calls:
                    rep.fail(Finding("C16-ROUTE", DT, fi.qual, "attachment support decided by a private test on the name: " + " and ".join(anorm(ast.parse(c, mode="eval").body, fi.node) for c in by_name)[:120],
                                     f"an attachment is skipped under `{' and '.join(by_name)}`: the file name is judged by a test of its own instead of the router (is_supported_file / get_extractor), so names the router accepts ('TABLE.CSV', 'Report.HTM', 'data.tar.gz') can be skipped -- attachment dispatch no longer uses the same routing as read_file", line=cnt.lineno))
                    continue
                if by_mime and not by_name:
                    rep.fail(Finding("C16-ROUTE", DT, fi.qual, "skipped on MIME type alone: " + " and ".join(anorm(ast.parse(c, mode="eval").body, fi.node) for c in cs),
                                     f"an attachment is skipped under `{' and '.join(cs)}` before its file name is looked at: report.docx sent as application/octet-stream (what many clients and gateways send) is never extracted, although read_file routes the same bytes by name", line=cnt.lineno))
                else:
                    rep.ok({"skip_before_routing": cs, "name_consulted": bool(by_name)})
    # 2. isolation + rewind
    ex_try = [t for t in tries if any(isinstance(n, ast.YieldFrom) for st in t.body for n in ast.walk(st))]
    if not ex_try:
        rep.fail(Finding("C16-ROUTE", DT, fi.qual, "extraction outside try", "the extraction of one attachment is not isolated: a failing attachment aborts the remaining ones", line=loop.lineno))
        return rep
    t = ex_try[0]
    yf = [n for st in t.body for n in ast.walk(st) if isinstance(n, ast.YieldFrom)][0]
    ext_vars = {n.targets[0].id for n in ast.walk(loop) if isinstance(n, ast.Assign) and len(n.targets) == 1 and isinstance(n.targets[0], ast.Name) and isinstance(n.value, ast.Call) and (dotted(n.value.func) or "") == "get_extractor"}
    if isinstance(yf.value, ast.Call) and isinstance(yf.value.func, ast.Name) and yf.value.func.id in ext_vars and [norm(a) for a in yf.value.args] == [f"{LV}.data", f"{LV}.filename"]:
        rep.ok({"step": "extractor(attachment.data, attachment.filename)"})
    else:
        rep.fail(Finding("C16-ROUTE", DT, fi.qual, norm(yf.value), "the attachment is not extracted from its own stream under its own name", line=yf.lineno))
    broad = [h for h in t.handlers if norm(h.type or ast.Constant(value="")) in ("Exception", "BaseException") or h.type is None]
    if broad and not any(isinstance(n, ast.Raise) for st in broad[0].body for n in ast.walk(st)):
        rep.ok({"step": "other failures swallowed per attachment"})
    else:
        rep.fail(Finding("C16-ROUTE", DT, fi.qual, "no swallowing handler", "a failing attachment aborts the iteration over the remaining attachments", line=t.lineno))
    idx = loop.body.index(t)
    before = loop.body[idx - 1] if idx > 0 else None
    rewound_before = before is not None and norm(before) == f"{LV}.data.seek(0)"
    rewound_after = any(norm(st) == f"{LV}.data.seek(0)" for st in t.finalbody)
    if rewound_before and rewound_after:
        rep.ok({"step": "seek(0) before and in finally"})
    else:
        rep.fail(Finding("C16-ROUTE", DT, fi.qual, f"rewind before={rewound_before} after={rewound_after}", "the attachment stream is not rewound around the extraction: a second pass (or the serialiser) sees a consumed stream", line=t.lineno))
    return rep


BANNED = {
    "make_header": "str(email.header.make_header(...)) re-composes a header: Header.__str__ inserts a space between a chunk in a non-ASCII charset and an adjacent ASCII chunk, "
                   "so 'K=F6hler?=, Anna' decodes to 'Köhler , Anna', and an unknown charset raises instead of falling back",
    "get_charset": "Message.get_charset() returns the Charset object that set_charset() stored while a message is *composed*; for a parsed message it is always None. The charset a part "
                   "declares is get_content_charset(): with get_charset() every ISO-8859-1 / KOI8-R / Shift_JIS body is decoded as UTF-8 into replacement characters",
}


def rule_bytes(ctx: Ctx) -> RuleReport:
    """'every attachment with its ... exact bytes': between the MIME part and EmailAttachment.data only the transfer encoding is undone."""
    from sa.engine.callgraph import calls_in
    from sa.rules.common import transcode_chains

    rep = RuleReport("C16-BYTES", "attachment bytes are never re-encoded (no bytes -> str -> bytes chain where EmailAttachment is built); header text is not rebuilt with APIs that insert separators")
    n_ctor = 0
    for rel in (EML, MBOX, MSG):
        m = ctx.p.module(rel)
        for fi in m.functions.values():
            ctors = _ctor_calls(fi.node, "EmailAttachment")
            if ctors:
                n_ctor += 1
                rep.unit(fi.key)
                chains = transcode_chains(fi.node)
                if chains:
                    for c in chains:
                        rep.fail(Finding("C16-BYTES", rel, fi.qual, "transcoded: " + anorm(c, fi.node), f"`{short(c, 70)}` re-encodes bytes in the function that builds EmailAttachment: an attachment is a file, its bytes must come back unchanged (a latin-1 CSV or an HTML page that declares its own charset is corrupted)", line=c.lineno))
                else:
                    rep.ok({"fn": fi.qual, "attachment_bytes": "no transcoding"})
            for c in calls_in(fi):
                d = (dotted(c.func) or "").split(".")[-1]
                if d in BANNED:
                    rep.fail(Finding("C16-BYTES", rel, fi.qual, f"banned API {d}", BANNED[d], line=c.lineno))
        rep.ok({"module": rel, "banned_apis": "none of " + ", ".join(sorted(BANNED))})
    # mailparser's attachment dictionaries: the name is `filename` (the decoded name as sent); `safe_filename` is a basename made safe
    # for writing to disk ('Invoices 10/2024.csv' -> '2024.csv')
    MP_KEYS = {"filename": "filename", "mime_type": "mail_content_type"}
    em = ctx.p.func(EML, "_read_eml_format")
    for c in _ctor_calls(em.node, "EmailAttachment"):
        for k in c.keywords:
            if k.arg not in MP_KEYS:
                continue
            v = k.value
            for _ in range(3):
                if isinstance(v, ast.Name):
                    defs = [a.value for a in walk_own(em.node) if isinstance(a, ast.Assign) and len(a.targets) == 1 and isinstance(a.targets[0], ast.Name) and a.targets[0].id == v.id]
                    if len(defs) != 1:
                        break
                    v = defs[0]
            first = v.values[0] if isinstance(v, ast.BoolOp) and isinstance(v.op, ast.Or) else v
            keyc = first.args[0].value if isinstance(first, ast.Call) and isinstance(first.func, ast.Attribute) and first.func.attr == "get" and first.args and isinstance(first.args[0], ast.Constant) else None
            if keyc == MP_KEYS[k.arg]:
                rep.ok({"eml_attachment_field": k.arg, "mailparser_key": keyc})
            else:
                rep.fail(Finding("C16-BYTES", EML, em.qual, f"{k.arg} from {keyc!r}", f"the attachment's {k.arg} is taken from mailparser's `{keyc}` instead of `{MP_KEYS[k.arg]}`" + (": safe_filename is a basename made safe for disk, 'Invoices 10/2024.csv' becomes '2024.csv' and the .eml and .mbox readers report different names for the same message" if k.arg == "filename" else ""), line=k.value.lineno))
    if n_ctor < 3:
        raise AnalysisError(f"C16-BYTES: only {n_ctor} functions build EmailAttachment (3 confirmed)")
    # email.message.Message.get() returns a Header object, not a str, for a header that holds raw 8-bit bytes: every project function
    # that is handed such a value normalises it first (a str operation on a Header raises TypeError and the mailbox is lost)
    mbm = ctx.p.module(MBOX)
    norm_helpers = {fi.qual for fi in mbm.functions.values() if any(isinstance(c, ast.Call) and norm(c.func) == "isinstance" and len(c.args) == 2 and "Header" in norm(c.args[1]) for c in ast.walk(fi.node))}
    receivers = {}
    for fi in mbm.functions.values():
        for c in calls_in(fi):
            for i, a in enumerate(c.args):
                if isinstance(a, ast.Call) and isinstance(a.func, ast.Attribute) and a.func.attr == "get" and a.args and isinstance(a.args[0], ast.Constant) and isinstance(a.args[0].value, str) and a.args[0].value[:1].isupper():
                    for g in resolve_call(ctx.p, fi, c).funcs:
                        if g.module is mbm:
                            receivers.setdefault(g.qual, (g, set()))[1].add(i)
    for q, (g, idxs) in sorted(receivers.items()):
        if q in norm_helpers:
            rep.ok({"header_receiver": q, "handles": "Header objects itself"})
            continue
        params = [a_.arg for a_ in g.node.args.args]
        for i in sorted(idxs):
            if i >= len(params):
                continue
            pn = params[i]
            first = next((st for st in g.node.body if not is_noise(st) and any(isinstance(x, ast.Name) and x.id == pn for x in ast.walk(st))), None)
            ok_ = isinstance(first, ast.Assign) and len(first.targets) == 1 and isinstance(first.targets[0], ast.Name) and first.targets[0].id == pn and isinstance(first.value, ast.Call) \
                and (dotted(first.value.func) or "").split(".")[-1] in norm_helpers and first.value.args and isinstance(first.value.args[0], ast.Name) and first.value.args[0].id == pn
            if ok_:
                rep.ok({"header_receiver": q, "normalises": norm(first)})
            else:
                rep.fail(Finding("C16-BYTES", MBOX, q, f"header value `{pn}` used without Header normalisation", f"{q} receives the result of message.get(<header>) and uses it as a str at once (`{short(first, 50) if first is not None else '?'}`): for a header with raw 8-bit bytes the parser hands out an email.header.Header object, str operations raise TypeError and no message of the mailbox is returned", line=g.node.lineno))
    if len(receivers) < 3:
        raise AnalysisError(f"C16-BYTES: only {len(receivers)} functions receive header values in the mbox reader (3 confirmed)")
    # one result per message: a header that does not parse must not take the mailbox down. email.utils.parsedate_to_datetime raises
    # TypeError for a missing and ValueError for a malformed Date; inside the per-message path of the mailbox reader it is guarded.
    mb = ctx.p.module(MBOX)
    for fi in mb.functions.values():
        for c in calls_in(fi):
            if (dotted(c.func) or "").split(".")[-1] != "parsedate_to_datetime":
                continue
            tries = [t for t in walk_own(fi.node) if isinstance(t, ast.Try) and any(x is c for st in t.body for x in ast.walk(st))]
            caught = set()
            for t in tries:
                for h in t.handlers:
                    els = h.type.elts if isinstance(h.type, ast.Tuple) else ([h.type] if h.type is not None else [])
                    caught |= {(dotted(e) or "").split(".")[-1] for e in els} or {"BaseException"}
            if {"TypeError", "ValueError"} <= caught or caught & {"Exception", "BaseException"}:
                rep.ok({"fn": fi.qual, "parsedate_to_datetime": "guarded (TypeError, ValueError)"})
            else:
                rep.fail(Finding("C16-BYTES", MBOX, fi.qual, "parsedate_to_datetime unguarded", f"`{short(c, 60)}` raises TypeError for a missing and ValueError for a malformed Date header and is not enclosed by a handler for them: one draft or bounce without a Date makes the whole mailbox fail and no message is returned", line=c.lineno))
    return rep


def rule_post(ctx: Ctx) -> RuleReport:
    """Subject and body are reported as the message stores them: the constructor of the shared result class trims the ends and nothing
    else (= C05-POST restricted to EmailContent: the e-mail readers all build their result through this class)."""
    from sa.rules.c05 import rule_post as r05

    src = r05(ctx)
    rep = RuleReport("C16-POST", "EmailContent.__post_init__ rewrites subject / body only by trimming their ends: inner white space, tabs and non-breaking blanks of a subject stay as sent")
    rep.units = src.units
    n = 0
    for f in src.findings:
        if "EmailContent" in f.function or "EmailContent" in f.construct:
            f.rule = "C16-POST"
            rep.fail(f)
            n += 1
    mail_ok = [o for o in src.samples if isinstance(o, dict) and o.get("class") == "EmailContent"]
    for o in mail_ok:
        rep.ok(o)
    if not mail_ok and n == 0:
        # the class has no __post_init__ any more: nothing is rewritten
        rep.ok({"EmailContent": "no field rewritten at construction"})
    return rep


RULES = [rule_sib, rule_att, rule_order, rule_sep, rule_route, rule_bytes, rule_post]
