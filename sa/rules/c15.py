"""C15 — isolation: results independent of history and of concurrent work."""
from __future__ import annotations

import ast

from sa.engine.callgraph import calls_in, reachable_functions, resolve_call, resolve_name
from sa.engine.cfg import must_pass_after
from sa.engine.context import Ctx
from sa.engine.loader import AnalysisError, FuncInfo, dotted, norm, short, walk_own
from sa.engine.report import Finding, RuleReport
from sa.rules.common import DT, INIT, X, extractor_entries

PDF = X + "pdf/pdf_extractor.py"
AES = X + "pdf/_pypdf_aes_fallback.py"
ARCH = X + "archive_extractor.py"
SER = X + "serialization.py"

EXPLANATION = (
    "Actual interleavings and histories are runtime objects and are not decided. Decided: (GLOBAL) who writes process-global "
    "state: the inventory of `global` statements, stores into module-level containers from function scope, stores into "
    "modules / classes of other packages and functools caches is computed on every run and must equal the inventory "
    "confirmed by reading (each entry with the reason it cannot change results); the only configuration writer is "
    "unreachable from extraction entry points. (PATCH) every store into a foreign module is temporary (saved original "
    "restored on every exit, PAIR over the CFG) and serialised (lexically inside `with <module-level Lock>`). (KEY) for "
    "every memo table each parameter the stored value depends on flows into the key. (SHARED) no function hands out a "
    "module-level mutable object (an instance created at import time) that callers then fill in. (RES) every handle "
    "acquisition (OLE, ZIP contexts, workbooks, archives, temp directories, files) is a with-item or is released on "
    "every path, normal and exceptional."
)
NOT_DECIDED = ["actual thread interleavings; identical results under concurrency", "state kept inside third-party libraries (pypdf caches, mimetypes database)"]
TRUSTED = ["a `with lock:` block around save/patch/use/restore serialises the critical section", "functools.lru_cache keys on all arguments"]
FLOORS = {"C15-SETTERS": 2, "C15-HOLD": 1, "C15-GLOBAL": 8, "C15-PATCH": 2, "C15-KEY": 2, "C15-SHARED": 1, "C15-RES": 20}

# (module rel, name) -> reason it is allowed
GLOBAL_INVENTORY = {
    (ARCH, "_config"): "rebound only by configure_archive_extraction(), which no extraction entry point reaches",
    (PDF, "_FONT_CACHE"): "memo of a pure function of its key (C15-KEY checks key completeness)",
    (AES, "_ROUND_KEY_CACHE"): "memo of the AES key schedule keyed by the complete key",
    (SER, "_TYPE_REGISTRY"): "idempotent registry of dataclass types (same content whenever it is filled)",
}


def _module_level_mutables(m) -> dict[str, ast.AST]:
    out = {}
    for name, val in m.assigns.items():
        if isinstance(val, (ast.Dict, ast.List, ast.Set, ast.DictComp, ast.ListComp, ast.SetComp)):
            out[name] = val
        elif isinstance(val, ast.BinOp) and isinstance(val.op, (ast.Mult, ast.Add)) and (isinstance(val.left, (ast.List, ast.ListComp)) or isinstance(val.right, (ast.List, ast.ListComp))):
            out[name] = val  # [0] * 16
        elif isinstance(val, ast.Call):
            d = dotted(val.func) or ""
            if d.split(".")[-1] in ("dict", "list", "set", "OrderedDict", "defaultdict", "deque", "Counter") or d.split(".")[-1][:1].isupper():
                out[name] = val
    return out


MUT = {"append", "extend", "insert", "pop", "remove", "clear", "update", "setdefault", "add", "discard", "popitem", "move_to_end", "appendleft", "sort"}


def rule_global(ctx: Ctx) -> RuleReport:
    rep = RuleReport("C15-GLOBAL", "inventory of writers of process-global state equals the confirmed inventory")
    found: dict[tuple[str, str], list[tuple[FuncInfo, ast.AST]]] = {}
    for fi in ctx.p.all_functions():
        m = fi.module
        if m.rel.startswith("sharepoint2text/sharepoint_io/"):
            continue
        mut = _module_level_mutables(m)
        local_names = {a.arg for a in fi.node.args.args + fi.node.args.kwonlyargs}
        for n in walk_own(fi.node):
            if isinstance(n, (ast.Assign, ast.AnnAssign)):
                for t in (n.targets if isinstance(n, ast.Assign) else [n.target]):
                    if isinstance(t, ast.Name):
                        local_names.add(t.id)
        globals_decl = {nm for n in walk_own(fi.node) if isinstance(n, ast.Global) for nm in n.names}
        for nm in globals_decl:
            found.setdefault((m.rel, nm), []).append((fi, next(n for n in walk_own(fi.node) if isinstance(n, ast.Global))))
        # a local bound to a module-level mutable is the same object: writes through it are writes to the global
        alias = {}
        for n in walk_own(fi.node):
            if isinstance(n, ast.Assign) and len(n.targets) == 1 and isinstance(n.targets[0], ast.Name) and isinstance(n.value, ast.Name) and n.value.id in mut and n.value.id not in local_names:
                alias[n.targets[0].id] = n.value.id
        # ... and so is a parameter of a callee that receives it (one level: the callee's own stores)
        passed = []
        for c in calls_in(fi):
            for i, a in enumerate(c.args):
                if isinstance(a, ast.Name) and (a.id in alias or (a.id in mut and a.id not in local_names)):
                    g0 = alias.get(a.id, a.id)
                    for g in resolve_call(ctx.p, fi, c).funcs:
                        ps = [x.arg for x in g.node.args.args]
                        off = 1 if g.cls is not None and ps and ps[0] in ("self", "cls") else 0
                        if i + off < len(ps):
                            pn = ps[i + off]
                            for w in walk_own(g.node):
                                hit = (isinstance(w, (ast.Assign, ast.AugAssign)) and any(isinstance(t, ast.Subscript) and isinstance(t.value, ast.Name) and t.value.id == pn for t in (w.targets if isinstance(w, ast.Assign) else [w.target]))) or \
                                      (isinstance(w, ast.Call) and isinstance(w.func, ast.Attribute) and w.func.attr in MUT and isinstance(w.func.value, ast.Name) and w.func.value.id == pn)
                                if hit:
                                    passed.append((g0, c))
                                    break
        for g0, c in passed:
            found.setdefault((m.rel, g0), []).append((fi, c))
        for n in walk_own(fi.node):
            base = None
            if isinstance(n, (ast.Assign, ast.AugAssign)):
                for t in (n.targets if isinstance(n, ast.Assign) else [n.target]):
                    if isinstance(t, ast.Subscript):
                        b = t.value
                        while isinstance(b, ast.Subscript):
                            b = b.value
                        if isinstance(b, ast.Name) and b.id in mut and (b.id not in local_names or b.id in globals_decl):
                            base = b.id
                        elif isinstance(b, ast.Name) and b.id in alias:
                            base = alias[b.id]
            elif isinstance(n, ast.Call) and isinstance(n.func, ast.Attribute) and n.func.attr in MUT and isinstance(n.func.value, ast.Name):
                b = n.func.value.id
                if b in mut and (b not in local_names or b in globals_decl):
                    base = b
                elif b in alias:
                    base = alias[b]
            elif isinstance(n, ast.Delete):
                for t in n.targets:
                    if isinstance(t, ast.Subscript) and isinstance(t.value, ast.Name) and t.value.id in mut and t.value.id not in local_names:
                        base = t.value.id
            if base is not None:
                found.setdefault((m.rel, base), []).append((fi, n))
    for key, sites in sorted(found.items()):
        if key in GLOBAL_INVENTORY:
            rep.ok({"global": f"{key[0].split('/')[-1]}::{key[1]}", "writers": sorted({f.qual for f, _ in sites}), "why_harmless": GLOBAL_INVENTORY[key]})
        else:
            fi, node = sites[0]
            rep.fail(Finding("C15-GLOBAL", key[0], fi.qual, f"{key[1]}: {short(node, 80)}", f"module-level state `{key[1]}` is written from {sorted({f.qual for f, _ in sites})}; it is not in the inventory of harmless process-global state, so what one extraction leaves there can change the next", line=getattr(node, "lineno", None)))
    for key in GLOBAL_INVENTORY:
        if key not in found:
            rep.info.append(f"inventory entry {key} no longer written anywhere")
    # the configuration writer is unreachable from extraction
    entries = list(extractor_entries(ctx).values())
    roots = entries + [ctx.p.func(INIT, "read_file")]
    reach = reachable_functions(ctx.p, roots, entries)
    cfgw = ctx.p.func(ARCH, "configure_archive_extraction")
    if cfgw.key in reach:
        rep.fail(Finding("C15-GLOBAL", ARCH, cfgw.qual, "global _config", "the archive configuration is rewritten on the extraction path", line=cfgw.node.lineno))
    else:
        rep.ok({"configure_archive_extraction": "unreachable from the extraction entry points"})
    # functools caches: inventory
    caches = []
    for fi in ctx.p.all_functions():
        for d in fi.node.decorator_list:
            dn = dotted(d.func if isinstance(d, ast.Call) else d) or ""
            if dn.split(".")[-1] in ("lru_cache", "cache", "cached_property"):
                caches.append(fi)
    for fi in caches:
        # cached functions must be pure functions of their arguments: no reads of mutable module state, no I/O
        reads_cfg = [n for n in walk_own(fi.node) if isinstance(n, ast.Name) and n.id == "_config"]
        if reads_cfg:
            rep.fail(Finding("C15-GLOBAL", fi.module.rel, fi.qual, "lru_cache over _config", "a memoised function reads mutable module configuration that is not part of its cache key", line=fi.node.lineno))
        else:
            rep.ok({"lru_cache": fi.key})
    if len(caches) < 4:
        raise AnalysisError(f"C15-GLOBAL: only {len(caches)} functools caches found (floor 4)")
    return rep


def _foreign_stores(ctx: Ctx, fi: FuncInfo):
    """Stores into modules / classes imported from other packages: (node, description)."""
    out = []
    li = {}
    f = fi
    while f is not None:
        for n in walk_own(f.node):
            if isinstance(n, ast.Import):
                for a in n.names:
                    li[a.asname or a.name.split(".")[0]] = a.name
            elif isinstance(n, ast.ImportFrom) and n.module:
                for a in n.names:
                    li[a.asname or a.name] = f"{n.module}.{a.name}"
        f = f.parent
    for nm, tgt in fi.module.imports.items():
        li.setdefault(nm, tgt)

    def is_foreign(name):
        tgt = li.get(name)
        return bool(tgt) and not tgt.startswith("sharepoint2text")

    for n in walk_own(fi.node):
        if isinstance(n, ast.Assign):
            for t in n.targets:
                if isinstance(t, ast.Attribute):
                    b = t
                    while isinstance(b, ast.Attribute):
                        b = b.value
                    if isinstance(b, ast.Name) and is_foreign(b.id):
                        out.append((n, f"{norm(t)} = ..."))
        elif isinstance(n, ast.Call) and isinstance(n.func, ast.Name) and n.func.id == "setattr" and len(n.args) == 3:
            # setattr(module, name, value) where module comes from a list of foreign modules or is a foreign name
            a0 = n.args[0]
            # the object written to: a foreign module, or a loop variable ranging over (module, name) pairs / foreign modules
            loopvars = {x.id for l in walk_own(fi.node) if isinstance(l, ast.For) for x in ast.walk(l.target) if isinstance(x, ast.Name)}
            if isinstance(a0, ast.Name) and (is_foreign(a0.id) or a0.id in loopvars):
                out.append((n, "setattr(<foreign module>, ...)"))
    return out


def rule_patch(ctx: Ctx) -> RuleReport:
    rep = RuleReport("C15-PATCH", "stores into foreign modules are temporary (restored on every exit) and serialised by a module-level lock")
    n_funcs = 0
    for fi in ctx.p.all_functions():
        if fi.module.rel.startswith("sharepoint2text/sharepoint_io/"):
            continue
        stores = _foreign_stores(ctx, fi)
        if not stores:
            continue
        # setattr(self, ...) on own objects is not a patch
        stores = [(n, d) for n, d in stores if not (isinstance(n, ast.Call) and isinstance(n.args[0], ast.Name) and n.args[0].id == "self")]
        if not stores:
            continue
        n_funcs += 1
        rep.unit(fi.key)
        cfg = ctx.cfg(fi)
        # (ii) serialised: every store lexically inside `with <module-level lock>`
        locks = {nm for nm, v in fi.module.assigns.items() if isinstance(v, ast.Call) and (dotted(v.func) or "").split(".")[-1] in ("Lock", "RLock")}
        withs = [w for w in walk_own(fi.node) if isinstance(w, ast.With) and any(isinstance(it.context_expr, ast.Name) and it.context_expr.id in locks for it in w.items)]
        inside_lock = lambda node: any(any(x is node for st in w.body for x in ast.walk(st)) for w in withs)
        # (i) temporary: a restoring store (setattr(module, name, original) / module.attr = saved) in a finally that every path passes
        finals = [t for t in walk_own(fi.node) if isinstance(t, ast.Try) and t.finalbody]
        restores = []
        for t in finals:
            for st in t.finalbody:
                for x in ast.walk(st):
                    if isinstance(x, ast.Call) and isinstance(x.func, ast.Name) and x.func.id == "setattr" and len(x.args) == 3:
                        restores.append((t, x))
                    if isinstance(x, ast.Assign) and any(isinstance(tt, ast.Attribute) for tt in x.targets):
                        restores.append((t, x))
        patch_stores = [(n, d) for n, d in stores if not any(x is n for _t, r in restores for x in ast.walk(r)) and not any(n is r for _t, r in restores)]
        if not patch_stores:
            continue
        temporary = False
        if restores:
            rnodes = [x for _t, r in restores for x in cfg.evaluators(r)]
            starts = [x for n, _d in patch_stores for x in cfg.evaluators(n)]
            w = must_pass_after(cfg, starts, rnodes)
            # a loop that restores zero saved originals is fine when nothing was patched yet; the first patch store must be covered
            temporary = w is None or _restore_loop_covers(fi, restores, patch_stores)
        if temporary:
            rep.ok({"patch": fi.qual, "temporary": "restored in finally on every exit"})
        else:
            n, d = patch_stores[0]
            rep.fail(Finding("C15-PATCH", fi.module.rel, fi.qual, "stores into foreign modules without restore", f"{fi.qual} replaces attributes of another package ({d}, {len(patch_stores)} stores) and never restores them on some exit: every later extraction in the process runs against the patched library", line=n.lineno))
        unlocked = [(n, d) for n, d in patch_stores if not inside_lock(n)]
        # one critical section: the patch, the use of the patched library (the yield of the context manager) and the restore
        # must sit in the same `with lock:` block - two short locked sections around an unlocked use still interleave
        if temporary and not unlocked:
            def block_of(node):
                for w in withs:
                    if any(x is node for st in w.body for x in ast.walk(st)):
                        return w
                return None
            blocks = {id(block_of(n)) for n, _d in patch_stores}
            uses = [y for y in walk_own(fi.node) if isinstance(y, (ast.Yield, ast.YieldFrom))]
            rest = [r for _t, r in restores]
            split = None
            if len(blocks) != 1:
                split = "the patching stores are spread over several locked sections"
            else:
                b = next(iter(blocks))
                # yields that happen while the patch is installed: those after the first store (the early `yield; return` of the unpatched path does not count)
                first_store = min(n.lineno for n, _d in patch_stores)
                for y in uses:
                    if y.lineno > first_store and id(block_of(y)) != b:
                        split = "the lock is released while the patched library is in use (yield outside the locked section)"
                for r in rest:
                    if id(block_of(r)) != b:
                        split = "the restore runs in a different locked section than the patch"
            if split:
                n, d = patch_stores[0]
                rep.fail(Finding("C15-PATCH", fi.module.rel, fi.qual, f"critical section split: {d}", f"{split}: a second thread can save the already patched function as its 'original' and restore it later, leaving the wrapper installed for good", line=n.lineno))
                continue
        if temporary:
            if unlocked:
                n, d = unlocked[0]
                rep.fail(Finding("C15-PATCH", fi.module.rel, fi.qual, f"unserialised: {d}", f"the save/patch/restore of {d} is not inside `with <module-level lock>`: two threads interleaving it leave the wrapper installed for good", line=n.lineno))
            else:
                rep.ok({"patch": fi.qual, "serialised_by": sorted(locks)})
    if n_funcs < 2:
        raise AnalysisError(f"C15-PATCH: only {n_funcs} functions storing into foreign modules found (floor 2: char-map patch, AES fallback patch)")
    return rep


def _restore_loop_covers(fi, restores, patch_stores) -> bool:
    """try: <patch stores> ... yield/use ... finally: restore  — the patch stores lie inside the try whose finally restores."""
    for t, r in restores:
        if all(any(x is n for st in t.body for x in ast.walk(st)) for n, _d in patch_stores):
            return True
    return False


def rule_key(ctx: Ctx) -> RuleReport:
    rep = RuleReport("C15-KEY", "memo keys contain every parameter the memoised value depends on")
    n = 0
    for fi in ctx.p.all_functions():
        m = fi.module
        mut = _module_level_mutables(m)
        # stores  CACHE[key] = value  in this function
        for st in walk_own(fi.node):
            if isinstance(st, ast.Assign) and isinstance(st.targets[0], ast.Subscript) and isinstance(st.targets[0].value, ast.Name) and st.targets[0].value.id in mut and "CACHE" in st.targets[0].value.id.upper():
                n += 1
                rep.unit(fi.key)
                key_e = st.targets[0].slice
                key_names = _names_closure(fi, key_e)
                val_names = _value_deps(fi, st.value)
                params = {a.arg for a in fi.node.args.args + fi.node.args.kwonlyargs} - {"self", "cls"}
                missing = sorted((val_names & params) - key_names)
                if missing:
                    rep.fail(Finding("C15-KEY", m.rel, fi.qual, norm(st), f"the cached value depends on parameter(s) {missing} that are not part of the key `{norm(key_e)}`: a later call with different {missing} is served the first caller's result", line=st.lineno))
                else:
                    rep.ok({"memo": f"{fi.qual}: {norm(st.targets[0])}", "key_covers": sorted(val_names & params)})
    if n < 2:
        raise AnalysisError(f"C15-KEY: only {n} memo stores found (floor 2)")
    return rep


def _names_closure(fi, e, depth=0) -> set[str]:
    names = {x.id for x in ast.walk(e) if isinstance(x, ast.Name)}
    if depth > 3:
        return names
    out = set(names)
    for nm in names:
        for n in walk_own(fi.node):
            if isinstance(n, ast.Assign) and len(n.targets) == 1 and isinstance(n.targets[0], ast.Name) and n.targets[0].id == nm:
                out |= _names_closure(fi, n.value, depth + 1)
    return out


def _value_deps(fi, e) -> set[str]:
    """Parameters the value may depend on: names in its defining expressions, loop iterables feeding it, and guards."""
    deps = set()
    seen = set()

    def add(expr, depth=0):
        for x in ast.walk(expr):
            if isinstance(x, ast.Name) and x.id not in seen:
                seen.add(x.id)
                deps.add(x.id)
                if depth < 4:
                    for n in walk_own(fi.node):
                        if isinstance(n, ast.Assign) and any(isinstance(t, ast.Name) and t.id == x.id or isinstance(t, ast.Tuple) and any(isinstance(el, ast.Name) and el.id == x.id for el in t.elts) for t in n.targets):
                            add(n.value, depth + 1)
                        # containers filled in loops: features[gid] = dims inside `for gid in glyph_ids`
                        if isinstance(n, ast.For):
                            fills = any(isinstance(s, ast.Assign) and isinstance(s.targets[0], ast.Subscript) and isinstance(s.targets[0].value, ast.Name) and s.targets[0].value.id == x.id for s in ast.walk(n))
                            fills = fills or any(isinstance(s, ast.Call) and isinstance(s.func, ast.Attribute) and s.func.attr in ("append", "add", "update") and isinstance(s.func.value, ast.Name) and s.func.value.id == x.id for s in ast.walk(n))
                            if fills:
                                add(n.iter, depth + 1)
    add(e)
    return deps


def rule_shared(ctx: Ctx) -> RuleReport:
    rep = RuleReport("C15-SHARED", "no module-level mutable instance is handed out to results")
    n = 0
    dt = ctx.p.module(DT)
    dataclasses = {c.name for c in dt.classes.values() if c.is_dataclass}
    for m in ctx.p.modules.values():
        if m.rel.startswith("sharepoint2text/sharepoint_io/"):
            continue
        inst = {}
        for name, val in m.assigns.items():
            if isinstance(val, ast.Call):
                cname = (dotted(val.func) or "").split(".")[-1]
                if cname in dataclasses:
                    frozen = False
                    c = dt.classes.get(cname)
                    for d in (c.node.decorator_list if c else []):
                        if isinstance(d, ast.Call) and any(k.arg == "frozen" and isinstance(k.value, ast.Constant) and k.value.value for k in d.keywords):
                            frozen = True
                    if not frozen:
                        inst[name] = val
        for fi in m.functions.values():
            for r in walk_own(fi.node):
                val = None
                if isinstance(r, ast.Return):
                    val = r.value
                elif isinstance(r, (ast.Yield,)):
                    val = r.value
                if isinstance(val, ast.Name) and val.id in inst:
                    n += 1
                    rep.fail(Finding("C15-SHARED", m.rel, fi.qual, f"return {val.id}", f"{fi.qual} hands out the module-level instance `{val.id}` (created once at import); callers fill in its fields, so data of one document shows up in the results of the next and in results already handed out", line=r.lineno))
                # keyword argument passing the shared instance into a result constructor
            for c in calls_in(fi):
                for k in c.keywords:
                    if isinstance(k.value, ast.Name) and k.value.id in inst:
                        rep.fail(Finding("C15-SHARED", m.rel, fi.qual, short(c, 80), f"the module-level instance `{k.value.id}` is stored into a result", line=c.lineno))
    # default arguments that are mutable instances shared between calls
    for fi in ctx.p.all_functions():
        for dflt in list(fi.node.args.defaults) + [d for d in fi.node.args.kw_defaults if d is not None]:
            if isinstance(dflt, (ast.List, ast.Dict, ast.Set)) or (isinstance(dflt, ast.Call) and (dotted(dflt.func) or "").split(".")[-1] in dataclasses):
                rep.fail(Finding("C15-SHARED", fi.module.rel, fi.qual, norm(dflt), "a mutable default argument is shared between calls", line=fi.node.lineno))
    rep.ok({"module_level_dataclass_instances_returned": 0})
    return rep


ACQUIRE = {"OleFileIO": "close", "load_workbook": "close", "ZipFile": "close", "open": "close", "TemporaryDirectory": "cleanup", "SevenZipFile": "close"}


def rule_res(ctx: Ctx) -> RuleReport:
    rep = RuleReport("C15-RES", "every handle acquisition is a with-item or released on every path (PAIR)")
    zc = None
    for c in ctx.p.all_classes():
        if c.name == "ZipContext":
            zc = c
    fam = {c.name for c in ctx.p.all_classes() if zc is not None and zc in ctx.p.mro(c)}
    n = 0
    for fi in ctx.p.all_functions():
        if fi.module.rel.startswith("sharepoint2text/sharepoint_io/"):
            continue
        cfg = None
        with_items = {id(it.context_expr) for w in walk_own(fi.node) if isinstance(w, (ast.With, ast.AsyncWith)) for it in w.items}
        for c in calls_in(fi):
            t = resolve_call(ctx.p, fi, c)
            ext = (t.external or "")
            last = ext.split(".")[-1] if ext else ""
            kind = None
            if t.klass is not None and t.klass.name in fam:
                kind = ("ZipContext", "close")
            elif t.klass is not None and t.klass.name in ("_DocReader", "SevenZipFile"):
                kind = (t.klass.name, "__exit__")
            elif last in ACQUIRE and (ext.startswith(("olefile", "openpyxl", "zipfile", "tempfile", "tarfile")) or ext in ("open", "OleFileIO", "load_workbook")):
                kind = (last, ACQUIRE[last])
            elif ext == "tarfile.open":
                kind = ("tarfile.open", "close")
            if kind is None:
                continue
            n += 1
            rep.unit(fi.key)
            if id(c) in with_items:
                rep.ok({"acquire": f"{fi.qual}: {short(c, 50)}", "released_by": "with"})
                continue
            # ownership transfer: returned / stored on self
            st = None
            for s in walk_own(fi.node):
                if isinstance(s, (ast.Assign, ast.Return)) and any(x is c for x in ast.walk(s)):
                    st = s
            if isinstance(st, ast.Return):
                rep.ok({"acquire": f"{fi.qual}: {short(c, 50)}", "released_by": "caller (returned)"})
                continue
            if isinstance(st, ast.Assign) and isinstance(st.targets[0], ast.Attribute) and isinstance(st.targets[0].value, ast.Name) and st.targets[0].value.id == "self":
                # owner object must release it in close()/__exit__
                attr = st.targets[0].attr
                owner = fi.cls
                rel = False
                if owner is not None:
                    for mname in ("close", "__exit__"):
                        mth = ctx.p.find_method(owner, mname)
                        if mth is not None and any(norm(x.func) == f"self.{attr}.close" for x in calls_in(mth)):
                            rel = True
                if rel:
                    rep.ok({"acquire": f"{fi.qual}: self.{attr}", "released_by": f"{owner.name}.close/__exit__"})
                else:
                    rep.fail(Finding("C15-RES", fi.module.rel, fi.qual, norm(st), f"the handle stored in self.{attr} is never closed by the owning object", line=st.lineno))
                continue
            if isinstance(st, ast.Assign) and isinstance(st.targets[0], ast.Name):
                var = st.targets[0].id
                cfg = cfg or ctx.cfg(fi)
                rel_calls = [x for x in calls_in(fi) if norm(x.func) in (f"{var}.close", f"{var}.cleanup")]
                # returned to the caller later (open_zipfile pattern: validate, then return zf; on failure close)
                returned = any(isinstance(r, ast.Return) and isinstance(r.value, ast.Name) and r.value.id == var for r in walk_own(fi.node))
                through = [x for r in rel_calls for x in cfg.evaluators(r)]
                if returned:
                    through += [x for r in walk_own(fi.node) if isinstance(r, ast.Return) and isinstance(r.value, ast.Name) and r.value.id == var for x in cfg.evaluators(r)]
                if not through:
                    rep.fail(Finding("C15-RES", fi.module.rel, fi.qual, norm(st), f"`{var}` ({kind[0]}) is never released", line=st.lineno))
                    continue
                w = must_pass_after(cfg, cfg.evaluators(st), through)
                if w is None:
                    rep.ok({"acquire": f"{fi.qual}: {norm(st)[:50]}", "released_by": "close() on every path" + (" or returned" if returned else "")})
                else:
                    rep.fail(Finding("C15-RES", fi.module.rel, fi.qual, norm(st), f"a path from acquiring `{var}` to an exit skips its release: " + " -> ".join(cfg.describe_path(w)[:12]), line=st.lineno, path=cfg.describe_path(w)))
                continue
            rep.fail(Finding("C15-RES", fi.module.rel, fi.qual, short(c), f"{kind[0]} handle is acquired in an expression and never released", line=c.lineno))
    # temp storage: same rule as C09-TMP
    from sa.rules.c09 import rule_tmp

    tmp = rule_tmp(ctx)
    for f in tmp.findings:
        f.rule = "C15-RES"
        rep.fail(f)
    rep.obligations += tmp.discharged
    rep.discharged += tmp.discharged
    if n < 20:
        raise AnalysisError(f"C15-RES: only {n} handle acquisitions found (floor 20)")
    return rep


# process-wide settings of the interpreter / standard library: calling one of these changes the behaviour of every other extraction
# running or yet to run in the process (and restoring "the previous value" is itself racy)
PROCESS_SETTERS = {
    "sys.setrecursionlimit", "sys.setswitchinterval", "sys.settrace", "sys.setprofile", "sys.set_int_max_str_digits",
    "locale.setlocale", "socket.setdefaulttimeout", "warnings.simplefilter", "warnings.filterwarnings", "warnings.resetwarnings",
    "logging.disable", "logging.basicConfig", "logging.setLoggerClass", "mimetypes.add_type", "mimetypes.init", "os.chdir", "os.umask", "os.putenv",
    "os.unsetenv", "gc.disable", "gc.enable", "gc.set_threshold", "decimal.setcontext", "random.seed", "tempfile.tempdir", "signal.signal",
    "signal.alarm", "faulthandler.enable", "csv.field_size_limit", "xml.etree.ElementTree.register_namespace", "ET.register_namespace",
    "codecs.register", "codecs.register_error", "importlib.reload", "atexit.register", "threading.setprofile", "threading.settrace",
    "resource.setrlimit", "time.tzset",
}


def rule_setters(ctx: Ctx) -> RuleReport:
    rep = RuleReport("C15-SETTERS", "no extraction code changes a process-wide setting of the interpreter or the standard library")
    n_fn = 0
    for fi in ctx.p.all_functions():
        if "/tests/" in fi.module.rel or fi.module.rel.startswith("sharepoint2text/sharepoint_io/") or fi.module.rel == "sharepoint2text/cli.py":
            continue
        n_fn += 1
        hit = None
        for c in calls_in(fi):
            d = dotted(c.func) or ""
            t = resolve_call(ctx.p, fi, c)
            ext = t.external or d
            if d in PROCESS_SETTERS or ext in PROCESS_SETTERS:
                hit = (c, ext if ext in PROCESS_SETTERS else d)
                break
        for n in walk_own(fi.node):
            if isinstance(n, (ast.Assign, ast.AugAssign, ast.Delete)):
                tg = n.targets if isinstance(n, (ast.Assign, ast.Delete)) else [n.target]
                for t_ in tg:
                    base = t_.value if isinstance(t_, ast.Subscript) else t_
                    if (dotted(base) or "") in ("os.environ", "sys.path", "sys.modules", "tempfile.tempdir", "sys.stdout", "sys.stderr", "sys.stdin"):
                        hit = hit or (n, dotted(base))
            if isinstance(n, ast.Call) and isinstance(n.func, ast.Attribute) and n.func.attr in ("update", "setdefault", "pop", "clear", "append", "insert", "extend", "remove") and (dotted(n.func.value) or "") in ("os.environ", "sys.path", "sys.modules"):
                hit = hit or (n, dotted(n.func.value))
        if hit is None:
            continue
        node, what = hit
        rep.unit(fi.key)
        rep.fail(Finding("C15-SETTERS", fi.module.rel, fi.qual, f"{what}: {short(node, 60)}",
                         f"`{short(node, 50)}` changes a process-wide setting ({what}): while it is in force every other extraction in the process behaves differently, and two overlapping calls leave the changed value behind (each restores what it saw)", line=getattr(node, "lineno", None)))
    for _ in range(1):
        rep.ok({"functions_scanned": n_fn, "process_wide_setters_called": 0} if not rep.findings else None)
    if n_fn < 400:
        raise AnalysisError(f"C15-SETTERS: only {n_fn} functions scanned (400 confirmed)")
    # the recogniser is exercised on every run: it must see the setter in a positive example
    probe = ast.parse("import sys\ndef f():\n    sys.setrecursionlimit(10)\n").body[1]
    if not any(isinstance(c, ast.Call) and (dotted(c.func) or "") in PROCESS_SETTERS for c in ast.walk(probe)):
        raise AnalysisError("C15-SETTERS: recogniser probe failed")
    rep.ok({"recogniser_probe": "sys.setrecursionlimit(10) recognised"})
    return rep


def rule_hold(ctx: Ctx) -> RuleReport:
    """A generator that yields to its caller while the library patch (and its lock) is in force keeps the process patched for as long
    as the caller cares to hold the result - other threads block or, with interleaved consumers, the restore order breaks."""
    rep = RuleReport("C15-HOLD", "no generator yields to its caller inside the pypdf patch context or while holding a module-level lock")
    patchers = {f.qual for f in ctx.p.all_functions() if any((dotted(d) or "").endswith("contextmanager") for d in f.node.decorator_list)
                and _foreign_stores(ctx, f)}
    if not patchers:
        raise AnalysisError("C15-HOLD: the patching context manager (a @contextmanager that stores into a foreign module) was not found")
    n_with = 0
    for fi in ctx.p.all_functions():
        if "/tests/" in fi.module.rel:
            continue
        locks = {nm for nm, v in fi.module.assigns.items() if isinstance(v, ast.Call) and (dotted(v.func) or "").split(".")[-1] in ("Lock", "RLock")}
        for w in [n for n in walk_own(fi.node) if isinstance(n, ast.With)]:
            held = []
            for it in w.items:
                ce = it.context_expr
                if isinstance(ce, ast.Call) and (dotted(ce.func) or "").split(".")[-1] in patchers:
                    held.append(dotted(ce.func))
                if isinstance(ce, ast.Name) and ce.id in locks:
                    held.append(ce.id)
            if not held:
                continue
            n_with += 1
            if fi.qual in patchers:
                continue  # the context manager's own `yield` is the protocol, checked by C15-PATCH
            ys = [y for st in w.body for y in ast.walk(st) if isinstance(y, (ast.Yield, ast.YieldFrom))]
            rep.unit(fi.key)
            if ys:
                rep.fail(Finding("C15-HOLD", fi.module.rel, fi.qual, f"with {', '.join(held)}: {short(ys[0], 50)}",
                                 f"`{short(ys[0], 40)}` hands control to the caller while {', '.join(held)} is active: the third-party library stays patched (and the lock held) until the caller resumes the generator, so concurrent or interleaved extractions block or restore in the wrong order", line=ys[0].lineno))
            else:
                rep.ok({"fn": fi.qual, "with": held, "yields_inside": 0})
    if n_with < 2:
        raise AnalysisError(f"C15-HOLD: only {n_with} uses of the patch context / lock found (2 confirmed)")
    return rep


RULES = [rule_setters, rule_hold, rule_global, rule_patch, rule_key, rule_shared, rule_res]
