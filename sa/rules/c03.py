"""C03 — units mirror pages / slides / sheets / chapters / messages."""
from __future__ import annotations

import ast

from sa.engine.callgraph import calls_in, resolve_call
from sa.engine.cfg import CFG
from sa.engine.context import Ctx
from sa.engine.guards import path_conditions
from sa.engine.loader import AnalysisError, anorm, dotted, local_names, norm, short, walk_own, is_noise
from sa.engine.loops import LoopAnalysis
from sa.engine.report import Finding, RuleReport
from sa.rules.c14 import _may_raise
from sa.rules.common import DT, X

EXPLANATION = (
    "That unit k holds the text of page k is value-level and not decided. Decided: (JOIN) for the formats whose documentation "
    "derives the full text from the units, get_full_text() is exactly strip(newline-join(unit texts of self.iterate_units(<its "
    "own parameters>))) — through the shared helper or inlined — and reads no other field of the result. (NUM) numbering "
    "discipline: every unit's metadata reports the unit's own number field; unit numbers come from enumerate(start=1) over "
    "the unit collection or from the number stored on the element; the extractor numbers elements with enumerate(start=1) "
    "/ an unconditional counter over the source sequence; and the loop that fills a collection numbered by position appends "
    "exactly one element per source element on every path (exceptional paths included), so positions are source positions. "
    "(ONCE) the per-unit constructor receives the element's own text field and nothing is yielded conditionally except "
    "blank RTF pages."
    " (KIND) a sheet looked up by name in an openpyxl workbook may be a chart sheet: worksheet-only attributes are used only under a test of the sheet's kind. (PART) heading-section units of docx / doc / odt: the flush helper never leaves without a unit unless the collected text was tested to be empty, headings are recognised from style / outline fields and not from the wording, no paragraph is skipped on a predicate over its style name (three open known findings, pinned by the repository's own tests)."
)
NOT_DECIDED = ["that unit k holds the text of page k", "heading-section units of docx/doc/odt (text partition is value level)", "mbox message boundaries (regex semantics)",
               "legacy PPT slide lists: text-less slides are dropped when any slide has text (open known finding)"]
TRUSTED = ["pypdf reader.pages, openpyxl sheetnames, xlrd sheets(), ElementTree findall enumerate the source units in order", "CFG path enumeration"]
FLOORS = {"C03-FILT": 2, "C03-JOIN": 11, "C03-NUM": 25, "C03-FILL": 8, "C03-SEP": 36, "C03-COVER": 6, "C03-KIND": 1, "C03-PART": 5, "C03-REF": 3, "C03-SPINE": 2}

JOIN_CLASSES = ["PdfContent", "PptxContent", "OdpContent", "XlsxContent", "OdsContent", "EpubContent", "HtmlContent", "PlainTextContent", "EmailContent", "OdgContent", "OdfContent"]
# content class -> (collection, how the number is obtained in iterate_units: 'enumerate' | '<field on element>')
NUMBERED = {
    "PdfContent": ("pages", "enumerate"),
    "PptxContent": ("slides", "slide_number"),
    "PptContent": ("slides", "slide_number"),
    "OdpContent": ("slides", "slide_number"),
    "XlsxContent": ("sheets", "enumerate"),
    "XlsContent": ("sheets", "enumerate"),
    "OdsContent": ("sheets", "enumerate"),
    "RtfContent": ("pages", "enumerate"),
    "EpubContent": ("chapters", "chapter_number"),
}


def rule_join(ctx: Ctx) -> RuleReport:
    rep = RuleReport("C03-JOIN", "get_full_text() == strip(newline-join(unit texts)) for the documented formats")
    dt = ctx.p.module(DT)
    helper = ctx.p.func(DT, "_join_unit_text")
    hb = [anorm(s, helper.node) for s in helper.node.body if not is_noise(s)]
    prm = helper.node.args.args[0].arg if helper.node.args.args else "units"
    if hb == [f"return '\\n'.join((v0.get_text() for v0 in {prm})).strip()"]:
        rep.ok({"_join_unit_text": "strip(newline-join(get_text))"})
    else:
        rep.fail(Finding("C03-JOIN", DT, helper.qual, " ; ".join(hb), "_join_unit_text is no longer the trimmed newline-join of the unit texts", line=helper.node.lineno))
    for cname in JOIN_CLASSES:
        c = dt.classes.get(cname)
        if c is None:
            raise AnalysisError(f"C03-JOIN: class {cname} vanished")
        g = c.methods.get("get_full_text")
        iu = c.methods.get("iterate_units")
        if g is None or iu is None:
            raise AnalysisError(f"C03-JOIN: {cname} lacks get_full_text / iterate_units")
        rep.unit(g.key)
        body = [s for s in g.node.body if not is_noise(s)]
        ok = False
        if len(body) == 1 and isinstance(body[0], ast.Return) and isinstance(body[0].value, ast.Call):
            call = body[0].value
            t = resolve_call(ctx.p, g, call)
            if any(h is helper for h in t.funcs) and len(call.args) == 1 and isinstance(call.args[0], ast.Call) and norm(call.args[0].func) == "self.iterate_units":
                inner = call.args[0]
                params = [a.arg for a in g.node.args.args[1:]]
                passed = {k.arg: norm(k.value) for k in inner.keywords}
                ok = all(passed.get(p) == p for p in params) and not inner.args
            # inlined form
            if not ok and anorm(call, g.node) in ("'\\n'.join((v0.get_text() for v0 in self.iterate_units())).strip()",):
                ok = True
        if ok:
            rep.ok({"class": cname, "get_full_text": "_join_unit_text(self.iterate_units(<own parameters>))"})
        else:
            rep.fail(Finding("C03-JOIN", DT, g.qual, " ; ".join(norm(s) for s in body)[:200], f"{cname}.get_full_text is not the trimmed newline-join of the texts of self.iterate_units(...) (with its own parameters passed through): it can differ from the units (cached value, other field, dropped flag)", line=g.node.lineno))
        # no other state consulted
        reads = {n.attr for n in walk_own(g.node) if isinstance(n, ast.Attribute) and isinstance(n.value, ast.Name) and n.value.id == "self"}
        extra = reads - {"iterate_units"}
        if extra:
            rep.fail(Finding("C03-JOIN", DT, g.qual, ",".join(sorted(extra)), f"{cname}.get_full_text reads self.{sorted(extra)} besides the units", line=g.node.lineno))
    return rep


def _unit_ctor_in(fi):
    out = []
    for n in walk_own(fi.node):
        if isinstance(n, ast.Yield) and isinstance(n.value, ast.Call):
            out.append((n, n.value))
        elif isinstance(n, ast.Yield) and n.value is not None:
            out.append((n, None))
    return out


def rule_num(ctx: Ctx) -> RuleReport:
    rep = RuleReport("C03-NUM", "unit numbers are the 1-based source positions (wiring, enumerate/start, element numbers)")
    dt = ctx.p.module(DT)
    for cname, (coll, how) in NUMBERED.items():
        c = dt.classes.get(cname)
        if c is None:
            raise AnalysisError(f"C03-NUM: class {cname} vanished")
        iu = c.methods["iterate_units"]
        rep.unit(iu.key)
        loops = [l for l in walk_own(iu.node) if isinstance(l, ast.For) and f"self.{coll}" in norm(l.iter)]
        if not loops:
            rep.fail(Finding("C03-NUM", DT, iu.qual, f"self.{coll}", f"{cname}.iterate_units does not iterate self.{coll}", line=iu.node.lineno))
            continue
        l = loops[0]
        ys = [(y, ctor) for y, ctor in _unit_ctor_in(iu) if any(x is y for x in ast.walk(l))]
        if not ys:
            rep.fail(Finding("C03-NUM", DT, iu.qual, short(l, 60), "no unit is yielded inside the loop over the unit collection", line=l.lineno))
            continue
        if how == "enumerate":
            it = l.iter
            good = isinstance(it, ast.Call) and dotted(it.func) == "enumerate" and norm(it.args[0]) == f"self.{coll}" and (
                any(k.arg == "start" and isinstance(k.value, ast.Constant) and k.value.value == 1 for k in it.keywords) or (len(it.args) > 1 and isinstance(it.args[1], ast.Constant) and it.args[1].value == 1))
            if good:
                rep.ok({"class": cname, "numbers": f"enumerate(self.{coll}, start=1)"})
            else:
                rep.fail(Finding("C03-NUM", DT, iu.qual, norm(it), f"{cname} units are not numbered by enumerate(self.{coll}, start=1): numbers are not the 1-based positions", line=l.lineno))
                continue
            idx = l.target.elts[0].id if isinstance(l.target, ast.Tuple) and isinstance(l.target.elts[0], ast.Name) else None
        else:
            idx = None
        for y, ctor in ys:
            if ctor is None:
                # yields the stored element itself (EPUB chapters)
                if how != "enumerate":
                    rep.ok({"class": cname, "yields": "stored unit objects (number field set by the extractor)"})
                continue
            unit_cls = (dotted(ctor.func) or "").split(".")[-1]
            uc = dt.classes.get(unit_cls)
            if uc is None:
                continue
            # number keyword of the unit constructor = the field get_metadata reports
            gm = uc.methods.get("get_metadata")
            nf = None
            if gm is not None:
                for n in walk_own(gm.node):
                    if isinstance(n, ast.Call):
                        for k in n.keywords:
                            if k.arg == "unit_number" and isinstance(k.value, ast.Attribute) and isinstance(k.value.value, ast.Name) and k.value.value.id == "self":
                                nf = k.value.attr
            if nf is None:
                rep.fail(Finding("C03-NUM", DT, f"{unit_cls}.get_metadata", "unit_number", f"{unit_cls}.get_metadata does not report unit_number=self.<number field>", line=uc.node.lineno))
                continue
            rep.ok({"unit": unit_cls, "metadata_reports": f"self.{nf}"})
            kw = [k for k in ctor.keywords if k.arg == nf]
            if not kw:
                rep.fail(Finding("C03-NUM", DT, iu.qual, short(ctor, 80), f"{unit_cls} is built without its number `{nf}`", line=ctor.lineno))
                continue
            val = norm(kw[0].value)
            elem = l.target.elts[1].id if isinstance(l.target, ast.Tuple) and len(l.target.elts) > 1 and isinstance(l.target.elts[1], ast.Name) else (l.target.id if isinstance(l.target, ast.Name) else "?")
            want = idx if how == "enumerate" else f"{elem}.{how}"
            if val == want:
                rep.ok({"class": cname, "unit_number": val})
            else:
                rep.fail(Finding("C03-NUM", DT, iu.qual, f"{nf}={val}", f"{cname} passes `{val}` as the unit number; expected `{want}` (the 1-based position of the element)", line=ctor.lineno))
            # conditional yields: only RTF's blank-page skip
            conds, opaque, _ = path_conditions(iu.node, _stmt_of(iu.node, y), terminals=("continue", "return", "break"))
            cs = {str(x) for x in conds} - {f"self.{coll}"}
            allowed = {f"{elem}.strip()"} if cname == "RtfContent" else set()  # RTF: a blank page has no unit (its number is still consumed)
            if cs - allowed or opaque:
                rep.fail(Finding("C03-NUM", DT, iu.qual, "yield if " + " and ".join(sorted(cs) + opaque), f"{cname} yields a unit only under `{' and '.join(sorted(cs) + opaque)}`: some source units get no unit", line=y.lineno))
            else:
                rep.ok()
    # element numbers assigned by the extractors
    sites = [
        (X + "ms_modern/pptx_extractor.py", "read_pptx", "_process_slide_from_context", 2),
        (X + "open_office/odp_extractor.py", "read_odp", "_extract_slide", 2),
        (X + "ms_legacy/ppt_extractor.py", "_build_slides_from_text_blocks", "PptSlideContent", "slide_number"),
    ]
    for rel, fn, callee, argpos in sites:
        f = ctx.p.func(rel, fn)
        rep.unit(f.key)
        cs = [c for c in calls_in(f) if (dotted(c.func) or "").split(".")[-1] == callee]
        if not cs:
            raise AnalysisError(f"C03-NUM: {callee} call vanished from {fn}")
        for c in cs:
            a = None
            if isinstance(argpos, int) and len(c.args) > argpos:
                a = c.args[argpos]
            elif isinstance(argpos, str):
                a = next((k.value for k in c.keywords if k.arg == argpos), None)
            loop = None
            for l in walk_own(f.node):
                if isinstance(l, ast.For) and any(x is c for x in ast.walk(l)):
                    loop = l
            good = False
            if isinstance(a, ast.Name) and loop is not None and isinstance(loop.iter, ast.Call) and dotted(loop.iter.func) == "enumerate" and isinstance(loop.target, ast.Tuple) and isinstance(loop.target.elts[0], ast.Name) and loop.target.elts[0].id == a.id:
                st = [k.value for k in loop.iter.keywords if k.arg == "start"] + list(loop.iter.args[1:2])
                good = bool(st) and isinstance(st[0], ast.Constant) and st[0].value == 1
            if good:
                rep.ok({"extractor": fn, "element_number": f"enumerate(..., start=1) -> {callee}"})
            else:
                rep.fail(Finding("C03-NUM", rel, fn, short(c, 80), f"the number handed to {callee} is not the index of enumerate(<source sequence>, start=1)", line=c.lineno))
    # EPUB: unconditional counter over the spine
    re_ = ctx.p.func(X + "epub_extractor.py", "read_epub")
    loops = [l for l in walk_own(re_.node) if isinstance(l, ast.For) and isinstance(l.iter, ast.Attribute) and l.iter.attr == "spine"]
    first = loops[0].body[0] if loops else None
    ctr = first.target.id if isinstance(first, ast.AugAssign) and isinstance(first.target, ast.Name) and isinstance(first.op, ast.Add) and isinstance(first.value, ast.Constant) and first.value.value == 1 else None
    zeroed = ctr is not None and any(isinstance(n, ast.Assign) and len(n.targets) == 1 and isinstance(n.targets[0], ast.Name) and n.targets[0].id == ctr and isinstance(n.value, ast.Constant) and n.value.value == 0 and n.lineno < loops[0].lineno for n in walk_own(re_.node))
    other_writes = ctr is not None and [n for n in ast.walk(loops[0]) if isinstance(n, (ast.Assign, ast.AugAssign)) and n is not first and any(isinstance(t, ast.Name) and t.id == ctr for t in (n.targets if isinstance(n, ast.Assign) else [n.target]))]
    used = ctr is not None and any(isinstance(c, ast.Call) and any(isinstance(a, ast.Name) and a.id == ctr for a in list(c.args) + [k.value for k in c.keywords]) for c in ast.walk(loops[0]))
    if loops and ctr and zeroed and not other_writes and used:
        rep.ok({"epub": "chapter_number counts every spine item, first statement of the loop"})
    else:
        rep.fail(Finding("C03-NUM", X + "epub_extractor.py", "read_epub", "chapter_number", "EPUB chapter numbers are no longer an unconditional 1-based count of the spine items", line=re_.node.lineno))
    # PPT fallback slide: number must not repeat an existing one
    pp = ctx.p.func(X + "ms_legacy/ppt_extractor.py", "_parse_ppt_document")
    for c in calls_in(pp):
        if (dotted(c.func) or "") == "PptSlideContent":
            v = next((norm(k.value) for k in c.keywords if k.arg == "slide_number"), None)
            conds, _, _ = path_conditions(pp.node, _stmt_of(pp.node, c))
            cs = {str(x) for x in conds}
            if v == "len(content.slides) + 1" or (v == "1" and "not content.slides" in cs):
                rep.ok({"ppt_fallback_slide": v})
            else:
                rep.fail(Finding("C03-NUM", X + "ms_legacy/ppt_extractor.py", pp.qual, f"PptSlideContent(slide_number={v})", f"the raw-text fallback slide is numbered `{v}` although slides may already exist (guards: {sorted(cs)}): two units carry the same number", line=c.lineno))
    return rep


def _stmt_of(fn, node):
    best = None
    for st in ast.walk(fn):
        if isinstance(st, ast.stmt) and not isinstance(st, (ast.FunctionDef, ast.AsyncFunctionDef)) and any(x is node for x in ast.walk(st)):
            if best is None or any(x is st for x in ast.walk(best)):
                best = st
    return best


FILL_SITES = [
    # (module, function, role of the list that becomes the unit collection): ("kw", field) = the local passed as that keyword to the
    # result constructor; ("ret",) = the local list the function returns; ("expr", text) = an attribute path on a parameter
    (X + "pdf/pdf_extractor.py", "read_pdf", ("kw", "pages")),
    (X + "ms_modern/pptx_extractor.py", "read_pptx", ("kw", "slides")),
    (X + "open_office/odp_extractor.py", "read_odp", ("kw", "slides")),
    (X + "ms_modern/xlsx_extractor.py", "_read_content_from_workbook", ("ret",)),
    (X + "ms_legacy/xls_extractor.py", "_read_content", ("ret",)),
    (X + "open_office/ods_extractor.py", "read_ods", ("kw", "sheets")),
    (X + "ms_legacy/ppt_extractor.py", "_build_slides_from_text_blocks", ("expr", "content.slides")),
    # one result per mailbox message: the generator loop yields exactly once per split message
    (X + "mail/mbox_email_extractor.py", "read_mbox_format_mail", ("yield", "_split_mbox_messages")),
]


def _role_var(f, role):
    """The spelling, in this function, of the list that plays `role` (independent of how the local variable is named)."""
    if role[0] == "expr":
        return {role[1]}
    out = set()
    if role[0] == "kw":
        for c in calls_in(f):
            for k in c.keywords:
                if k.arg == role[1] and isinstance(k.value, ast.Name):
                    out.add(k.value.id)
    else:
        for n in walk_own(f.node):
            if isinstance(n, ast.Return) and isinstance(n.value, ast.Name):
                out.add(n.value.id)
            elif isinstance(n, ast.Return) and isinstance(n.value, ast.Tuple):
                out |= {e.id for e in n.value.elts if isinstance(e, ast.Name)}
    # keep only names that are lists filled by append inside a loop
    keep = set()
    for nm in out:
        if any(isinstance(c.func, ast.Attribute) and c.func.attr == "append" and norm(c.func.value) == nm for c in calls_in(f)):
            keep.add(nm)
    return keep


def rule_fill(ctx: Ctx) -> RuleReport:
    rep = RuleReport("C03-FILL", "the loop that fills a unit collection appends exactly one element per source element on every path")
    for rel, fn, role in FILL_SITES:
        f = ctx.p.func(rel, fn)
        rep.unit(f.key)
        if role[0] == "yield":
            src = {n.targets[0].id for n in walk_own(f.node) if isinstance(n, ast.Assign) and len(n.targets) == 1 and isinstance(n.targets[0], ast.Name)
                   and isinstance(n.value, ast.Call) and (dotted(n.value.func) or "").split(".")[-1] == role[1]}
            loops = [l for l in walk_own(f.node) if isinstance(l, ast.For) and ((isinstance(l.iter, ast.Name) and l.iter.id in src) or (isinstance(l.iter, ast.Call) and (dotted(l.iter.func) or "").split(".")[-1] == role[1]))]
            if len(loops) != 1:
                raise AnalysisError(f"C03-FILL: the loop over {role[1]}(...) in {f.key} was not found")
            loop = loops[0]
            apps = [y for y in ast.walk(loop) if isinstance(y, ast.Yield)]
            if not apps:
                raise AnalysisError(f"C03-FILL: no yield in the message loop of {f.key}")
            _fill_paths(ctx, rep, rel, fn, f, loop, apps, "the result generator", _filtered_source(ctx, f, loop))
            continue
        names = _role_var(f, role)
        if len(names) != 1:
            raise AnalysisError(f"C03-FILL: cannot identify the unit collection ({role}) in {f.key}: candidates {sorted(names)}")
        var = next(iter(names))
        apps = [c for c in calls_in(f) if isinstance(c.func, ast.Attribute) and c.func.attr == "append" and norm(c.func.value) == var]
        if not apps:
            raise AnalysisError(f"C03-FILL: no `{var}.append(...)` in {f.key}")
        loops = [l for l in walk_own(f.node) if isinstance(l, (ast.For, ast.While)) and any(any(x is a for x in ast.walk(l)) for a in apps)]
        if not loops:
            raise AnalysisError(f"C03-FILL: `{var}.append` of {f.key} is not inside a loop")
        # innermost loop that contains all appends
        loop = sorted(loops, key=lambda l: -l.lineno)[0]
        _fill_paths(ctx, rep, rel, fn, f, loop, apps, f"`{var}`", _filtered_source(ctx, f, loop))
    return rep


def _filtered_source(ctx, f, loop):
    """The expression that selects a subset of the source sequence before the fill loop sees it (comprehension `if`, filter()), or None."""
    if not isinstance(loop, ast.For):
        return None

    def filt(e):
        if isinstance(e, ast.Call) and isinstance(e.func, ast.Name) and e.func.id in ("list", "tuple", "sorted", "enumerate", "iter", "reversed") and e.args:
            return filt(e.args[0])
        if isinstance(e, (ast.ListComp, ast.GeneratorExp, ast.SetComp)) and any(g.ifs for g in e.generators):
            return e
        if isinstance(e, ast.Call) and isinstance(e.func, ast.Name) and e.func.id == "filter":
            return e
        return None

    it = loop.iter
    if isinstance(it, ast.Call) and isinstance(it.func, ast.Name) and it.func.id == "enumerate" and it.args:
        it = it.args[0]
    r = filt(it)
    if r is not None:
        return r
    if isinstance(it, ast.Name):
        params = [a.arg for a in f.node.args.args]
        for n in walk_own(f.node):
            if isinstance(n, ast.Assign) and any(isinstance(t, ast.Name) and t.id == it.id for t in n.targets):
                r = filt(n.value)
                if r is not None:
                    return r
        if it.id in params:
            idx = params.index(it.id)
            for g in ctx.p.all_functions():
                if g.module is not f.module:
                    continue
                for c in calls_in(g):
                    if any(h is f for h in resolve_call(ctx.p, g, c).funcs):
                        a = c.args[idx] if idx < len(c.args) else next((k.value for k in c.keywords if k.arg == it.id), None)
                        if a is None:
                            continue
                        r = filt(a)
                        if r is None and isinstance(a, ast.Name):
                            for n in walk_own(g.node):
                                if isinstance(n, ast.Assign) and any(isinstance(t, ast.Name) and t.id == a.id for t in n.targets):
                                    r = r or filt(n.value)
                        if r is not None:
                            return r
    return None


def _fill_paths(ctx, rep, rel, fn, f, loop, apps, what, filtered):
    if filtered is not None:
        rep.fail(Finding("C03-FILL", rel, fn, "source filtered: " + short(filtered, 80),
                         f"the sequence of source units is filtered (`{short(filtered, 60)}`) before the loop that fills {what}: units are numbered by position, so a dropped unit shifts the numbers of all later ones and its content is in no unit", line=filtered.lineno))
        return
    cfg = CFG(f.node, _may_raise_wide)
    la = LoopAnalysis(f.node, cfg, loop)
    paths, capped = la.paths()
    if capped:
        rep.obligations += 1
        rep.residual.append(f"{f.key}: fill loop has more than 4096 paths; not judged")
        return
    bad = None
    for p in paths:
        n = 0
        for nid, lab in p:
            nd = cfg.nodes[nid]
            if lab in ("exc", "inner") or nd.kind != "stmt":
                continue
            for x in ast.walk(nd.ast):
                if any(x is a for a in apps):
                    n += 1
        if n != 1:
            bad = (p, n)
            break
    if bad is None:
        rep.ok({"fill_loop": f"{fn}: for ... in {short(loop.iter, 40) if isinstance(loop, ast.For) else '?'}", "paths": len(paths), "elements_per_source_unit": 1})
    else:
        p, n = bad
        rep.fail(Finding("C03-FILL", rel, fn, f"loop `{short(loop, 60)}`", f"a path through one iteration of the loop that fills {what} produces {n} element(s) instead of exactly one: units are numbered by position, so every later unit gets the wrong number ({' -> '.join(cfg.describe_path([x for x, _ in p])[:12])})", line=loop.lineno, path=cfg.describe_path([x for x, _ in p])))


def _may_raise_wide(stmt) -> bool:
    """Per-unit extraction calls can fail on document content; a handler inside the loop makes such failures skip the append."""
    for n in ast.walk(stmt):
        if isinstance(n, ast.Call) and not (dotted(n.func) or "").startswith(("logger.", "len", "str", "list", "sum")):
            return True
        if isinstance(n, ast.Raise):
            return True
    return False


def rule_filt(ctx: Ctx) -> RuleReport:
    """Slide lists built from boundary records: a slide must be kept whatever its text is."""
    rep = RuleReport("C03-FILT", "per-slide entries of the legacy PPT slide list are kept independently of their content")
    PPT = X + "ms_legacy/ppt_extractor.py"
    f = ctx.p.func(PPT, "_parse_slide_list_container")
    rep.unit(f.key)
    rv = _role_var(f, ("ret",))
    if len(rv) != 1:
        raise AnalysisError(f"C03-FILT: cannot identify the slide list returned by _parse_slide_list_container ({sorted(rv)})")
    lst = next(iter(rv))
    apps = sorted([c for c in calls_in(f) if isinstance(c.func, ast.Attribute) and c.func.attr == "append" and norm(c.func.value) == lst], key=lambda c: c.lineno)
    if not apps:
        raise AnalysisError("C03-FILT: the slide list is no longer filled by append in _parse_slide_list_container")
    # locals that hold what was read for the current slide: the appended value and every flag set where text is collected into it
    locs = local_names(f.node)
    appended = {a.args[0].id for a in apps if a.args and isinstance(a.args[0], ast.Name)}
    text_vars = set(appended)
    for n in walk_own(f.node):
        if isinstance(n, ast.If) or isinstance(n, (ast.For, ast.While)):
            continue
    for blk in [n for n in ast.walk(f.node) if isinstance(n, (ast.If, ast.For, ast.While, ast.FunctionDef))]:
        body = getattr(blk, "body", [])
        if any(isinstance(x, ast.Call) and isinstance(x.func, ast.Attribute) and x.func.attr in ("append", "extend") and isinstance(x.func.value, ast.Name) and x.func.value.id in appended for st in body for x in ast.walk(st)):
            for st in body:
                if isinstance(st, ast.Assign) and len(st.targets) == 1 and isinstance(st.targets[0], ast.Name) and isinstance(st.value, ast.Constant) and st.value.value is True:
                    text_vars.add(st.targets[0].id)  # a flag raised exactly where slide text is stored
    content_dependent = []
    for a in apps:
        conds, opaque, _ = path_conditions(f.node, _stmt_of(f.node, a))
        dep = []
        for x in conds:
            try:
                e = ast.parse(str(x), mode="eval")
            except SyntaxError:
                continue
            if {n.id for n in ast.walk(e) if isinstance(n, ast.Name)} & text_vars:
                dep.append(str(x))
        if dep:
            content_dependent.append((a, sorted(dep)))
    if content_dependent:
        a, dep = content_dependent[0]
        rep.fail(Finding("C03-FILT", PPT, f.qual, "slide kept only if its text is non-empty", f"a slide is kept only under {dep}: once any slide has text, text-less slides are dropped from the list and _build_slides_from_text_blocks numbers the remaining ones consecutively, so every later slide gets a smaller number than its source position", line=a.lineno))
    else:
        rep.ok({"_parse_slide_list_container": "every SlidePersistAtom boundary yields one entry"})
    # RTF: pages are numbered by position, so flush_page must record every page, empty or not
    RTF = X + "ms_legacy/rtf_extractor.py"
    fp = ctx.p.func(RTF, "_RtfParser._strip_rtf_full_with_pages.<locals>.flush_page")
    rep.unit(fp.key)
    pa = [c for c in calls_in(fp) if isinstance(c.func, ast.Attribute) and c.func.attr == "append" and norm(c.func.value) == "self.pages"]
    if not pa:
        raise AnalysisError("C03-FILT: self.pages.append vanished from flush_page")
    for a in pa:
        conds, opaque, _ = path_conditions(fp.node, _stmt_of(fp.node, a))
        cs = sorted(str(x) for x in conds) + opaque
        if cs:
            rep.fail(Finding("C03-FILT", RTF, fp.qual, "self.pages.append(page_text) if " + " and ".join(cs), f"a page is recorded only under {cs}: an empty page is dropped and every later page is numbered one too low (image/table page numbers are counted from the page breaks and then disagree)", line=a.lineno))
        else:
            rep.ok({"flush_page": "every page is recorded (position = page number)"})
    return rep



def rule_cover(ctx: Ctx) -> RuleReport:
    """Units cover the body: a piece of text that is stored in no unit field on some path is in no unit (C02-SINK from this side)."""
    from sa.rules.c02 import rule_sink

    rep = rule_sink(ctx)
    rep.rule = "C03-COVER"
    rep.description = "text taken from a page / slide element is stored into a unit field on every path (no piece ends up in no unit)"
    for f in rep.findings:
        f.rule = "C03-COVER"
    return rep

def rule_sep(ctx: Ctx) -> RuleReport:
    """One unit per message of a mailbox: the separator pattern finds every From_ line (all writer forms, LF and CRLF) and nothing else.
    The check is C16-SEP's; here it is the obligation 'units mirror messages'."""
    from sa.rules import c16

    src = c16.rule_sep(ctx)
    rep = RuleReport("C03-SEP", "mbox: every separator line starts a unit, nothing else does (finite table of contexts x line ends x From_ line forms)")
    rep.obligations, rep.discharged, rep.residual, rep.info, rep.samples, rep.units = src.obligations, src.discharged, src.residual, src.info, src.samples, src.units
    for f in src.findings:
        rep.findings.append(Finding("C03-SEP", f.file, f.function, f.construct, f.message, line=f.line))
    return rep


# ----------------------------------------------------------------------------------------------- KIND
XLSX = X + "ms_modern/xlsx_extractor.py"
# openpyxl: Workbook[name] is a Worksheet (ReadOnlyWorksheet in read-only mode) or a Chartsheet ("Move chart > New sheet"); these exist on worksheets only
WORKSHEET_ONLY = {"iter_rows", "iter_cols", "rows", "columns", "values", "cell", "max_row", "max_column", "min_row", "min_column", "dimensions", "calculate_dimension", "reset_dimensions",
                  "merged_cells", "_images", "_charts", "_cells", "row_dimensions", "column_dimensions", "tables", "data_validations", "conditional_formatting"}


def _ws_only_uses(ctx, fi, var: str, depth=0):
    """(node, attribute) for every worksheet-only attribute read on `var` in fi or, one level down, in module functions var is passed to."""
    out = []
    for n in ast.walk(fi.node):
        if isinstance(n, ast.Attribute) and isinstance(n.value, ast.Name) and n.value.id == var and n.attr in WORKSHEET_ONLY:
            out.append((n, n.attr, n))
    if depth < 2:
        for c in calls_in(fi):
            for k, a in enumerate(c.args):
                if isinstance(a, ast.Name) and a.id == var:
                    for g in resolve_call(ctx.p, fi, c).funcs:
                        ps = [x.arg for x in g.node.args.args]
                        if k < len(ps):
                            for (_n, attr, _site) in _ws_only_uses(ctx, g, ps[k], depth + 1):
                                out.append((c, attr, c))
    return out


def rule_kind(ctx: Ctx) -> RuleReport:
    rep = RuleReport("C03-KIND", "a sheet looked up by name in an openpyxl workbook may be a chart sheet: worksheet-only attributes are used only under a test of the sheet's kind, "
                     "so one chart sheet does not make every sheet of the workbook unreadable")
    m = ctx.p.module(XLSX)
    n_sites = 0
    for fi in m.functions.values():
        for st in walk_own(fi.node):
            if not (isinstance(st, ast.Assign) and len(st.targets) == 1 and isinstance(st.targets[0], ast.Name) and isinstance(st.value, ast.Subscript) and isinstance(st.value.value, ast.Name)):
                continue
            # a sheet lookup is recognised by what is done with its result (worksheet-only attributes, directly or one call down), not by
            # the spelling of the workbook variable
            var = st.targets[0].id
            uses = _ws_only_uses(ctx, fi, var)
            if not uses:
                continue
            n_sites += 1
            rep.unit(fi.key)
            for node, attr, site in uses:
                conds, opaque, _ = path_conditions(fi.node, site, terminals=("continue", "return", "break", "raise"))
                cs = {str(c) for c in conds} | set(opaque)
                guarded = any((f"hasattr({var}" in c and not c.startswith("not ")) or (f"isinstance({var}" in c and "Chartsheet" not in c and not c.startswith("not ")) or (c.startswith("not ") and f"isinstance({var}" in c and "Chartsheet" in c) for c in cs)
                if guarded:
                    rep.ok({"sheet_lookup": f"{fi.qual}: {norm(st)}", "use": f"{short(site, 40)} -> .{attr}", "under": sorted(cs)})
                else:
                    rep.fail(Finding("C03-KIND", XLSX, fi.qual, f"{anorm(st.value, fi.node)} used as worksheet: .{attr}", f"`{norm(st)}` can be a chart sheet (Excel: Move Chart > New sheet), which has no `{attr}`; `{short(site, 50)}` raises AttributeError, the extractor turns it into ExtractionFailedError and no sheet of the workbook is returned", line=site.lineno))
    if n_sites == 0:
        raise AnalysisError("C03-KIND: no sheet lookup `wb[name]` found in the XLSX reader")
    return rep


# ----------------------------------------------------------------------------------------------- PART
STRING_PREDICATES = {"startswith", "endswith", "lower", "casefold", "find", "index", "count"}


def _text_predicates(fn_node, roots: set[str]):
    """Tests in fn that are predicates on the characters of a name in `roots` (or of locals computed from it): startswith / == literal / `lit in x` / regex."""
    derived = set(roots)
    changed = True
    while changed:
        changed = False
        for a in ast.walk(fn_node):
            if isinstance(a, ast.Assign) and len(a.targets) == 1 and isinstance(a.targets[0], ast.Name) and a.targets[0].id not in derived and any(isinstance(x, ast.Name) and x.id in derived for x in ast.walk(a.value)):
                derived.add(a.targets[0].id)
                changed = True
    out = []
    for i in [n for n in ast.walk(fn_node) if isinstance(n, (ast.If, ast.IfExp))]:
        for t in ast.walk(i.test):
            if isinstance(t, ast.Call) and isinstance(t.func, ast.Attribute) and t.func.attr in ("startswith", "endswith") and isinstance(t.func.value, ast.Name) and t.func.value.id in derived:
                out.append((i, t))
            elif isinstance(t, ast.Compare) and len(t.ops) == 1 and isinstance(t.ops[0], (ast.Eq, ast.In)) and any(isinstance(x, ast.Name) and x.id in derived for x in [t.left] + t.comparators) \
                    and any(isinstance(x, ast.Constant) and isinstance(x.value, str) and x.value for x in [t.left] + t.comparators):
                out.append((i, t))
    return out


def rule_part(ctx: Ctx) -> RuleReport:
    """Heading-section units (docx / doc / odt): which paragraphs form a unit is value level, but three structural necessities are decided:
    collected text is never discarded by the flush, headings are recognised from structure (style / outline level) and not from the wording
    of the paragraph, and a paragraph is left out of the unit text only on a mark set by the reader, not on a guess from its style name."""
    rep = RuleReport("C03-PART", "heading-section units cover the body: the flush never discards collected lines, headings are not guessed from the wording, paragraphs are not skipped on a style-name guess")
    m = ctx.p.module(DT)
    # (a) the flush helper of each heading-based iterate_units: every exit without a unit is under a test that the collected text is empty
    for cls in ("DocxContent", "DocContent", "OdtContent"):
        it = ctx.p.maybe_func(DT, f"{cls}.iterate_units")
        if it is None:
            raise AnalysisError(f"C03-PART: {cls}.iterate_units vanished")
        fl = next((g for g in m.functions.values() if g.parent is it and g.name == "flush_current"), None)
        if fl is None:
            raise AnalysisError(f"C03-PART: {cls}.iterate_units no longer has a flush_current helper")
        rep.unit(fl.key)
        emits = [c for c in ast.walk(fl.node) if isinstance(c, ast.Call) and (dotted(c.func) or "").endswith("Unit")]
        if not emits:
            raise AnalysisError(f"C03-PART: {fl.qual} builds no unit")
        text_names = {"text", "current_lines"}
        for r in [x for x in walk_own(fl.node) if isinstance(x, ast.Return)]:
            if any(any(y is e for y in ast.walk(r)) for e in emits):
                continue
            conds, opaque, _ = path_conditions(fl.node, r)
            cs = [str(c) for c in conds] + list(opaque)
            def needs_empty_text(e, positive=True) -> bool:
                """Does the truth of the condition require a test on the collected text? (a disjunction requires it in every arm)"""
                if isinstance(e, ast.UnaryOp) and isinstance(e.op, ast.Not):
                    return needs_empty_text(e.operand, not positive)
                if isinstance(e, ast.BoolOp):
                    conj = isinstance(e.op, ast.And) == positive
                    parts = [needs_empty_text(v, positive) for v in e.values]
                    return any(parts) if conj else all(parts)
                return any(isinstance(x, ast.Name) and x.id in text_names for x in ast.walk(e))

            tests_text = any(needs_empty_text(ast.parse(c, mode="eval").body) for c in cs if _parses(c))
            # `V is None` where V copies a variable that is set (to a paragraph index) in the same block as every later assignment of the
            # heading path: with a heading path present the variable is never None, the exit is unreachable
            unreachable = False
            loc = {a.targets[0].id: a.value for a in walk_own(fl.node) if isinstance(a, ast.Assign) and len(a.targets) == 1 and isinstance(a.targets[0], ast.Name)}
            if any(c == "current_heading_path" for c in cs):
                for c in cs:
                    mm_ = c.split(" is None")[0] if c.endswith(" is None") else None
                    src_ = loc.get(mm_)
                    if isinstance(src_, ast.Name):
                        blocks = [b for n_ in ast.walk(it.node) for b in [getattr(n_, "body", None), getattr(n_, "orelse", None)] if isinstance(b, list)]
                        hp = [b for b in blocks if any(isinstance(x, ast.Assign) and any(norm(t) == "current_heading_path" for t in x.targets) and not (isinstance(x.value, ast.List) and not x.value.elts) for x in b) and b is not it.node.body]
                        if hp and all(any(isinstance(x, ast.Assign) and any(norm(t) == src_.id for t in x.targets) and not (isinstance(x.value, ast.Constant) and x.value.value is None) for x in b) for b in hp):
                            unreachable = True
            if tests_text:
                rep.ok({"flush": fl.qual, "exit_without_unit_under": cs})
            elif unreachable:
                rep.ok({"flush": fl.qual, "exit_without_unit_under": cs, "unreachable": "the tested variable is set wherever the heading path is"})
            else:
                rep.fail(Finding("C03-PART", DT, fl.qual, "collected lines discarded when " + (" and ".join(anorm(ast.parse(c, mode='eval').body, fl.node) if _parses(c) else c for c in cs) or "always"),
                                 f"{fl.qual} returns without a unit under `{' and '.join(cs) or 'no condition'}`, whatever has been collected: the paragraphs in front of the first heading (title, abstract, table of contents) are in no unit although get_full_text() contains them", line=r.lineno))
    # (b) headings from structure, not from the wording of the paragraph
    for cls in ("DocxContent", "DocContent", "OdtContent"):
        it = ctx.p.func(DT, f"{cls}.iterate_units")
        for g in [x for x in m.functions.values() if x.parent is it and "heading" in x.name and x.name != "flush_current"]:
            rep.unit(g.key)
            prm = {a.arg for a in g.node.args.args}
            rets_level = any(isinstance(r, ast.Return) and isinstance(r.value, ast.Constant) and isinstance(r.value.value, int) for r in walk_own(g.node))
            preds = _text_predicates(g.node, prm)
            # which attribute of the paragraph is handed over at the call sites
            fed = {norm(c.args[0]) for c in ast.walk(it.node) if isinstance(c, ast.Call) and isinstance(c.func, ast.Name) and c.func.id == g.name and c.args}
            by_text = any(not ("style" in f or "outline" in f or "level" in f) for f in fed)
            if preds and rets_level and by_text:
                rep.fail(Finding("C03-PART", DT, g.qual, "heading guessed from wording: " + "; ".join(sorted({anorm(t, g.node) for _, t in preds}))[:120],
                                 f"{g.qual} decides from the words of the paragraph ({', '.join(sorted({short(t, 30) for _, t in preds}))}) that it is a heading: an ordinary sentence that begins that way is taken out of the unit text and out of get_full_text()", line=g.node.lineno))
            else:
                rep.ok({"heading_test": g.qual, "reads": sorted(fed)})
    # (c) ODT: a paragraph is skipped (its text appended to no unit) only on structure
    it = ctx.p.func(DT, "OdtContent.iterate_units")
    rep.unit(it.key)
    loop = next((l for l in walk_own(it.node) if isinstance(l, ast.For) and norm(l.iter) == "self.paragraphs"), None)
    if loop is None:
        raise AnalysisError("C03-PART: OdtContent.iterate_units no longer loops over self.paragraphs")
    LV = loop.target.id if isinstance(loop.target, ast.Name) else "paragraph"
    style_vars = {a.targets[0].id for a in ast.walk(loop) if isinstance(a, ast.Assign) and len(a.targets) == 1 and isinstance(a.targets[0], ast.Name) and "style_name" in norm(a.value)}
    guess = [(i, t) for i, t in _text_predicates(ast.Module(body=loop.body, type_ignores=[]), style_vars) ]
    flags = {a.targets[0].id for a in ast.walk(loop) if isinstance(a, ast.Assign) and len(a.targets) == 1 and isinstance(a.targets[0], ast.Name) and any(any(x is t for x in ast.walk(a.value)) for _, t in guess)}
    guess_assign = [a for a in ast.walk(loop) if isinstance(a, ast.Assign) and len(a.targets) == 1 and isinstance(a.targets[0], ast.Name) and a.targets[0].id not in style_vars
                    and any(isinstance(x, ast.Call) and isinstance(x.func, ast.Attribute) and x.func.attr in ("startswith", "endswith") and isinstance(x.func.value, ast.Name) and x.func.value.id in style_vars for x in ast.walk(a.value))]
    flags |= {a.targets[0].id for a in guess_assign}
    skipped = False
    for cnt in [c for c in ast.walk(loop) if isinstance(c, ast.Continue)]:
        conds, opaque, _ = path_conditions(it.node, cnt, terminals=("continue", "return", "break", "raise"))
        cs = [str(c) for c in conds] + list(opaque)
        if any(c in flags or any(v in c.split() for v in flags) or any(f"{v}.startswith" in c for v in style_vars) for c in cs):
            skipped = True
            src = guess_assign[0] if guess_assign else None
            rep.fail(Finding("C03-PART", DT, it.qual, "paragraph skipped on a style-name guess: " + (anorm(src.value, it.node) if src is not None else " and ".join(cs))[:120],
                             f"a paragraph whose style name looks like a table style (`{short(src.value, 60) if src is not None else ' and '.join(cs)}`) is appended to no unit: LibreOffice's caption style is called 'Table', so every table caption is missing from the units although get_full_text() contains it", line=cnt.lineno))
            break
    if not skipped:
        rep.ok({"odt_paragraph_skips": "none on a style-name guess"})
    return rep


def _parses(c: str) -> bool:
    try:
        ast.parse(c, mode="eval")
        return True
    except SyntaxError:
        return False


def rule_ref(ctx: Ctx) -> RuleReport:
    """One unit per spine chapter: a chapter whose href is resolved to a part that does not exist is silently left out and the later
    chapters are numbered lower (= the EPUB clauses of C14-REF)."""
    from sa.rules.c14 import epub_href_clauses

    rep = RuleReport("C03-REF", "EPUB spine hrefs are resolved to part names by the rules of RFC 3986 / OPF: fragment cut first, then percent-decoded, dot segments resolved")
    epub_href_clauses(ctx, rep, "C03-REF")
    return rep


def rule_spine(ctx: Ctx) -> RuleReport:
    """One unit per spine chapter, numbered by its position in the spine: an itemref that is filtered out has no unit and the chapters
    behind it are numbered lower (= C13-SPINE)."""
    from sa.rules.c13 import rule_spine as r13

    rep = r13(ctx)
    rep.rule = "C03-SPINE"
    rep.description = "every spine itemref with an idref becomes a chapter (no filtering on attributes such as linear='no'): unit k is the k-th spine item"
    for f in rep.findings:
        f.rule = "C03-SPINE"
    return rep


RULES = [rule_join, rule_num, rule_fill, rule_filt, rule_cover, rule_sep, rule_kind, rule_part, rule_ref, rule_spine]
