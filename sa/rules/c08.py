"""C08 — encrypted input is rejected as encrypted (before any content), plain input never is."""
from __future__ import annotations

import ast
import os

from sa.engine.callgraph import calls_in, resolve_call
from sa.engine.cfg import normally_dominates
from sa.engine.consts import UNKNOWN
from sa.engine.context import Ctx
from sa.engine.guards import path_conditions
from sa.engine.loader import anorm, AnalysisError, dotted, norm, short, walk_own
from sa.engine.mustcall import MustPass
from sa.engine.report import Finding, RuleReport
from sa.rules.common import constants_of, X, exception_family, extractor_entries, raised_class

ENC = X + "util/encryption.py"
ARCH = X + "archive_extractor.py"
DOC = X + "ms_legacy/doc_extractor.py"
SZ = X + "util/sevenzip.py"
EPUB = X + "epub_extractor.py"
PDF = X + "pdf/pdf_extractor.py"
ERR = "ExtractionFileEncryptedError"

EXPLANATION = (
    "Static analysis of the encryption gate. (DET) for each of the 13 container extractors the frozen detector of its "
    "format (OLE streams for OOXML, manifest probe for ODF, FILEPASS scan for XLS, OLE streams for PPT, FIB flag for DOC, "
    "is_encrypted + empty-password decrypt for PDF, encryption.xml/rights.xml for EPUB, flag bit 0 of every entry for ZIP, "
    "AES coder for 7z) is evaluated — directly or inside a callee that cannot complete without it — on every path to "
    "every yield, with the file-encrypted error raised on the positive branch; for ZIP the flag loop covers every "
    "non-directory entry (no other skip before the test) and completes before the first member is read. (OVER) every "
    "`raise ExtractionFileEncryptedError` in the repository is control dependent on one of those detector tests, or sits "
    "in a handler whose exception class the guarded zipfile call raises for encryption only (checked against the raise "
    "sites of zipfile's own source, earlier handlers taken into account). (CONST) the detector constants equal the "
    "format specifications (FIB fEncrypted = bit 8 at offset 0x0A, ZIP general-purpose bit 0, BIFF FILEPASS 0x002F, "
    "[MS-OFFCRYPTO] stream names, 7z AES coder id 06F10701, xmlenc EncryptedData / rights.xml). (CONST, continued) every positive exit of the XLS record scan is under `record id == 0x002F` alone; an EPUB is rejected exactly when some EncryptedData entry is not a font-obfuscation entry (quantifier form checked), font obfuscation being EncryptionMethod/@Algorithm in {http://www.idpf.org/2008/embedding, http://ns.adobe.com/pdf/enc#RC}."
)
NOT_DECIDED = ["detector correctness on every container instance (stream names at depth, FILEPASS position inside substreams, PDF revisions) — value level",
               "equality of extracted content for PDFs with an empty user password (C20-PATCH checks only that every AES binding is installed)"]
TRUSTED = ["CFG / must-pass-through summaries (sa/engine/mustcall.py)", "zipfile raise sites are read from the interpreter's own zipfile source",
           "format constants: [MS-DOC] 2.5.1 FibBase.fEncrypted, APPNOTE 4.4.4 bit 0, [MS-XLS] FILEPASS 0x002F, [MS-OFFCRYPTO] 2.3.4.x stream names, 7z coder 06F10701"]
FLOORS = {"C08-DET": 20, "C08-OVER": 14, "C08-CONST": 8, "C08-PATCH": 15, "C08-SAME": 1}

DETECTOR_CALLS = {"is_ooxml_encrypted", "is_odf_encrypted", "is_xls_encrypted", "is_ppt_encrypted", "_is_epub_encrypted", "needs_password"}
FORMAT_DETECTOR = {
    "read_docx": "is_ooxml_encrypted", "read_pptx": "is_ooxml_encrypted", "read_xlsx": "is_ooxml_encrypted",
    "read_odt": "is_odf_encrypted", "read_ods": "is_odf_encrypted", "read_odp": "is_odf_encrypted", "read_odg": "is_odf_encrypted",
    "read_odf": "is_odf_encrypted", "read_xls": "is_xls_encrypted", "read_ppt": "is_ppt_encrypted", "read_epub": "_is_epub_encrypted",
    "read_doc": "<fib-flag>", "read_pdf": "<pdf-decrypt>",
}


def _raises_enc(body) -> bool:
    last = body[-1] if body else None
    return isinstance(last, ast.Raise) and raised_class(last) == ERR


def _test_calls(test) -> set[str]:
    return {(dotted(n.func) or "").split(".")[-1] for n in ast.walk(test) if isinstance(n, ast.Call)}


def _guard_kind(ctx: Ctx, fi, st: ast.If) -> str | None:
    """Which detector (if any) an `if ...: raise ExtractionFileEncryptedError` statement tests."""
    if not _raises_enc(st.body):
        return None
    t = st.test
    if isinstance(t, ast.UnaryOp) and isinstance(t.op, ast.Not):
        return None  # raising on a *negative* detector result is never a guard
    calls = _test_calls(t) & DETECTOR_CALLS
    if len(calls) == 1 and isinstance(t, ast.Call):
        return next(iter(calls))
    if isinstance(t, ast.BinOp) and isinstance(t.op, ast.BitAnd):
        l, r = norm(t.left), t.right
        m = ctx.folder.fold(fi.module, r)
        if "flag_bits" in l:
            return f"<zip-flag:{m}>"
        if isinstance(t.left, ast.Name) and any("FIB_FLAGS_OFFSET" in norm(d) for d in _defs(fi, t.left.id)):
            return f"<fib-flag:{m}>"  # the local holding the 16-bit FIB flag word, whatever it is called
    if isinstance(t, ast.Compare) and len(t.ops) == 1 and isinstance(t.ops[0], ast.Eq) and isinstance(t.left, ast.Name) and isinstance(t.comparators[0], ast.Constant) and t.comparators[0].value == 0:
        ds = _defs(fi, t.left.id)
        if ds and any(isinstance(d, ast.Call) and isinstance(d.func, ast.Attribute) and d.func.attr == "decrypt" for d in ds):
            return "<pdf-decrypt>"
    return None


def _defs(fi, name: str):
    return [n.value for n in walk_own(fi.node) if isinstance(n, ast.Assign) and any(isinstance(t, ast.Name) and t.id == name for t in n.targets)]


def _is_encrypted_test(e) -> bool:
    return isinstance(e, ast.Attribute) and e.attr == "is_encrypted" and isinstance(e.value, ast.Name)


def rule_det(ctx: Ctx) -> RuleReport:
    rep = RuleReport("C08-DET", "the format's detector is evaluated (and raises on a positive result) on every path to every yield")
    entries = {f.qual: f for f in extractor_entries(ctx).values()}
    for name, det in sorted(FORMAT_DETECTOR.items()):
        fi = entries.get(name)
        if fi is None:
            raise AnalysisError(f"C08-DET: extractor {name} vanished from the registry")
        rep.unit(fi.key)

        def is_guard(f, st, det=det):
            k = _guard_kind(ctx, f, st)
            if k is None:
                return False
            if det.startswith("<fib"):
                return k.startswith("<fib-flag")
            if det == "<pdf-decrypt>":
                if k != "<pdf-decrypt>":
                    return False
                conds, _, _ = path_conditions(f.node, st)
                return any(str(c).endswith(".is_encrypted") and "(" not in str(c) for c in conds)
            return k == det

        mp = MustPass(ctx, is_guard)
        ys = [n for n in walk_own(fi.node) if isinstance(n, (ast.Yield, ast.YieldFrom))]
        if not ys:
            raise AnalysisError(f"C08-DET: {name} has no yield")
        if det == "<pdf-decrypt>":
            # a plain PDF legitimately bypasses the decrypt test: the obligation is on the `reader.is_encrypted` test
            outer = [n for n in walk_own(fi.node) if isinstance(n, ast.If) and _is_encrypted_test(n.test)]
            inner_ok = False
            for o in outer:
                for n in ast.walk(o):
                    if isinstance(n, ast.If) and n is not o and _guard_kind(ctx, fi, n) == "<pdf-decrypt>":
                        inner_ok = True
            cfg = ctx.cfg(fi)
            if outer and inner_ok and all(all(normally_dominates(cfg, cfg.evaluators(outer[0].test), b) for b in cfg.evaluators(y)) for y in ys):
                # decrypt_result must come from reader.decrypt("")
                inner = [n for o in outer for n in ast.walk(o) if isinstance(n, ast.If) and n is not o and _guard_kind(ctx, fi, n) == "<pdf-decrypt>"]
                dname = inner[0].test.left.id
                rname = outer[0].test.value.id
                vals = {norm(d) for d in _defs(fi, dname)}
                if vals == {f"{rname}.decrypt('')", "0"}:
                    rep.ok({"extractor": name, "detector": "reader.is_encrypted -> decrypt('') == 0 -> raise", "dominates_yields": len(ys)})
                else:
                    rep.fail(Finding("C08-DET", fi.module.rel, name, ", ".join(sorted(vals)), "decrypt_result is not {reader.decrypt(''), 0 on failure}: the empty-password probe changed", line=fi.node.lineno))
            else:
                rep.fail(Finding("C08-DET", fi.module.rel, name, "reader.is_encrypted", "the encrypted-PDF test (is_encrypted, then decrypt('') == 0 -> file-encrypted error) does not dominate every yield", line=fi.node.lineno))
            continue
        for y in ys:
            if mp.dominated(fi, y):
                rep.ok({"extractor": name, "detector": det, "before": short(y, 40)})
            else:
                rep.fail(Finding("C08-DET", fi.module.rel, name, f"{det} !dom {short(y, 50)}", f"a result can be yielded without `{det}` having been evaluated with the file-encrypted error on its positive branch", line=y.lineno))
        # the detector is applied to the extractor's own stream
        if not det.startswith("<"):
            param = fi.node.args.args[0].arg
            for c in calls_in(fi):
                if (dotted(c.func) or "").split(".")[-1] == det and det != "_is_epub_encrypted":
                    if c.args and isinstance(c.args[0], ast.Name) and c.args[0].id == param:
                        rep.ok()
                    else:
                        rep.fail(Finding("C08-DET", fi.module.rel, name, short(c), "the detector is not applied to the extractor's input stream", line=c.lineno))
    # ZIP: flag loop over all entries completes before any member is read
    z = ctx.p.func(ARCH, "_extract_from_zip_optimized")
    rep.unit(z.key)
    cfg = ctx.cfg(z)
    guards = [n for n in walk_own(z.node) if isinstance(n, ast.If) and (_guard_kind(ctx, z, n) or "").startswith("<zip-flag")]
    if not guards:
        rep.fail(Finding("C08-DET", ARCH, z.qual, "info.flag_bits & 0x1", "the ZIP reader no longer tests the encryption flag of the entries", line=z.node.lineno))
    for g in guards:
        conds, opaque, loops = path_conditions(z.node, g, terminals=("continue", "return", "break"))
        loop = loops[-1] if loops else None
        if loop is None or not (isinstance(loop, ast.For) and norm(loop.iter).endswith(".infolist()")):
            rep.fail(Finding("C08-DET", ARCH, z.qual, norm(g.test), "the encryption-flag test is not evaluated in a loop over zf.infolist()", line=g.lineno))
            continue
        lv = loop.target.id if isinstance(loop.target, ast.Name) else "?"
        extra = {str(c) for c in conds} - {f"not {lv}.is_dir()"}
        if extra or opaque:
            rep.fail(Finding("C08-DET", ARCH, z.qual, "flag test only if " + " and ".join(sorted(extra) + opaque),
                             f"the encryption-flag test is skipped for some entries ({sorted(extra) + opaque}): an archive whose only encrypted members are ones the reader would skip is not rejected as encrypted", line=g.lineno))
        else:
            rep.ok({"zip": "flag bit tested for every non-directory entry"})
        afters = cfg.loop_after.get(id(loop), [])
        zf = norm(loop.iter)[: -len(".infolist()")]  # the archive object whose entries are tested
        reads = [c for c in calls_in(z) if isinstance(c.func, ast.Attribute) and c.func.attr in ("read", "open", "extract", "extractall") and norm(c.func.value) == zf]
        ys = [n for n in walk_own(z.node) if isinstance(n, (ast.Yield, ast.YieldFrom))]
        for tnode in reads + ys:
            if all(normally_dominates(cfg, afters, b) for b in cfg.evaluators(tnode)):
                rep.ok({"zip": f"`{short(tnode, 40)}` only after the flag loop completed"})
            else:
                rep.fail(Finding("C08-DET", ARCH, z.qual, short(tnode), "a member is read / a result yielded before the encryption flags of all entries have been checked", line=tnode.lineno))
    # 7z
    s7 = ctx.p.func(ARCH, "_extract_from_7z_optimized")
    rep.unit(s7.key)
    mp = MustPass(ctx, lambda f, st: _guard_kind(ctx, f, st) == "needs_password")
    tg = [n for n in walk_own(s7.node) if isinstance(n, (ast.Yield, ast.YieldFrom))] + [c for c in calls_in(s7) if isinstance(c.func, ast.Attribute) and c.func.attr == "extractall"]
    for t in tg:
        if mp.dominated(s7, t):
            rep.ok({"7z": f"needs_password() tested before `{short(t, 40)}`"})
        else:
            rep.fail(Finding("C08-DET", ARCH, s7.qual, short(t), "7z content is unpacked / yielded without the AES-coder test", line=t.lineno))
    # read_archive routes zip / 7z to these readers
    ra = ctx.p.func(ARCH, "read_archive")
    routed = {g.qual for c in calls_in(ra) for g in resolve_call(ctx.p, ra, c).funcs}
    for need in ("_extract_from_zip_optimized", "_extract_from_7z_optimized"):
        if need in routed:
            rep.ok()
        else:
            rep.fail(Finding("C08-DET", ARCH, "read_archive", need, f"read_archive no longer delegates to {need}", line=ra.node.lineno))
    return rep


def _zipfile_raises():
    """{exception class name: [messages]} raised inside ZipFile.open / read / ZipExtFile setup, from zipfile's own source."""
    import zipfile

    path = zipfile.__file__
    if path.endswith("__init__.py") or path.endswith("zipfile.py"):
        src = open(path, encoding="utf-8").read()
    else:
        raise AnalysisError("cannot locate zipfile source")
    tree = ast.parse(src)
    out = {}
    wanted = {"open", "read", "_init_decrypter", "__init__", "_check_compression", "_get_decompressor", "_read1", "_update_crc", "_read2"}
    for n in ast.walk(tree):
        if isinstance(n, (ast.FunctionDef,)) and n.name in wanted:
            for r in ast.walk(n):
                if isinstance(r, ast.Raise) and r.exc is not None:
                    e = r.exc.func if isinstance(r.exc, ast.Call) else r.exc
                    cls = (dotted(e) or "?").split(".")[-1]
                    msg = ""
                    if isinstance(r.exc, ast.Call) and r.exc.args:
                        a = r.exc.args[0]
                        msg = a.value if isinstance(a, ast.Constant) and isinstance(a.value, str) else norm(a)
                    out.setdefault(cls, []).append(str(msg))
    return out


_BUILTIN_PARENT = {"NotImplementedError": "RuntimeError", "RecursionError": "RuntimeError", "RuntimeError": "Exception", "BadZipFile": "Exception", "ValueError": "Exception",
                   "OSError": "Exception", "EOFError": "Exception", "LargeZipFile": "Exception", "KeyError": "LookupError", "LookupError": "Exception"}


def _is_sub(c, base):
    while c is not None:
        if c == base:
            return True
        c = _BUILTIN_PARENT.get(c)
    return False


def rule_over(ctx: Ctx) -> RuleReport:
    rep = RuleReport("C08-OVER", "the file-encrypted error is raised only under a detector result or an encryption-only exception")
    zr = None
    n_sites = 0
    for fi in ctx.p.all_functions():
        for r in [n for n in walk_own(fi.node) if isinstance(n, ast.Raise) and raised_class(n) == ERR]:
            n_sites += 1
            conds, opaque, _ = path_conditions(fi.node, r)
            # innermost enclosing If / handler
            encl_if = None
            for n in walk_own(fi.node):
                if isinstance(n, ast.If) and r in n.body:
                    encl_if = n
            if encl_if is not None and _guard_kind(ctx, fi, encl_if):
                k = _guard_kind(ctx, fi, encl_if)
                rep.ok({"raise_site": fi.key, "under": k})
                continue
            handler = None
            for n in walk_own(fi.node):
                if isinstance(n, ast.Try):
                    for h in n.handlers:
                        if r in h.body:
                            handler = (n, h)
            if handler is not None:
                t, h = handler
                names = [(dotted(e) or "").split(".")[-1] for e in (h.type.elts if isinstance(h.type, ast.Tuple) else [h.type])] if h.type is not None else ["BaseException"]
                earlier = []
                for h2 in t.handlers:
                    if h2 is h:
                        break
                    earlier += [(dotted(e) or "").split(".")[-1] for e in (h2.type.elts if isinstance(h2.type, ast.Tuple) else [h2.type])] if h2.type is not None else ["BaseException"]
                guarded_calls = [c for st in t.body for c in ast.walk(st) if isinstance(c, ast.Call)]
                zf_names = {it.optional_vars.id for w in walk_own(fi.node) if isinstance(w, ast.With) for it in w.items if isinstance(it.optional_vars, ast.Name) and "ZipFile" in norm(it.context_expr)}
                zip_call = any(isinstance(c.func, ast.Attribute) and c.func.attr in ("read", "open") and norm(c.func.value) in zf_names for c in guarded_calls)
                if not zip_call:
                    # an exception class of the library itself that is raised only under the test for the 7z AES coder is encryption-only
                    proof = _encryption_only_classes(ctx, names)
                    if proof:
                        rep.ok({"raise_site": fi.key, "under": "except " + ",".join(names), "encryption_only": proof})
                    else:
                        rep.fail(Finding("C08-OVER", fi.module.rel, fi.qual, "except " + ",".join(names), "an exception is converted into the file-encrypted error around calls for which no encryption-only exception is known", line=h.lineno))
                    continue
                zr = zr or _zipfile_raises()
                bad = []
                for cls, msgs in zr.items():
                    if not any(_is_sub(cls, nm) for nm in names):
                        continue
                    if any(_is_sub(cls, e) for e in earlier):
                        continue
                    for mtxt in msgs:
                        low = mtxt.lower()
                        if "(missing)" in low:
                            continue  # interpreter built without a compression module: an environment fact, not an input
                        if not ("encrypt" in low or "password" in low):
                            bad.append(f"{cls}({mtxt[:50]!r})")
                if bad:
                    rep.fail(Finding("C08-OVER", fi.module.rel, fi.qual, "except " + ",".join(names) + " -> " + ERR,
                                     f"`except {','.join(names)}` also catches zipfile errors unrelated to encryption ({'; '.join(sorted(set(bad))[:3])}): a plain archive is reported as encrypted", line=h.lineno))
                else:
                    rep.ok({"raise_site": fi.key, "under": "except " + ",".join(names), "zipfile_classes_caught": "encryption only", "earlier_handlers": earlier})
                continue
            rep.fail(Finding("C08-OVER", fi.module.rel, fi.qual, short(r), f"`raise {ERR}` is not control dependent on a detector test (conditions: {[str(c) for c in conds] + opaque})", line=r.lineno))
    if n_sites < 14:
        raise AnalysisError(f"C08-OVER: only {n_sites} raise sites of {ERR} found (floor 14)")
    # 7z: wherever the decoder meets the AES coder (file data or, with encrypted file names, the header that the constructor decodes), the
    # exception it raises must reach the caller as the file-encrypted error: a class of its own, converted before the generic Bad7zFile handler
    SZ_ = X + "util/sevenzip.py"
    ARCH_ = X + "archive_extractor.py"
    aes_raises = []
    for g in ctx.p.module(SZ_).functions.values():
        for r in [n for n in walk_own(g.node) if isinstance(n, ast.Raise) and n.exc is not None]:
            conds, opaque, _ = path_conditions(g.node, r)
            if any("CODER_AES_PREFIX" in str(c) and not str(c).startswith("not ") for c in list(conds) + list(opaque)):
                aes_raises.append((g, r, raised_class(r)))
    if not aes_raises:
        raise AnalysisError("C08-OVER: the 7z decoder no longer raises under the AES coder test")
    ex7 = ctx.p.func(ARCH_, "_extract_from_7z_optimized")
    outer = [t for t in walk_own(ex7.node) if isinstance(t, ast.Try) and any("SevenZipFile" in norm(st) for st in t.body)]
    if not outer:
        raise AnalysisError("C08-OVER: the try around SevenZipFile(...) in _extract_from_7z_optimized was not found")
    for g, r, cls in aes_raises:
        converted = False
        for h in outer[0].handlers:
            hn = [(dotted(e) or "").split(".")[-1] for e in (h.type.elts if isinstance(h.type, ast.Tuple) else [h.type])] if h.type is not None else ["BaseException"]
            if cls in hn:
                last = h.body[-1] if h.body else None
                converted = isinstance(last, ast.Raise) and raised_class(last) == ERR
                break
            if any(_repo_subclass(ctx, cls, x) for x in hn):
                break  # a broader handler comes first
        # on its way up through the reader nobody catches a base class of it and raises something else ("add context" handlers)
        from sa.engine.callgraph import reachable_functions

        masked = None
        # only what runs inside the constructors: there needs_password() cannot have been asked yet (extractall runs after that test)
        inits = [f for f in ctx.p.module(SZ_).functions.values() if f.name == "__init__"]
        during_open = reachable_functions(ctx.p, inits)
        for f2 in [f for f in ctx.p.module(SZ_).functions.values() if f.key in during_open]:
            for t in [n for n in walk_own(f2.node) if isinstance(n, ast.Try)]:
                reaches = False
                for c in [c for st in t.body for c in ast.walk(st) if isinstance(c, ast.Call)]:
                    tg = resolve_call(ctx.p, f2, c).funcs
                    if tg and any(g.key in reachable_functions(ctx.p, [x]) or x is g for x in tg):
                        reaches = True
                if not reaches:
                    continue
                for h in t.handlers:
                    hn = [(dotted(e) or "").split(".")[-1] for e in (h.type.elts if isinstance(h.type, ast.Tuple) else [h.type])] if h.type is not None else ["BaseException"]
                    if not any(_repo_subclass(ctx, cls, x) for x in hn):
                        continue
                    rr = [x for st in h.body for x in ast.walk(st) if isinstance(x, ast.Raise)]
                    if rr and all(x.exc is None or (isinstance(x.exc, ast.Name) and x.exc.id == h.name) for x in rr):
                        break  # re-raised as it is
                    if cls in hn and rr and all(raised_class(x) in (cls, None) for x in rr):
                        break
                    masked = (f2, h, rr)
                    break
        if masked is not None:
            f2, h, rr = masked
            rep.fail(Finding("C08-OVER", SZ_, f2.qual, f"{cls} caught as {norm(h.type) if h.type is not None else 'everything'} and replaced", f"`except {norm(h.type) if h.type is not None else ''}` in {f2.qual} also catches the {cls} that the AES coder test raises and {'raises ' + str(raised_class(rr[0])) if rr else 'swallows it'} instead: an archive with encrypted file names is reported as invalid, not as encrypted", line=h.lineno))
            continue
        if converted:
            rep.ok({"7z_aes_coder": f"{g.qual}: raise {cls}", "reaches_caller_as": ERR})
        else:
            rep.fail(Finding("C08-OVER", SZ_, g.qual, f"AES coder -> {cls}", f"when the decoder meets the 7z AES coder it raises {cls}, which _extract_from_7z_optimized does not turn into {ERR}: an archive with encrypted file names (the header itself is AES-coded and is decoded by the constructor, before needs_password() can be asked) is reported as an invalid archive", line=r.lineno))
    # family errors must not be converted into something else by the per-extractor wrappers (C01-WRAP) — referenced, not re-checked
    return rep


def _repo_subclass(ctx, cls: str, base: str) -> bool:
    """cls is (transitively) derived from base, by the class definitions of the library; Exception / BaseException are everybody's base."""
    if base in ("Exception", "BaseException") or cls == base:
        return True
    seen = set()
    work = [cls]
    while work:
        c = work.pop()
        if c in seen:
            continue
        seen.add(c)
        for m in ctx.p.modules.values():
            k = m.classes.get(c)
            if k is not None:
                for b in k.bases:
                    b = b.split(".")[-1]
                    if b == base:
                        return True
                    work.append(b)
    return False


def _encryption_only_classes(ctx, names):
    """Every named class is defined in the library and each of its raise sites is control dependent on a test of the AES coder id
    (`<coder>.startswith(CODER_AES_PREFIX)`); returns the list of proving sites, or None."""
    sites = []
    for nm in names:
        defs = [(m, c) for m in ctx.p.modules.values() for c in m.classes.values() if c.name == nm]
        if not defs:
            return None
        raises = []
        for g in ctx.p.all_functions():
            for r in [n for n in walk_own(g.node) if isinstance(n, ast.Raise) and raised_class(n) == nm]:
                raises.append((g, r))
        if not raises:
            return None
        for g, r in raises:
            conds, opaque, _ = path_conditions(g.node, r)
            cs = [str(c) for c in conds] + list(opaque)
            if not any("CODER_AES_PREFIX" in c and not c.startswith("not ") for c in cs):
                return None
            sites.append(f"{g.qual}: raise {nm} under {[c for c in cs if 'CODER_AES_PREFIX' in c][0]}")
        # the constant is the 7z AES-256 + SHA-256 coder id prefix (7-Zip Methods.txt: 06F10701)
        for m, c in defs:
            v = ctx.folder.fold(m, ast.Name(id="CODER_AES_PREFIX", ctx=ast.Load()))
            if not (isinstance(v, bytes) and v[:3] == bytes.fromhex("06f107")):
                return None
    return sites


def _pos_exits(body, guards, flags=None):
    """(statement, enclosing if-tests) for every positive exit of a detector: `return True`, or `flag = True` for a flag the detector
    returns (`encrypted = True; break ... return encrypted` is the same exit spelled with a flag)."""
    if flags is None:
        flags = {r.value.id for st in body for r in ast.walk(st) if isinstance(r, ast.Return) and isinstance(r.value, ast.Name)}
    for st in body:
        if isinstance(st, ast.Return) and isinstance(st.value, ast.Constant) and st.value.value is True:
            yield st, guards
        elif isinstance(st, ast.Assign) and len(st.targets) == 1 and isinstance(st.targets[0], ast.Name) and st.targets[0].id in flags and isinstance(st.value, ast.Constant) and st.value.value is True:
            yield st, guards
        elif isinstance(st, ast.If):
            yield from _pos_exits(st.body, guards + [st.test], flags)
            yield from _pos_exits(st.orelse, guards, flags)
        elif isinstance(st, (ast.For, ast.While, ast.With, ast.Try)):
            for fld in ("body", "orelse", "finalbody"):
                yield from _pos_exits(getattr(st, fld, []), guards, flags)
            for h in getattr(st, "handlers", []):
                yield from _pos_exits(h.body, guards, flags)


FONT_OBFUSCATION = {"http://www.idpf.org/2008/embedding", "http://ns.adobe.com/pdf/enc#RC"}  # EPUB OCF 3 §4.4 / Adobe font mangling: listed in encryption.xml, not DRM


def _epub_quantifier(ctx, rep, ep):
    """encryption.xml: rejected iff some EncryptedData entry is not a font-obfuscation entry."""
    xmlenc = [n for n in walk_own(ep.node) if isinstance(n, ast.Assign) and len(n.targets) == 1 and isinstance(n.targets[0], ast.Name) and isinstance(n.value, ast.Call)
              and isinstance(n.value.func, ast.Attribute) and n.value.func.attr in ("findall", "iter", "iterfind") and any(isinstance(a, ast.Constant) and isinstance(a.value, str) and a.value.endswith("xmlenc#}EncryptedData") for a in n.value.args)]
    if len(xmlenc) != 1:
        raise AnalysisError("C08-CONST: the EncryptedData entries of encryption.xml are no longer collected in one place in _is_epub_encrypted")
    L = xmlenc[0].targets[0].id
    exits = [(st, g) for st, g in _pos_exits(ep.node.body, []) if any(L in {x.id for x in ast.walk(t) if isinstance(x, ast.Name)} for t in g)]
    if not exits:
        rep.fail(Finding("C08-CONST", EPUB, ep.qual, "no positive exit on EncryptedData", "_is_epub_encrypted no longer rejects a book whose encryption.xml lists EncryptedData entries"))
        return
    for st, guards in exits:
        conj = [c for t in guards for c in (t.values if isinstance(t, ast.BoolOp) and isinstance(t.op, ast.And) else [t])]
        g = [t for t in conj if L in {x.id for x in ast.walk(t) if isinstance(x, ast.Name)}]
        if len(g) > 1:  # `entries and <quantifier over entries>`: the non-emptiness conjunct adds nothing to a quantifier
            g = [t for t in g if not (isinstance(t, ast.Name) and t.id == L)] or g[:1]
        t = g[0] if len(g) == 1 else None
        form = None
        pred = None
        if t is not None:
            neg = False
            while isinstance(t, ast.UnaryOp) and isinstance(t.op, ast.Not):
                neg, t = not neg, t.operand
            if isinstance(t, ast.Name) and t.id == L and not neg:
                form = "nonempty"
            elif isinstance(t, ast.Call) and isinstance(t.func, ast.Name) and t.func.id in ("any", "all") and len(t.args) == 1 and isinstance(t.args[0], (ast.GeneratorExp, ast.ListComp)):
                ge = t.args[0]
                if len(ge.generators) == 1 and not ge.generators[0].ifs and isinstance(ge.generators[0].iter, ast.Name) and ge.generators[0].iter.id == L:
                    e, ineg = ge.elt, False
                    while isinstance(e, ast.UnaryOp) and isinstance(e.op, ast.Not):
                        ineg, e = not ineg, e.operand
                    if isinstance(e, ast.Call) and len(e.args) == 1 and isinstance(e.args[0], ast.Name) and isinstance(ge.generators[0].target, ast.Name) and e.args[0].id == ge.generators[0].target.id:
                        pred = e
                        # exists-not-P  ==  any(not P)  ==  not all(P)
                        form = {("any", True, False): "exists-not", ("all", False, True): "exists-not", ("any", False, False): "exists", ("all", True, False): "all-not", ("any", False, True): "none", ("any", True, True): "all", ("all", False, False): "all", ("all", True, True): "exists"}[(t.func.id, ineg, neg)]
        if form is None:
            raise AnalysisError(f"C08-CONST: the EncryptedData test `{' and '.join(norm(x) for x in guards)}` of _is_epub_encrypted is not one of the recognised quantifier forms")
        if form == "nonempty":
            rep.fail(Finding("C08-CONST", EPUB, ep.qual, "EncryptedData: any entry", "every EncryptedData entry of META-INF/encryption.xml makes the book 'encrypted', including font-obfuscation entries (Algorithm http://www.idpf.org/2008/embedding or http://ns.adobe.com/pdf/enc#RC): a book with embedded obfuscated fonts and plain content documents is rejected as encrypted", line=st.lineno))
            continue
        if form != "exists-not":
            rep.fail(Finding("C08-CONST", EPUB, ep.qual, f"EncryptedData quantifier: {form}", f"the book is rejected when `{short(g[0], 80)}` ({form} entries are font obfuscation); it must be rejected exactly when SOME entry is NOT font obfuscation — a protected book that also lists an obfuscated font is otherwise read as ciphertext", line=st.lineno))
            continue
        # the predicate: EncryptionMethod/@Algorithm in the two obfuscation algorithms
        tgt = [f for f in resolve_call(ctx.p, ep, pred).funcs]
        if len(tgt) != 1:
            raise AnalysisError("C08-CONST: the font-obfuscation predicate of _is_epub_encrypted does not resolve to one function")
        pf = tgt[0]
        sets = []
        for n in walk_own(pf.node):
            if isinstance(n, ast.Compare) and len(n.ops) == 1 and isinstance(n.ops[0], (ast.In, ast.Eq)):
                vv = ctx.folder.fold(pf.module, n.comparators[0])
                if isinstance(vv, str):
                    sets.append({vv})
                elif isinstance(vv, (set, frozenset, tuple, list)):
                    sets.append(set(vv))
        algo = any(isinstance(n, ast.Constant) and n.value == "Algorithm" for n in walk_own(pf.node))
        meth = any(isinstance(n, ast.Constant) and isinstance(n.value, str) and n.value.endswith("xmlenc#}EncryptionMethod") for n in walk_own(pf.node))
        if len(sets) == 1 and sets[0] == FONT_OBFUSCATION and algo and meth:
            rep.ok({"constant": "EPUB font obfuscation algorithms (IDPF embedding, Adobe RC) are the only EncryptedData entries that are not DRM", "quantifier": "rejected iff some entry is not font obfuscation"})
        else:
            rep.fail(Finding("C08-CONST", EPUB, pf.qual, "algorithms: " + ",".join(sorted(map(str, set().union(*sets) if sets else []))), "the entries of encryption.xml that do not count as DRM must be exactly those whose EncryptionMethod/@Algorithm is http://www.idpf.org/2008/embedding or http://ns.adobe.com/pdf/enc#RC; any other algorithm (AES, LCP, ADEPT) is real encryption", line=pf.node.lineno))


def rule_const(ctx: Ctx) -> RuleReport:
    rep = RuleReport("C08-CONST", "detector constants equal the format specifications")

    def chk(ok, what, rel, fn, construct, msg):
        if ok:
            rep.ok({"constant": what})
        else:
            rep.fail(Finding("C08-CONST", rel, fn, construct, msg))

    v = ctx.const(DOC, "FIB_ENCRYPTED_FLAG")
    chk(v == 0x0100, "FIB fEncrypted = 0x0100", DOC, "FIB_ENCRYPTED_FLAG", repr(v), "FIB_ENCRYPTED_FLAG must be 0x0100 (bit 8, fEncrypted)")
    v = ctx.const(DOC, "FIB_FLAGS_OFFSET")
    chk(v == 0x0A, "FIB flags at 0x0A", DOC, "FIB_FLAGS_OFFSET", repr(v), "FIB flags are read from offset 0x0A")
    pc = ctx.p.func(DOC, "_DocReader._parse_content")
    tests = [n for n in walk_own(pc.node) if isinstance(n, ast.If) and _raises_enc(n.body)]
    for t in tests:
        k = _guard_kind(ctx, pc, t) or ""
        chk(k == "<fib-flag:256>", "DOC guard mask", DOC, pc.qual, norm(t.test), f"the DOC encryption test `{norm(t.test)}` masks {k}; only bit 8 (0x0100) means encrypted — other FIB bits (fObfuscated 0x8000, ...) must be ignored")
    if not tests:
        rep.fail(Finding("C08-CONST", DOC, pc.qual, "FIB flag test", "the FIB encryption test vanished"))
    flags_def = [n for n in walk_own(pc.node) if isinstance(n, ast.Assign) and isinstance(n.targets[0], ast.Name) and tests and isinstance(tests[0].test, ast.BinOp) and isinstance(tests[0].test.left, ast.Name) and n.targets[0].id == tests[0].test.left.id]
    chk(len(flags_def) == 1 and "FIB_FLAGS_OFFSET" in norm(flags_def[0].value) and "_UINT16" in norm(flags_def[0].value), "flags = uint16 at FIB_FLAGS_OFFSET", DOC, pc.qual,
        norm(flags_def[0].value) if flags_def else "?", "`flags` is not the 16-bit word at FIB_FLAGS_OFFSET")
    z = ctx.p.func(ARCH, "_extract_from_zip_optimized")
    zg = [n for n in walk_own(z.node) if isinstance(n, ast.If) and (_guard_kind(ctx, z, n) or "").startswith("<zip-flag")]
    for g in zg:
        chk(_guard_kind(ctx, z, g) == "<zip-flag:1>", "ZIP general purpose bit 0", ARCH, z.qual, norm(g.test), "the ZIP encryption test must mask exactly bit 0 of flag_bits")
    x = ctx.p.func(ENC, "is_xls_encrypted")
    # every positive exit of the record scan is under `record id == 0x002F` and nothing else about the record
    # the scan looks at the record id for FILEPASS only: any other record-id test ends or diverts the scan early
    rid = {c.left.id for st, g in _pos_exits(x.node.body, []) for t in g for c in ([t] if not isinstance(t, ast.BoolOp) else t.values) if isinstance(c, ast.Compare) and isinstance(c.left, ast.Name) and ctx.folder.fold(x.module, c.comparators[0]) == 0x002F}
    for c in [n for n in walk_own(x.node) if isinstance(n, ast.Compare) and isinstance(n.left, ast.Name) and n.left.id in rid]:
        v = ctx.folder.fold(x.module, c.comparators[0])
        if v == 0x002F:
            continue
        chk(False, "record scan", ENC, x.qual, "record id also compared with " + (hex(v) if isinstance(v, int) else norm(c.comparators[0])),
            f"is_xls_encrypted also tests the record id against {hex(v) if isinstance(v, int) else norm(c.comparators[0])}: the scan for FILEPASS must cover every record of the stream (a FILEPASS after an EOF / BOF boundary is otherwise missed)")
    exits = list(_pos_exits(x.node.body, []))
    if not exits:
        rep.fail(Finding("C08-CONST", ENC, x.qual, "?", "is_xls_encrypted has no positive exit"))
    for st, guards in exits:
        ids = []
        for g in guards:
            for c in ([g] if not isinstance(g, ast.BoolOp) else g.values):
                if isinstance(c, ast.Compare) and len(c.ops) == 1 and isinstance(c.ops[0], (ast.Eq, ast.In)) and isinstance(c.left, ast.Name):
                    vv = ctx.folder.fold(x.module, c.comparators[0])
                    ids.append(vv if isinstance(vv, int) else tuple(vv) if isinstance(vv, (tuple, list, set, frozenset)) else UNKNOWN)
        chk(ids == [0x002F], "BIFF FILEPASS 0x002F", ENC, x.qual, "positive exit under record id " + ",".join(hex(i) if isinstance(i, int) else str(i) for i in ids),
            "is_xls_encrypted answers True under a record test other than `record id == 0x002F` (FILEPASS): " + " and ".join(short(g, 50) for g in guards) + " — FILEPASS is the only BIFF record that means the stream is encrypted (PASSWORD 0x0013, WRITEPROT 0x0086, PROTECT 0x0012 are sheet/workbook protection of unencrypted files)")
    streams = {v for v in constants_of(ctx, x) if v in ("Workbook", "Book")}
    chk(streams == {"Workbook", "Book"}, "XLS streams Workbook/Book", ENC, x.qual, ",".join(sorted(streams)), "is_xls_encrypted must scan the Workbook (BIFF8) or Book (BIFF5) stream")
    h = ctx.p.func(ENC, "_has_ole_encryption_stream")
    names = set()
    for n in walk_own(h.node):
        iters = [n.iter] if isinstance(n, ast.For) else [g.iter for g in n.generators] if isinstance(n, (ast.GeneratorExp, ast.ListComp, ast.SetComp)) else []
        for it in iters:
            vv = ctx.folder.fold(h.module, it)
            if isinstance(vv, (tuple, list, set, frozenset)):
                names |= set(vv)
    chk(names == {"EncryptionInfo", "EncryptedPackage", "DataSpaces"}, "OLE encryption stream names", ENC, h.qual, ",".join(sorted(map(str, names))), "OOXML encryption is recognised by the streams EncryptionInfo / EncryptedPackage / DataSpaces")
    pp = ctx.p.func(ENC, "is_ppt_encrypted")
    consts = constants_of(ctx, pp)
    chk({"EncryptedSummary", "EncryptedSummaryInformation"} <= consts and any(g.qual == "_has_ole_encryption_stream" for c in calls_in(pp) for g in resolve_call(ctx.p, pp, c).funcs),
        "PPT encrypted summary streams", ENC, pp.qual, ",".join(sorted(consts)), "is_ppt_encrypted must test the OLE encryption streams and EncryptedSummary*")
    # [MS-PPT] 2.3.2 CurrentUserAtom.headerToken: 0xF3D1C4DF = encrypted document (bytes 12..16 of the Current User stream, little-endian)
    tok = [n for n in walk_own(pp.node) if isinstance(n, ast.Compare) and len(n.ops) == 1 and isinstance(n.ops[0], ast.Eq) and ctx.folder.fold(pp.module, n.comparators[0]) == bytes.fromhex("dfc4d1f3")]
    sl = [n.left for n in tok if isinstance(n.left, ast.Subscript) and isinstance(n.left.slice, ast.Slice) and ctx.folder.fold(pp.module, n.left.slice.lower) == 12 and ctx.folder.fold(pp.module, n.left.slice.upper) == 16]
    chk(bool(tok) and bool(sl) and "Current User" in consts, "PPT Current User headerToken 0xF3D1C4DF at [12:16]", ENC, pp.qual, "Current User token " + ("present" if tok else "missing"),
        "is_ppt_encrypted must also test CurrentUserAtom.headerToken == 0xF3D1C4DF (bytes 12..16 of the 'Current User' stream): an encrypted presentation saved without encrypted document properties has no EncryptedSummary stream")
    od = ctx.p.func(ENC, "is_odf_encrypted")
    consts = constants_of(ctx, od)
    chk("META-INF/manifest.xml" in consts and "encryption-data" in consts, "ODF manifest encryption-data", ENC, od.qual, ",".join(sorted(consts))[:80], "is_odf_encrypted must look for encryption-data in META-INF/manifest.xml")
    v = ctx.const(SZ, "CODER_AES_PREFIX")
    chk(isinstance(v, bytes) and len(v) >= 3 and bytes.fromhex("06f10701").startswith(v), "7z AES coder family 06F107xx", SZ, "CODER_AES_PREFIX", repr(v), "the 7z AES coder id is 06F10701")
    ep = ctx.p.func(EPUB, "_is_epub_encrypted")
    consts = constants_of(ctx, ep)
    chk("META-INF/encryption.xml" in consts and "META-INF/rights.xml" in consts and any("xmlenc#}EncryptedData" in c for c in consts), "EPUB encryption.xml EncryptedData / rights.xml", EPUB, ep.qual,
        ",".join(sorted(consts))[:100], "EPUB DRM is recognised by EncryptedData in META-INF/encryption.xml or META-INF/rights.xml")
    _epub_quantifier(ctx, rep, ep)
    # detectors return a boolean on every path and never raise the encrypted error themselves on a negative probe
    for fn in ("is_ooxml_encrypted", "is_odf_encrypted", "is_xls_encrypted", "is_ppt_encrypted"):
        f = ctx.p.func(ENC, fn)
        rets = [n for n in walk_own(f.node) if isinstance(n, ast.Return)]
        nonole = [r for r in rets if isinstance(r.value, ast.Constant) and r.value.value is False]
        chk(bool(nonole), f"{fn} returns False for foreign containers", ENC, fn, "return False", f"{fn} has no negative exit for inputs of another container kind")
    return rep


def rule_same(ctx: Ctx) -> RuleReport:
    """'a PDF encrypted with the empty user password extracts the same content as its unencrypted original': after the empty
    password has been accepted, nothing on the extraction path may depend on the fact that the file was encrypted."""
    PDFX = X + "pdf/pdf_extractor.py"
    rep = RuleReport("C08-SAME", "PDF: once the empty user password is accepted, no extraction step is switched off or altered by a test that derives from reader.is_encrypted")
    m = ctx.p.module(PDFX)
    family = exception_family(ctx)
    deciders = {}
    for fi in m.functions.values():
        reads = [a for a in walk_own(fi.node) if isinstance(a, ast.Attribute) and a.attr == "is_encrypted"]
        if not reads:
            continue
        raises = [r for r in walk_own(fi.node) if isinstance(r, ast.Raise) and raised_class(r) in family]
        rets = [r for r in walk_own(fi.node) if isinstance(r, ast.Return) and r.value is not None]
        if rets and not raises:
            deciders[fi.qual] = fi
        rep.unit(fi.key)
    n = 0
    for fi in m.functions.values():
        tainted = {}
        for a in walk_own(fi.node):
            if isinstance(a, ast.Assign) and len(a.targets) == 1 and isinstance(a.targets[0], ast.Name) and isinstance(a.value, ast.Call):
                for g in resolve_call(ctx.p, fi, a.value).funcs:
                    if g.qual in deciders:
                        tainted[a.targets[0].id] = g
        if not tainted:
            continue
        for x in walk_own(fi.node):
            test, gated = None, []
            if isinstance(x, ast.IfExp):
                test, gated = x.test, [x.body, x.orelse]
            elif isinstance(x, ast.If):
                test, gated = x.test, x.body + x.orelse
            if test is None:
                continue
            names = {nm.id for nm in ast.walk(test) if isinstance(nm, ast.Name)} & set(tainted)
            if not names:
                continue
            calls = [c for g_ in gated for c in ast.walk(g_) if isinstance(c, ast.Call) and resolve_call(ctx.p, fi, c).funcs and not (dotted(c.func) or "").startswith("logger.")]
            if not calls:
                continue
            n += 1
            dec = tainted[sorted(names)[0]]
            consts = []
            for c in walk_own(dec.node):
                if isinstance(c, ast.Compare):
                    for e in [c.left] + c.comparators:
                        v = ctx.folder.fold(dec.module, e)
                        if isinstance(v, int) and not isinstance(v, bool) and isinstance(e, ast.Name):
                            consts.append(f"{e.id}={v}")
            rep.fail(Finding("C08-SAME", PDFX, fi.qual, f"{dotted(calls[0].func)} gated by {dec.qual} [{', '.join(consts)}]",
                             f"`{short(calls[0], 50)}` runs only when `{short(test, 40)}` allows it, and that flag comes from {dec.qual}, which reads reader.is_encrypted ({', '.join(consts) or 'no size constant'}): an empty-password PDF is extracted differently from its unencrypted original", line=x.lineno))
    if not deciders:
        rep.ok({"is_encrypted": "read only by the rejecting detector"})
    elif n == 0:
        rep.ok({"deciders": sorted(deciders), "gated_calls": 0})
    return rep


def rule_patch(ctx: Ctx) -> RuleReport:
    """Empty-password AES PDFs: every pypdf module must receive every AES binding (same sibling rule as C20-PATCH)."""
    from sa.rules.c20 import rule_patch as rp

    rep = rp(ctx)
    rep.rule = "C08-PATCH"
    rep.description = "AES fallback for PDFs with an empty user password: all AES bindings installed in all three pypdf modules"
    for f in rep.findings:
        f.rule = "C08-PATCH"
    # and the fallback is actually wired: _open_pdf_reader retries after patching on pypdf's DependencyError for AES
    o = ctx.p.func(PDF, "_open_pdf_reader")
    hs = [h for n in walk_own(o.node) if isinstance(n, ast.Try) for h in n.handlers]
    ok = any((dotted(h.type) or "").endswith("DependencyError") and any((dotted(c.func) or "").endswith("patch_pypdf_fallback_aes") for st in h.body for c in ast.walk(st) if isinstance(c, ast.Call))
             and isinstance(h.body[-1], ast.Return) and "PdfReader(" in norm(h.body[-1]) for h in hs)
    if ok:
        rep.ok({"_open_pdf_reader": "DependencyError(AES) -> patch_pypdf_fallback_aes() -> retry"})
    else:
        rep.fail(Finding("C08-PATCH", PDF, o.qual, "except DependencyError", "the AES fallback is no longer installed and retried when pypdf lacks a crypto backend", line=o.node.lineno))
    # the built-in AES is installed for every encrypted document, not only when the constructor asks for it: AES-128 (V4) files open and
    # authenticate without AES and need it only when the first stream is decrypted
    op = ctx.p.func(X + "pdf/pdf_extractor.py", "_open_pdf_reader")
    rep.unit(op.key)
    handlers = {id(x) for t in walk_own(op.node) if isinstance(t, ast.Try) for h in t.handlers for st in h.body for x in ast.walk(st)}
    # a local that holds `<reader>.is_encrypted` stands for it
    enc_alias = {a_.targets[0].id for a_ in walk_own(op.node) if isinstance(a_, ast.Assign) and len(a_.targets) == 1 and isinstance(a_.targets[0], ast.Name) and isinstance(a_.value, ast.Attribute) and a_.value.attr == "is_encrypted"}

    def _is_enc(e):
        return (isinstance(e, ast.Attribute) and e.attr == "is_encrypted") or (isinstance(e, ast.Name) and e.id in enc_alias)

    normal = [i for i in walk_own(op.node) if isinstance(i, ast.If) and id(i) not in handlers and any(_is_enc(a_) for a_ in ast.walk(i.test))
              and any(isinstance(c, ast.Call) and (dotted(c.func) or "").split(".")[-1] == "patch_pypdf_fallback_aes" for st in i.body for c in ast.walk(st))]
    # ... for *every* encrypted document: the test is the reader's own is_encrypted and nothing narrower. A second condition (which crypt
    # filter, which /V) re-implements pypdf's decision which streams need AES, and every case it misses fails in a fresh process
    narrowed = [i for i in normal if not _is_enc(i.test)]
    if normal and not narrowed:
        rep.ok({"_open_pdf_reader": "fallback installed whenever the opened document is encrypted"})
    elif narrowed:
        i = narrowed[0]
        rep.fail(Finding("C08-PATCH", X + "pdf/pdf_extractor.py", op.qual, "fallback installed under a narrower test: " + anorm(i.test, op.node), f"the built-in AES is installed only when `{short(i.test, 70)}`: an encrypted document that needs AES but does not pass the extra test (a crypt filter with another name than /StdCF, /Identity defaults, per-stream filters) fails with DependencyError in a fresh process and works after another AES file was read", line=i.lineno))
    else:
        rep.fail(Finding("C08-PATCH", X + "pdf/pdf_extractor.py", op.qual, "fallback only on DependencyError", "the built-in AES is installed only when PdfReader(...) raises DependencyError, which AES-256 files do and AES-128 files do not: an AES-128 PDF with an empty user password fails in a fresh process (and works after any AES-256 file was read)", line=op.node.lineno))
    return rep


RULES = [rule_det, rule_over, rule_const, rule_same, rule_patch]
