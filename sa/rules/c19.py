"""C19 — OMML to LaTeX conversion is total, order-preserving and balanced."""
from __future__ import annotations

import ast
import re
from collections import Counter

from sa.engine.callgraph import _local_assignments, calls_in, resolve_call
from sa.engine.consts import UNKNOWN
from sa.engine.context import Ctx
from sa.engine.guards import atoms, path_conditions
from sa.engine.loader import AnalysisError, anorm, dotted, norm, short, walk_own
from sa.engine.nullness import M, N, Nullness, ann_optional
from sa.engine.nullsinks import deref_sites
from sa.engine.report import Finding, RuleReport
from sa.rules.common import X

OMML = X + "util/omml_to_latex.py"
PE = "omml_to_latex.<locals>.process_element"

EXPLANATION = (
    "Static analysis of util/omml_to_latex.py. (NULL) flow-sensitive nullness over the CFG of the converter: a value that may "
    "be None (one-argument .get, .text, .find) must not be dereferenced, concatenated, formatted into the output or passed "
    "to a str parameter. (TOTAL) every raising lookup (.index, dict subscripts, indexing) is dominated by the membership / "
    "non-emptiness test on the same operands. (LIN) in every structural branch each operand obtained from a recursive "
    "call occurs exactly once in every returned template, in schema order of the children; descendant searches are never "
    "fed to the recursion (no double visit); the default branch and the top level concatenate all direct children in "
    "order. (BAL) every returned template has balanced literal braces, except returns that push on / pop from the "
    "pending-radical stack, pushes are non-None and every pending entry is closed at the end; the symbol table has "
    "balanced values. (REC/DET) recursion is structural on direct children; no set iteration, no module-level state is written."
    ' (LIN j, k) a module-level template helper is linear in its parameters on each of its return paths; an element is dropped with its subtree before the dispatch only when it is absent, not an element, or named in a folded set that contains no element that can hold a run. The lone-bracket exemption of the malformed radical requires a membership test against a collection (a test against a string is a substring test).'
)
NOT_DECIDED = ["the documented LaTeX form of each element as a value (which command, which delimiter)", "recursion depth limits of the interpreter for pathologically deep trees"]
TRUSTED = ["ElementTree: Element.get(k) / .text / .find may return None; iteration and findall yield direct children in document order; trees are finite and acyclic",
           "nullness engine sa/engine/nullness.py, CFG sa/engine/cfg.py"]
FLOORS = {"C19-NULL": 40, "C19-TOTAL": 3, "C19-LIN": 25, "C19-BAL": 20, "C19-REC": 15}

CHILD_ORDER = {"f": ["num", "den"], "sSup": ["e", "sup"], "sSub": ["e", "sub"], "sSubSup": ["e", "sub", "sup"], "rad": ["deg", "e"],
               "nary": ["sub", "sup", "e"], "func": ["fName", "e"], "bar": ["e"], "acc": ["e"], "d": ["e"], "m": ["mr"]}


def _funcs(ctx):
    top = ctx.p.func(OMML, "omml_to_latex")
    pe = ctx.p.func(OMML, PE)
    conv = ctx.p.func(OMML, "convert_greek_and_symbols")
    return top, pe, conv


def _strict_args_factory(ctx, fi):
    def strict(call: ast.Call):
        t = resolve_call(ctx.p, fi, call)
        out = []
        for g in t.funcs:
            params = g.node.args.args
            off = 1 if g.cls is not None and params and params[0].arg in ("self", "cls") else 0
            for i, a in enumerate(params[off:]):
                if a.annotation is not None and not ann_optional(a.annotation) and (dotted(a.annotation) or norm(a.annotation)) in ("str", "bytes", "int"):
                    out.append(i)
                    out.append(a.arg)
        return out

    return strict


def null_findings(ctx: Ctx, fi, rule: str, rep: RuleReport):
    cfg = ctx.cfg(fi)
    # helpers of the same module that may hand back None count as MaybeNone sources (found by reading every helper, not listed by name)
    from sa.engine.nullness import maybe_none_functions
    nl = Nullness(fi.node, cfg, maybe_funcs=maybe_none_functions(ctx, fi.module.rel))
    strict = _strict_args_factory(ctx, fi)
    seen = set()
    n_sites = 0
    for nd in cfg.nodes:
        if nd.kind not in ("stmt", "test", "iter", "for", "with") or nd.ast is None:
            continue
        env = nl.env_in.get(nd.id)
        if env is None:
            continue
        root = nd.ast
        if nd.kind == "for":
            continue
        if nd.kind == "iter":
            if nl.expr(root, env) == M:
                key = norm(root)
                if key not in seen:
                    seen.add(key)
                    rep.fail(Finding(rule, fi.module.rel, fi.qual, short(root), "iteration over a value that may be None", line=getattr(root, "lineno", None)))
        if isinstance(root, (ast.FunctionDef, ast.AsyncFunctionDef, ast.ClassDef)):
            continue
        sites = deref_sites(nl, root, env, strict)
        n_sites += 1
        for e, kind, culprit in sites:
            key = (norm(e), kind)
            if key in seen:
                continue
            seen.add(key)
            st = nd.stmt if nd.stmt is not None else root
            rep.fail(Finding(rule, fi.module.rel, fi.qual, short(st, 140), f"{kind}: `{culprit}`", line=getattr(e, "lineno", None)))
        if not sites:
            rep.ok({"function": fi.qual, "statement": short(root, 70), "maybe_none_in_scope": sorted(k for k, v in env.items() if v == M)} if any(v == M for v in env.values()) else None)
    return n_sites


def rule_null(ctx: Ctx) -> RuleReport:
    rep = RuleReport("C19-NULL", "no MaybeNone value is dereferenced, concatenated, formatted or passed to a str parameter")
    for fi in _funcs(ctx):
        rep.unit(fi.key)
        null_findings(ctx, fi, "C19-NULL", rep)
    return rep


# ------------------------------------------------------------------------------------------- TOTAL
def _expr_guards(stmt: ast.AST, target: ast.AST):
    """Conditions established inside the statement before `target` is evaluated (and-chains, conditional expressions)."""
    conds = []

    def rec(e) -> bool:
        if e is target:
            return True
        if isinstance(e, ast.BoolOp) and isinstance(e.op, ast.And):
            for i, v in enumerate(e.values):
                if _has(v, target):
                    for prev in e.values[:i]:
                        a = atoms(prev, True)
                        if a:
                            conds.extend(a)
                    return rec(v)
            return False
        if isinstance(e, ast.IfExp):
            if _has(e.body, target):
                a = atoms(e.test, True)
                if a:
                    conds.extend(a)
                return rec(e.body)
            if _has(e.orelse, target):
                a = atoms(e.test, False)
                if a:
                    conds.extend(a)
                return rec(e.orelse)
            return rec(e.test)
        for c in ast.iter_child_nodes(e):
            if _has(c, target):
                return rec(c)
        return False

    rec(stmt)
    return conds


def _has(e, target) -> bool:
    return any(n is target for n in ast.walk(e))


def _stmt_containing(fn, target):
    best = None
    for st in ast.walk(fn):
        if isinstance(st, ast.stmt) and not isinstance(st, (ast.FunctionDef, ast.AsyncFunctionDef)) and _has(st, target):
            if best is None or _has(best, st):
                best = st
    return best


def _all_guards(fn, target):
    st = _stmt_containing(fn, target)
    conds, opaque, _ = path_conditions(fn, st)
    own = []
    if isinstance(st, (ast.If, ast.While)) and _has(st.test, target):
        own = _expr_guards(st.test, target)
    elif st is not None:
        own = _expr_guards(st, target)
    return {str(c) for c in conds + own}


def rule_total(ctx: Ctx) -> RuleReport:
    rep = RuleReport("C19-TOTAL", "raising lookups are dominated by the matching membership / non-emptiness test")
    m = ctx.p.module(OMML)
    for fi in _funcs(ctx):
        rep.unit(fi.key)
        for n in walk_own(fi.node):
            if isinstance(n, ast.Call) and isinstance(n.func, ast.Attribute) and n.func.attr in ("index", "remove") and n.args:
                recv, arg = norm(n.func.value), norm(n.args[0])
                g = _all_guards(fi.node, n)
                if f"{arg} in {recv}" in g:
                    rep.ok({"call": short(n, 60), "guard": f"{arg} in {recv}"})
                else:
                    rep.fail(Finding("C19-TOTAL", OMML, fi.qual, short(n), f"`{recv}.{n.func.attr}({arg})` raises ValueError unless `{arg} in {recv}` holds; the dominating tests are {sorted(g)}", line=n.lineno))
            if isinstance(n, ast.Subscript) and isinstance(n.ctx, ast.Load) and not isinstance(n.slice, ast.Slice):
                recv = n.value
                if isinstance(recv, ast.Name) and isinstance(ctx.folder.const(m, recv.id), dict) and recv.id not in {a.arg for a in fi.node.args.args}:
                    g = _all_guards(fi.node, n)
                    if f"{norm(n.slice)} in {recv.id}" in g:
                        rep.ok({"lookup": norm(n), "guard": f"{norm(n.slice)} in {recv.id}"})
                    else:
                        rep.fail(Finding("C19-TOTAL", OMML, fi.qual, norm(n), f"table lookup `{norm(n)}` raises KeyError unless `{norm(n.slice)} in {recv.id}` holds", line=n.lineno))
                elif isinstance(recv, ast.Call) and isinstance(recv.func, ast.Attribute) and recv.func.attr in ("split", "rsplit", "partition", "rpartition"):
                    rep.ok({"lookup": short(n, 50), "safe": "split() always has a first and last element"})
                elif isinstance(n.slice, (ast.Constant, ast.UnaryOp)):
                    g = _all_guards(fi.node, n)
                    r = norm(recv)
                    if r in g or any(s.startswith(f"len({r}) >") for s in g):
                        rep.ok({"lookup": norm(n), "guard": r})
                    else:
                        rep.fail(Finding("C19-TOTAL", OMML, fi.qual, norm(n), f"`{norm(n)}` raises IndexError when `{r}` is empty; no dominating non-emptiness test", line=n.lineno))
            if isinstance(n, ast.Call) and isinstance(n.func, ast.Name) and n.func.id in ("int", "float", "chr", "ord") and n.args and not isinstance(n.args[0], ast.Constant):
                rep.fail(Finding("C19-TOTAL", OMML, fi.qual, short(n), f"`{short(n, 50)}` can raise on document-controlled text", line=n.lineno))
            if isinstance(n, ast.Raise):
                rep.fail(Finding("C19-TOTAL", OMML, fi.qual, short(n), "the converter raises", line=n.lineno))
    return rep


# ------------------------------------------------------------------------------------------- LIN
def _branches(pe):
    """(tag literal, if-statement) for the top-level `if tag == "x"` blocks of process_element."""
    out = []
    prm = {a.arg for a in pe.node.args.args}
    # the local that holds the element's tag (assigned from <param>.tag, possibly stripped of the namespace), whatever it is called
    tagv = {n.targets[0].id for n in pe.node.body if isinstance(n, ast.Assign) and len(n.targets) == 1 and isinstance(n.targets[0], ast.Name)
            and any(isinstance(x, ast.Attribute) and x.attr == "tag" and isinstance(x.value, ast.Name) and x.value.id in prm for x in ast.walk(n.value))}
    for st in pe.node.body:
        if isinstance(st, ast.If):
            for n in ast.walk(st.test):
                if isinstance(n, ast.Compare) and isinstance(n.left, ast.Name) and n.left.id in tagv and len(n.ops) == 1 and isinstance(n.ops[0], ast.Eq) and isinstance(n.comparators[0], ast.Constant):
                    out.append((n.comparators[0].value, st))
    return out


def _is_pe_call(e):
    return isinstance(e, ast.Call) and isinstance(e.func, ast.Name) and e.func.id == "process_element"


def _child_name(arg_src: ast.AST):
    """'num' for elem.find(f"{M_NS}num"); (name, descendant?)"""
    if isinstance(arg_src, ast.Call) and isinstance(arg_src.func, ast.Attribute) and arg_src.func.attr in ("find", "findall", "iter", "iterfind") and arg_src.args:
        a = arg_src.args[0]
        txt = None
        if isinstance(a, ast.JoinedStr):
            txt = "".join(v.value if isinstance(v, ast.Constant) else "{}" for v in a.values)
        elif isinstance(a, ast.Constant):
            txt = str(a.value)
        if txt is None:
            return None, None
        desc = arg_src.func.attr == "iter" or txt.startswith(".//") or "//" in txt
        return txt.replace(".//", "").replace("{}", "").strip("/"), desc
    return None, None


class _Uses:
    """Symbolic count of how often each operand variable reaches an emitted expression."""

    def __init__(self, block_stmts, operands: set[str]):
        self.ops = operands
        self.defs = {}
        self.augs = {}
        for st in block_stmts:
            for n in ast.walk(st):
                if isinstance(n, ast.Assign) and len(n.targets) == 1 and isinstance(n.targets[0], ast.Name):
                    self.defs.setdefault(n.targets[0].id, []).append(n.value)
                elif isinstance(n, ast.AugAssign) and isinstance(n.target, ast.Name):
                    self.augs.setdefault(n.target.id, []).append(n.value)

    def count(self, e, depth=0) -> Counter:
        c = Counter()
        if e is None or depth > 12:
            return c
        if isinstance(e, ast.Name):
            if e.id in self.ops:
                c[e.id] += 1
                return c
            if e.id in self.defs or e.id in self.augs:
                vals = self.defs.get(e.id, [])
                if len(vals) > 1:
                    # several alternative definitions: take the maximum per operand
                    for v in vals:
                        sub = self.count(v, depth + 1)
                        for k, x in sub.items():
                            c[k] = max(c[k], x)
                elif vals:
                    c += self.count(vals[0], depth + 1)
                for v in self.augs.get(e.id, []):
                    c += self.count(v, depth + 1)
            return c
        if isinstance(e, ast.JoinedStr):
            for v in e.values:
                if isinstance(v, ast.FormattedValue):
                    c += self.count(v.value, depth + 1)
            return c
        if isinstance(e, ast.BinOp):
            return self.count(e.left, depth + 1) + self.count(e.right, depth + 1)
        if isinstance(e, ast.IfExp):
            a, b = self.count(e.body, depth + 1), self.count(e.orelse, depth + 1)
            for k in set(a) | set(b):
                c[k] = max(a[k], b[k])
            return c
        if isinstance(e, ast.Call):
            f = e.func
            if isinstance(f, ast.Attribute) and f.attr == "get" and len(e.args) == 2:
                return self.count(e.args[1], depth + 1)  # table lookup M.get(f(x), x): one use of x
            if isinstance(f, ast.Attribute) and f.attr == "join" and e.args:
                return self.count(e.args[0], depth + 1)
            if isinstance(f, ast.Attribute) and f.attr in ("strip", "lstrip", "rstrip"):
                return self.count(f.value, depth + 1)
            for a in e.args:
                c += self.count(a, depth + 1)
            return c
        if isinstance(e, (ast.ListComp, ast.GeneratorExp)):
            return self.count(e.elt, depth + 1)
        if isinstance(e, (ast.List, ast.Tuple)):
            for x in e.elts:
                c += self.count(x, depth + 1)
            return c
        if isinstance(e, ast.Subscript):
            return self.count(e.value, depth + 1)
        return c

    def order(self, e, depth=0) -> list[str]:
        """Operands in emission order."""
        if e is None or depth > 12:
            return []
        if isinstance(e, ast.Name):
            if e.id in self.ops:
                return [e.id]
            out = []
            vals = self.defs.get(e.id, [])
            if vals:
                out += self.order(vals[0], depth + 1)
            for v in self.augs.get(e.id, []):
                out += self.order(v, depth + 1)
            return out
        if isinstance(e, ast.JoinedStr):
            out = []
            for v in e.values:
                if isinstance(v, ast.FormattedValue):
                    out += self.order(v.value, depth + 1)
            return out
        if isinstance(e, ast.BinOp):
            return self.order(e.left, depth + 1) + self.order(e.right, depth + 1)
        if isinstance(e, ast.Call):
            f = e.func
            if isinstance(f, ast.Attribute) and f.attr == "get" and len(e.args) == 2:
                return self.order(e.args[1], depth + 1)
            if isinstance(f, ast.Attribute) and f.attr == "join" and e.args:
                return self.order(e.args[0], depth + 1)
            if isinstance(f, ast.Attribute) and f.attr in ("strip", "lstrip", "rstrip"):
                return self.order(f.value, depth + 1)
            out = []
            for a in e.args:
                out += self.order(a, depth + 1)
            return out
        if isinstance(e, ast.IfExp):
            return self.order(e.body, depth + 1)
        if isinstance(e, (ast.ListComp, ast.GeneratorExp)):
            return self.order(e.elt, depth + 1)
        if isinstance(e, ast.Subscript):
            return self.order(e.value, depth + 1)
        return []


def rule_lin(ctx: Ctx) -> RuleReport:
    rep = RuleReport("C19-LIN", "every operand is emitted exactly once, in schema order; descendant searches are never fed to the recursion")
    top, pe, conv = _funcs(ctx)
    rep.unit(pe.key)
    branches = _branches(pe)
    tags = [t for t, _ in branches]
    for need in CHILD_ORDER:
        if need not in tags:
            raise AnalysisError(f"C19-LIN: structural branch for m:{need} vanished from process_element")
    # (a) what is fed to the recursion
    for c in [n for n in ast.walk(pe.node) if _is_pe_call(n)] + [n for n in walk_own(top.node) if _is_pe_call(n)]:
        arg = c.args[0] if c.args else None
        src = _origin(pe, arg, at=c)
        if src is None:
            raise AnalysisError(f"C19-LIN: cannot resolve what `{norm(c)}` is applied to")
        kind, detail = src[0], src[1]
        if kind == "descendant":
            rep.fail(Finding("C19-LIN", OMML, pe.qual, detail, f"`{norm(c)}` recurses into the result of a descendant search ({detail}); nested elements of the same kind are then emitted twice (once here, once through the recursion)", line=c.lineno))
        else:
            rep.ok({"recursion_on": detail, "kind": kind})
    # (b,c) exactly once and in order, per branch
    KNOWN_OTHER = {"t", "oMath", "oMathPara"}
    for tag, st in branches:
        if tag not in CHILD_ORDER and tag not in KNOWN_OTHER:
            # a branch for a tag outside the confirmed inventory: it must still convert every child (the default branch does),
            # i.e. iterate the element itself; picking children by name drops the others (w:t inside m:r, nested operands)
            generic = any(isinstance(x, (ast.For, ast.comprehension)) and isinstance(x.iter, ast.Name) and x.iter.id in {a.arg for a in pe.node.args.args} for n in st.body for x in ast.walk(n))
            if generic:
                rep.ok({"branch": tag, "children": "all, in order"})
            else:
                picks = [norm(x) for n in st.body for x in ast.walk(n) if isinstance(x, ast.Call) and isinstance(x.func, ast.Attribute) and x.func.attr in ("find", "findall", "iter")]
                rep.fail(Finding("C19-LIN", OMML, pe.qual, f"m:{tag}: children picked by name", f"the branch for m:{tag} converts only the children it names ({'; '.join(picks[:3])[:120]}) instead of every child: anything else inside m:{tag} (w:t runs, nested structures) produces no output", line=st.lineno))
            continue
        if tag not in CHILD_ORDER:
            continue
        body = st.body
        operands = {}
        list_operands = {}
        for n in body:
            for a in ast.walk(n):
                if isinstance(a, ast.Assign) and len(a.targets) == 1 and isinstance(a.targets[0], ast.Name):
                    v = a.value
                    if isinstance(v, ast.Call) and isinstance(v.func, ast.Attribute) and v.func.attr == "strip" and _is_pe_call(v.func.value):
                        v = v.func.value
                    if _is_pe_call(v):
                        operands[a.targets[0].id] = v.args[0]
                    elif isinstance(v, ast.ListComp) and _is_pe_call(v.elt):
                        list_operands[a.targets[0].id] = v
        if tag == "m":
            # no cell and no row is filtered out: a dropped (empty) cell shifts every later operand of its row one column to the left
            filt = [x for n in body for x in ast.walk(n) if (isinstance(x, (ast.ListComp, ast.GeneratorExp)) and any(g.ifs for g in x.generators)) or (isinstance(x, ast.Call) and isinstance(x.func, ast.Name) and x.func.id == "filter")]
            filt += [x for n in body for x in ast.walk(n) if isinstance(x, ast.If) and any(isinstance(y, ast.Continue) for y in ast.walk(x))]
            if filt:
                rep.fail(Finding("C19-LIN", OMML, pe.qual, "matrix cells filtered: " + norm(filt[0])[:90], f"the matrix branch drops cells or rows (`{short(filt[0], 70)}`): the remaining operands move to other columns (a diagonal matrix becomes a column of values)", line=filt[0].lineno))
                continue
            # rows.append(" & ".join(cells)) inside the loop over mr
            ok_rows = any(isinstance(n, ast.For) and "findall" in norm(n.iter) for n in body)
            ret = [n for n in ast.walk(st) if isinstance(n, ast.Return)]
            if ok_rows and len(ret) == 1 and "rows" in norm(ret[0]) and list_operands:
                rep.ok({"branch": "m", "emits": "rows of direct m:mr children, cells of direct m:e children, each once"})
            else:
                rep.fail(Finding("C19-LIN", OMML, pe.qual, "matrix branch", "matrix branch no longer emits each cell of each direct row exactly once", line=st.lineno))
            continue
        allops = set(operands) | set(list_operands)
        if not allops:
            raise AnalysisError(f"C19-LIN: no operands recognised in the m:{tag} branch")
        uses = _Uses(body, allops)
        # map operand -> child name
        child_of = {}
        for v, arg in operands.items():
            src = _origin(pe, arg, scope=body)
            child_of[v] = src[2] if src and len(src) > 2 else None
        for v, lc in list_operands.items():
            g = lc.generators[0]
            src = _origin(pe, g.iter, scope=body, at=lc)
            child_of[v] = src[2] if src and len(src) > 2 else None
        rets = [n for n in ast.walk(st) if isinstance(n, ast.Return) and n.value is not None]
        for r in rets:
            cnt = uses.count(r.value)
            conds, _, _ = path_conditions(pe.node, r)
            cond_txt = " and ".join(str(c) for c in conds)
            malformed = any(isinstance(s, ast.Expr) and isinstance(s.value, ast.Call) and isinstance(s.value.func, ast.Attribute) and s.value.func.attr == "append" and "pending" in norm(s.value.func.value)
                            for s in _block_of(st, r))
            for v in sorted(allops):
                k = cnt.get(v, 0)
                if k == 1:
                    rep.ok({"branch": tag, "return": short(r.value, 50), "operand": v, "uses": 1})
                elif k == 0 and (f"not {v}" in {str(c) for c in conds} or f"not {v}.strip()" in {str(c) for c in conds}):
                    rep.ok({"branch": tag, "return": short(r.value, 50), "operand": v, "uses": 0, "exempt": "operand is blank on this path"})
                elif k == 0 and malformed and (v in cond_txt or v in _cond_sources(conds, uses)) and _lone_bracket_test(ctx, pe, conds) is True:
                    rep.ok({"branch": tag, "return": short(r.value, 50), "operand": v, "uses": 0, "exempt": "lone bracket consumed by the malformed-radical path"})
                else:
                    rep.fail(Finding("C19-LIN", OMML, pe.qual, f"m:{tag}: {short(r.value, 80)}", f"operand `{v}` of m:{tag} is emitted {k} times in `{short(r.value, 60)}` (must be exactly once)", line=r.lineno))
            order = [child_of.get(v) for v in dict.fromkeys(uses.order(r.value))]
            want = [c for c in CHILD_ORDER[tag] if c in order]
            if order == want:
                rep.ok({"branch": tag, "order": order})
            else:
                rep.fail(Finding("C19-LIN", OMML, pe.qual, f"m:{tag} order {order}", f"m:{tag} emits its operands in order {order}, source order is {CHILD_ORDER[tag]}", line=r.lineno))
    # (k) what is dropped with its whole subtree before the dispatch: nothing but absent elements and the listed property elements; the list
    # names no element that can hold a run (ECMA-376 part 1, 22.1.2: the structures, their argument elements, runs; the WordprocessingML
    # wrappers a math zone may sit in or contain)
    CONTENT = {"acc", "bar", "box", "borderBox", "d", "eqArr", "f", "func", "groupChr", "limLow", "limUpp", "m", "nary", "phant", "rad", "sPre", "sSub", "sSubSup", "sSup",
               "r", "t", "e", "num", "den", "sub", "sup", "deg", "fName", "lim", "mr", "oMath", "oMathPara", "ins", "moveTo", "sdt", "sdtContent", "smartTag", "hyperlink", "fldSimple", "customXml"}
    prm_ = {a.arg for a in pe.node.args.args}
    tagv_ = {n.targets[0].id for n in pe.node.body if isinstance(n, ast.Assign) and len(n.targets) == 1 and isinstance(n.targets[0], ast.Name)
             and any(isinstance(x, ast.Attribute) and x.attr == "tag" and isinstance(x.value, ast.Name) and x.value.id in prm_ for x in ast.walk(n.value))}
    branch_stmts = {id(st) for _t, st in branches}
    n_drop = 0
    for st in pe.node.body:
        if not isinstance(st, ast.If) or id(st) in branch_stmts or not st.body or not isinstance(st.body[-1], ast.Return):
            continue
        rv = st.body[-1].value
        if any(_is_pe_call(x) for b in st.body for x in ast.walk(b)) or not (rv is None or isinstance(rv, ast.Constant)):
            continue
        n_drop += 1
        t = st.test
        if isinstance(t, ast.Compare) and len(t.ops) == 1 and isinstance(t.ops[0], ast.Is) and isinstance(t.left, ast.Name) and t.left.id in prm_ and isinstance(t.comparators[0], ast.Constant) and t.comparators[0].value is None:
            rep.ok({"dropped_before_dispatch": "absent element"})
        elif isinstance(t, ast.Compare) and len(t.ops) == 1 and isinstance(t.ops[0], ast.In) and isinstance(t.left, ast.Name) and t.left.id in tagv_:
            S = ctx.folder.fold(ctx.p.module(OMML), t.comparators[0])
            if not isinstance(S, (set, frozenset, tuple, list)):
                raise AnalysisError(f"C19-LIN: the set of skipped element names `{norm(t.comparators[0])}` cannot be folded")
            hit = sorted(set(S) & CONTENT)
            if hit:
                rep.fail(Finding("C19-LIN", OMML, pe.qual, f"skipped element names include {', '.join(hit)}", f"`{short(t, 40)}` drops {', '.join('<' + h + '>' for h in hit)} with everything inside: these elements hold runs (structures, argument elements, runs, tracked-change and content-control wrappers), their text is missing from the formula", line=st.lineno))
            else:
                rep.ok({"dropped_before_dispatch": f"{len(S)} property element names, none can hold a run"})
        elif all(isinstance(c.func, ast.Name) and c.func.id == "isinstance" for c in ast.walk(t) if isinstance(c, ast.Call)) and any(isinstance(c, ast.Call) for c in ast.walk(t)):
            rep.ok({"dropped_before_dispatch": "non-element node (comment / processing instruction): " + short(t, 40)})
        else:
            rep.fail(Finding("C19-LIN", OMML, pe.qual, "element dropped before the dispatch: " + anorm(t, pe.node), f"`if {short(t, 50)}: return {short(rv, 10) if rv is not None else ''}` drops an element with its whole subtree by a test that is neither `is None` nor the list of property elements: math runs inside a tracked insertion (w:ins), a content control (w:sdt) or a smart tag, and w:t text inside m:r, produce no output", line=st.lineno))
    if n_drop < 2:
        raise AnalysisError(f"C19-LIN: only {n_drop} early exits of process_element found (2 confirmed: absent element, property elements)")
    # (j) templates moved into a helper of the module: the helper is linear in its parameters -- on each of its return paths every
    # parameter is emitted exactly once, or the path's own condition says that this parameter is blank
    mod_ = ctx.p.module(OMML)
    helper_calls = {}
    for tag, st in branches:
        for r_ in [n for n in ast.walk(st) if isinstance(n, ast.Return) and n.value is not None]:
            for c in ast.walk(r_.value):
                if isinstance(c, ast.Call) and isinstance(c.func, ast.Name) and c.func.id in mod_.functions and not _is_pe_call(c) and c.func.id != conv.name and mod_.functions[c.func.id].parent is None:
                    helper_calls.setdefault(c.func.id, []).append((tag, c))
    for hname, sites in sorted(helper_calls.items()):
        h = mod_.functions[hname]
        rep.unit(h.key)
        hparams = [a.arg for a in h.node.args.args]
        huses = _Uses(h.node.body, set(hparams))
        for r_ in [n for n in walk_own(h.node) if isinstance(n, ast.Return)]:
            cnt = huses.count(r_.value) if r_.value is not None else {}
            conds, _, _ = path_conditions(h.node, r_)
            cs = {str(c) for c in conds}
            for v in hparams:
                k = cnt.get(v, 0)
                if k == 1:
                    rep.ok({"helper": hname, "return": short(r_.value, 40) if r_.value is not None else "None", "parameter": v, "uses": 1})
                elif k == 0 and (f"not {v}" in cs or f"not {v}.strip()" in cs):
                    rep.ok({"helper": hname, "return": short(r_.value, 40) if r_.value is not None else "None", "parameter": v, "uses": 0, "exempt": "parameter is blank on this path"})
                else:
                    tags_ = sorted({t for t, _c in sites})
                    rep.fail(Finding("C19-LIN", OMML, h.qual, f"{hname}: parameter emitted {k} times in {anorm(r_, h.node)}", f"`{short(r_, 50)}` (taken when {' and '.join(sorted(cs)) or 'always'}) emits parameter `{v}` {k} times; the branches for m:{', m:'.join(tags_)} pass operand text in it (degree of a radical, name of a function): that text is lost or repeated", line=r_.lineno))
    # (g) an element's own property child decides its characters: no descendant search inside a structural branch (a nested
    # delimiter / operator / accent in the operands would lend its character to the outer element)
    mod = ctx.p.module(OMML)
    n_own = 0
    for tag, st in branches:
        for c in [x for n in st.body for x in ast.walk(n) if isinstance(x, ast.Call) and isinstance(x.func, ast.Attribute) and x.func.attr in ("find", "findall", "findtext", "iter", "iterfind")]:
            path = ctx.folder.fold(mod, c.args[0]) if c.args else None
            bare = re.sub(r"\{[^}]*\}", "", path) if isinstance(path, str) else None
            if c.func.attr == "iter" or (bare is not None and "//" in bare):
                rep.fail(Finding("C19-LIN", OMML, pe.qual, f"m:{tag}: descendant lookup {c.func.attr}({path!r})" if isinstance(path, str) else f"m:{tag}: descendant lookup {norm(c)}", f"the branch for m:{tag} searches its whole subtree (`{short(c, 60)}`): when the element has no such property of its own, the first nested element's character is taken -- (1+|x|) becomes |1+|x||", line=c.lineno))
            else:
                n_own += 1
    rep.ok({"property_lookups": n_own, "descendant_searches": 0})
    # (h) defaults of absent property characters are the ones of ECMA-376 part 1: m:nary without m:chr is the integral (22.1.2.20),
    # m:d without begChr / endChr is ( ) (22.1.2.7, 22.1.2.30)
    SPEC_DEFAULTS = {"nary": {"\u222b"}, "d": {"(", ")"}}
    for tag, st in branches:
        if tag not in SPEC_DEFAULTS:
            continue
        got = []
        for x in [y for n in st.body for y in ast.walk(n) if isinstance(y, ast.IfExp)]:
            if isinstance(x.test, ast.Compare) and "is not None" in norm(x.test) and isinstance(x.orelse, ast.Constant) and isinstance(x.orelse.value, str):
                got.append((x, x.orelse.value))
                if isinstance(x.body, ast.Call) and isinstance(x.body.func, ast.Attribute) and x.body.func.attr == "get" and len(x.body.args) == 2 and isinstance(x.body.args[1], ast.Constant):
                    got.append((x, x.body.args[1].value))
        # the same through a helper of the module: helper(elem, ..., "<default>")
        for x in [y for n in st.body for y in ast.walk(n) if isinstance(y, ast.Call) and isinstance(y.func, ast.Name) and y.func.id in mod.functions and not _is_pe_call(y)]:
            if x.args and isinstance(x.args[-1], ast.Constant) and isinstance(x.args[-1].value, str) and any(isinstance(c, ast.Call) and isinstance(c.func, ast.Attribute) and c.func.attr == "find" for c in ast.walk(mod.functions[x.func.id].node)):
                got.append((x, x.args[-1].value))
        if not got:
            rep.info.append(f"default character of m:{tag} not recognised in the branch (not decided)")
            continue
        for x, v in got:
            if v in SPEC_DEFAULTS[tag]:
                rep.ok({"branch": tag, "default_character": v})
            else:
                rep.fail(Finding("C19-LIN", OMML, pe.qual, f"m:{tag}: default character {v!r}", f"m:{tag} without its character property is rendered with {v!r}; ECMA-376 defines {sorted(SPEC_DEFAULTS[tag])} -- Word omits the property exactly for that default, so every plain integral / parenthesis gets the wrong form", line=x.lineno))
    # (h') an m:val that is present and empty is a value ("no character": the evaluation bar F(x)| has an empty begChr), not a missing one:
    # the default applies under `is None` tests only, never through the truthiness of the attribute value (`value or default`)
    scopes = [(tag, n) for tag, st in branches if tag in ("nary", "d", "acc") for n in st.body]
    helper_fns = {x.func.id for _t, n in scopes for x in ast.walk(n) if isinstance(x, ast.Call) and isinstance(x.func, ast.Name) and x.func.id in mod.functions and not _is_pe_call(x)}
    bodies = [(f"m:{t}", n, pe) for t, n in scopes] + [(h, n, mod.functions[h]) for h in sorted(helper_fns) for n in mod.functions[h].node.body]
    n_or = 0
    for where, n, owner in bodies:
        vals = {a.targets[0].id for a in ast.walk(owner.node) if isinstance(a, ast.Assign) and len(a.targets) == 1 and isinstance(a.targets[0], ast.Name)
                and any(isinstance(c, ast.Call) and isinstance(c.func, ast.Attribute) and c.func.attr == "get" for c in ast.walk(a.value))}
        for b in [x for x in ast.walk(n) if isinstance(x, ast.BoolOp) and isinstance(x.op, ast.Or) and len(x.values) == 2]:
            left = b.values[0]
            from_attr = (isinstance(left, ast.Name) and left.id in vals) or any(isinstance(c, ast.Call) and isinstance(c.func, ast.Attribute) and c.func.attr == "get" for c in ast.walk(left))
            if from_attr:
                n_or += 1
                rep.fail(Finding("C19-LIN", OMML, owner.qual, f"{where}: default through truthiness: {anorm(b, owner.node)}", f"`{short(b, 50)}` replaces an m:val that is present but empty by the default character: a delimiter written with an empty begChr / endChr (the evaluation bar 'F(x)|', a one-sided brace) gets a parenthesis that is not in the source", line=b.lineno))
    if n_or == 0:
        rep.ok({"property_defaults": "applied under `is None` tests only"})
    # (i) call sites: m:oMathPara holds one m:oMath per line (CT_OMathPara: oMath+); taking find() of it converts the first line only
    for rel in (X + "ms_modern/docx_extractor.py", X + "ms_modern/pptx_extractor.py"):
        cm = ctx.p.module(rel)
        sites = 0
        for fi in cm.functions.values():
            for c in calls_in(fi):
                if isinstance(c.func, ast.Attribute) and c.func.attr in ("find", "findall", "iter") and c.args and norm(c.args[0]) == "M_OMATH":
                    sites += 1
                    if c.func.attr == "find":
                        rep.fail(Finding("C19-LIN", rel, fi.qual, f"{norm(c.func.value)}.find(M_OMATH)".replace(norm(c.func.value), "v0"), f"`{short(c, 50)}` takes only the first m:oMath of a display equation: the run text of every further line of a multi-line equation (Shift+Enter in Word) is missing from the text and from the formulas", line=c.lineno))
                    else:
                        rep.ok({"call_site": f"{fi.qual}: {short(c, 40)}", "all_children": True})
        if sites == 0:
            raise AnalysisError(f"C19-LIN: no m:oMath lookup found in {rel}")
    # (d) default branch and top level: concatenation of all direct children in order
    from sa.engine.shape import compare

    tail = pe.node.body[-3:]
    r = compare(tail, "result = []\nfor child in elem:\n    child_result = process_element(child)\n    if child_result:\n        result.append(child_result)\nreturn ''.join(result)", params=["elem"])
    if r == "equal":
        rep.ok({"default_branch": "concatenates process_element(child) for every direct child in order"})
    elif r == "leaves":
        rep.fail(Finding("C19-LIN", OMML, pe.qual, " ; ".join(norm(s) for s in tail)[:200], "default branch no longer concatenates every direct child once, in order", line=tail[0].lineno))
    else:
        raise AnalysisError("C19-LIN: default branch of process_element no longer has the recognised structure")
    loops = [n for n in top.node.body if isinstance(n, ast.For)]
    outv = next((c.args[0].id for r_ in walk_own(top.node) if isinstance(r_, ast.Return) and r_.value is not None for c in ast.walk(r_.value)
                 if isinstance(c, ast.Call) and isinstance(c.func, ast.Attribute) and c.func.attr == "join" and c.args and isinstance(c.args[0], ast.Name)), "parts")
    top_param = top.node.args.args[0].arg if top.node.args.args else "omath_element"
    if len(loops) == 1 and compare([loops[0]], "for child in omath_element:\n    child_result = process_element(child)\n    if child_result:\n        parts.append(child_result)", params=[top_param, outv], template_params=["omath_element", "parts"]) == "equal":
        rep.ok({"top_level": "every direct child of the formula is converted once, in order"})
    else:
        rep.fail(Finding("C19-LIN", OMML, top.qual, norm(loops[0])[:160] if loops else "no loop", "top level no longer converts every direct child once, in order", line=top.node.lineno))
    # (f) text runs: emitted as converted text; the malformed path consumes exactly the one closing bracket
    tb = [st for t, st in branches if t == "t"]
    if not tb:
        raise AnalysisError("C19-LIN: text branch vanished")
    # the run's text reaches the symbol table unchanged: no call between `elem.text` and convert_greek_and_symbols
    cvc = [c for st in tb[0].body for c in ast.walk(st) if isinstance(c, ast.Call) and (dotted(c.func) or "") == "convert_greek_and_symbols"]
    if len(cvc) == 1 and cvc[0].args:
        a = cvc[0].args[0]
        hops = 0
        while isinstance(a, ast.Name) and hops < 4:
            defs = [n.value for st in tb[0].body for n in ast.walk(st) if isinstance(n, ast.Assign) and len(n.targets) == 1 and isinstance(n.targets[0], ast.Name) and n.targets[0].id == a.id]
            if len(defs) != 1:
                break
            a, hops = defs[0], hops + 1
        inner = [c for c in ast.walk(a) if isinstance(c, ast.Call)]
        if inner:
            rep.fail(Finding("C19-LIN", OMML, pe.qual, "m:t text through " + (dotted(inner[0].func) or norm(inner[0].func)), f"the text of a run passes through `{short(inner[0], 60)}` before it is looked up in the symbol table: characters of the formula are rewritten or dropped by something other than the documented symbol mapping", line=inner[0].lineno))
            return rep
    r = compare(tb[0].body, "text = elem.text or ''\nconverted = convert_greek_and_symbols(text)\nif pending_sqrt_close and pending_sqrt_close[-1] in converted:\n    idx = converted.index(pending_sqrt_close[-1])\n    inside = converted[:idx]\n    outside = converted[idx + 1:]\n    pending_sqrt_close.pop()\n    return inside + '}' + outside\nreturn converted", params=["elem"])
    if r == "equal":
        rep.ok({"text_run": "converted text emitted once; malformed path replaces exactly the closing bracket by '}'"})
    elif r == "leaves":
        rep.fail(Finding("C19-LIN", OMML, pe.qual, " ; ".join(norm(s) for s in tb[0].body)[:240], "text-run branch: a constant/operator/operand differs — run text is no longer emitted exactly once (e.g. slice bounds around the consumed bracket, or lookups on a different string than the one tested)", line=tb[0].lineno))
    else:
        raise AnalysisError("C19-LIN: text-run branch no longer has the recognised structure")
    # convert_greek_and_symbols: one output element per input character, in order
    conv_body = [st for st in conv.node.body if not (isinstance(st, ast.Expr) and isinstance(st.value, ast.Constant))]
    FORMS = ["result = []\nfor char in text:\n    if char in GREEK_TO_LATEX:\n        result.append(GREEK_TO_LATEX[char])\n    else:\n        result.append(char)\nreturn ''.join(result)",
             "return ''.join((GREEK_TO_LATEX.get(char, char) for char in text))",
             "return ''.join([GREEK_TO_LATEX.get(char, char) for char in text])",
             "result = []\nfor char in text:\n    result.append(GREEK_TO_LATEX.get(char, char))\nreturn ''.join(result)"]
    rs = [compare(conv_body, f_, params=[conv.node.args.args[0].arg], template_params=["text"]) for f_ in FORMS]
    r = "equal" if "equal" in rs else "leaves" if "leaves" in rs else "other"
    if r == "equal":
        rep.ok({"convert_greek_and_symbols": "one output item per input character, in order"})
    elif r == "leaves":
        rep.fail(Finding("C19-LIN", OMML, conv.qual, " ; ".join(norm(s) for s in conv.node.body)[:200], "symbol conversion no longer maps each character once, in order", line=conv.node.lineno))
    else:
        raise AnalysisError("C19-LIN: convert_greek_and_symbols no longer has the recognised structure")
    return rep


def _lone_bracket_test(ctx, pe, conds):
    """True when some path condition is `<x> in <collection>` and the collection folds to a tuple / list / set / dict of single opening
    brackets; False when it folds to a *string* (a substring test: the empty operand is 'in' it too); None when there is no such test"""
    verdict = None
    for c in conds:
        try:
            e = ast.parse(str(c), mode="eval").body
        except SyntaxError:
            continue
        for cmp_ in [x for x in ast.walk(e) if isinstance(x, ast.Compare) and len(x.ops) == 1 and isinstance(x.ops[0], ast.In)]:
            v = ctx.folder.fold(pe.module, cmp_.comparators[0])
            if isinstance(v, str):
                return False
            if isinstance(v, (tuple, list, set, frozenset, dict)) and v and all(isinstance(k, str) and len(k) == 1 and k in "([{" for k in v):
                verdict = True
    return verdict


def _cond_sources(conds, uses, depth=3) -> set:
    """names the path conditions depend on, through the local definitions of the branch (`opener = content_text.strip()`)"""
    names = set()
    for c in conds:
        try:
            names |= {x.id for x in ast.walk(ast.parse(str(c), mode="eval")) if isinstance(x, ast.Name)}
        except SyntaxError:
            pass
    for _ in range(depth):
        more = set()
        for n in names:
            for d in uses.defs.get(n, []):
                more |= {x.id for x in ast.walk(d) if isinstance(x, ast.Name)}
        if more <= names:
            break
        names |= more
    return names


def _block_of(if_stmt, target):
    """Statements of the branch that lexically precede `target` in its own and all enclosing blocks (dominating code)."""
    out = []

    def rec(stmts) -> bool:
        for i, s in enumerate(stmts):
            if s is target:
                out.extend(stmts[:i])
                return True
            for fld in ("body", "orelse", "finalbody"):
                sub = getattr(s, fld, None)
                if isinstance(sub, list) and sub and rec(sub):
                    out.extend(stmts[:i])
                    return True
        return False

    rec(if_stmt.body)
    return out


def _origin(pe, arg, scope=None, depth=0, at=None):
    """('child'|'descendant', description, child-name) for the value a recursive call is applied to.

    Names are resolved inside the top-level statement of process_element that contains the use (`at`), innermost
    enclosing comprehension / for-loop first, so equally named variables of other branches do not interfere.
    """
    if arg is None or depth > 5:
        return None
    at = at if at is not None else arg
    if isinstance(arg, ast.Name):
        roots = scope
        if roots is None:
            roots = [st for st in pe.node.body if _has(st, at)] or [pe.node]
        # innermost enclosing binder of that name
        best = None
        best_size = None
        for root in roots:
            for n in ast.walk(root):
                binder = None
                if isinstance(n, ast.For) and isinstance(n.target, ast.Name) and n.target.id == arg.id and any(_has(b, at) for b in n.body):
                    binder = n.iter
                elif isinstance(n, (ast.ListComp, ast.GeneratorExp, ast.SetComp)) and _has(n, at):
                    for g in n.generators:
                        if isinstance(g.target, ast.Name) and g.target.id == arg.id:
                            binder = g.iter
                if binder is not None:
                    size = sum(1 for _ in ast.walk(n))
                    if best_size is None or size < best_size:
                        best, best_size = binder, size
        if best is None:
            for root in roots:
                for n in ast.walk(root):
                    if isinstance(n, ast.Assign) and len(n.targets) == 1 and isinstance(n.targets[0], ast.Name) and n.targets[0].id == arg.id:
                        best = n.value
        if best is None:
            if arg.id == "child" or scope is None:
                # loop variable of the top-level `for child in omath_element`
                return ("child", f"loop variable {arg.id}", None) if arg.id == "child" else None
            return _origin(pe, arg, None, depth + 1, at)
        if isinstance(best, ast.Name) and best.id in ("elem", "omath_element"):
            return ("child", f"for {arg.id} in {best.id}", None)
        return _origin(pe, best, scope, depth + 1, at)
    if isinstance(arg, ast.Call):
        name, desc = _child_name(arg)
        if name is not None:
            return ("descendant" if desc else "child", norm(arg), name)
        if isinstance(arg.func, ast.Name) and arg.func.id in ("list", "iter", "reversed") and arg.args:
            return _origin(pe, arg.args[0], scope, depth + 1, at)
    return None


# ------------------------------------------------------------------------------------------- BAL
_HELPERS: dict = {}

def _brace_net(uses: "_Uses | None", e, depth=0) -> int | None:
    """Net count of literal '{' minus '}' in the constant parts of an emitted expression (None = unknown)."""
    if e is None or depth > 12:
        return 0
    if isinstance(e, ast.Constant):
        return e.value.count("{") - e.value.count("}") if isinstance(e.value, str) else 0
    if isinstance(e, ast.JoinedStr):
        t = 0
        for v in e.values:
            if isinstance(v, ast.Constant) and isinstance(v.value, str):
                t += v.value.count("{") - v.value.count("}")
        return t
    if isinstance(e, ast.BinOp) and isinstance(e.op, ast.Add):
        a, b = _brace_net(uses, e.left, depth + 1), _brace_net(uses, e.right, depth + 1)
        return None if a is None or b is None else a + b
    if isinstance(e, ast.BinOp) and isinstance(e.op, ast.Mult):
        return None
    if isinstance(e, ast.Name):
        if uses is None:
            return 0
        t = 0
        vals = uses.defs.get(e.id, [])
        nets = set()
        for v in vals:
            n = _brace_net(uses, v, depth + 1)
            if n is None:
                return None
            nets.add(n)
        if len(nets) > 1:
            return None
        t += nets.pop() if nets else 0
        for v in uses.augs.get(e.id, []):
            n = _brace_net(uses, v, depth + 1)
            if n is None:
                return None
            if n != 0:
                return None  # a conditional accumulation must be balanced by itself
        return t
    if isinstance(e, ast.Call):
        f = e.func
        if isinstance(f, ast.Name) and f.id in _HELPERS:
            # a template helper of the module: the braces of its own returns (all paths alike, or the empty string) plus those of the arguments
            h = _HELPERS[f.id]
            hu = _Uses(h.body, set())
            hu.defs = {k: v for k, v in hu.defs.items() if k not in {a.arg for a in h.args.args}}
            nets = set()
            for r_ in [n for n in ast.walk(h) if isinstance(n, ast.Return)]:
                n_ = _brace_net(hu, r_.value, depth + 1)
                if n_ is None:
                    return None
                nets.add(n_)
            if len(nets) > 1:
                return None
            t = nets.pop() if nets else 0
            for a in e.args:
                n_ = _brace_net(uses, a, depth + 1)
                if n_ is None:
                    return None
                t += n_
            return t
        if isinstance(f, ast.Attribute) and f.attr == "get" and len(e.args) == 2:
            # table lookup with default: the table's values are checked separately, the default is an operand
            return 0
        if isinstance(f, ast.Attribute) and f.attr == "join":
            sep = _brace_net(uses, f.value, depth + 1)
            return 0 if sep == 0 else None
        return 0
    if isinstance(e, ast.IfExp):
        a, b = _brace_net(uses, e.body, depth + 1), _brace_net(uses, e.orelse, depth + 1)
        return a if a == b else None
    return 0


def rule_bal(ctx: Ctx) -> RuleReport:
    rep = RuleReport("C19-BAL", "literal braces of every returned template balance; the pending-radical stack is pushed non-None, popped under a guard and drained at the end")
    top, pe, conv = _funcs(ctx)
    _HELPERS.clear()
    _HELPERS.update({n: f.node for n, f in ctx.p.module(OMML).functions.items() if f.parent is None and n not in (top.name, conv.name)})
    rep.unit(pe.key)
    m = ctx.p.module(OMML)
    # the pending state: a list (stack)
    pend = None
    for n in top.node.body:
        if isinstance(n, (ast.Assign, ast.AnnAssign)):
            tgt = n.targets[0] if isinstance(n, ast.Assign) else n.target
            if isinstance(tgt, ast.Name) and "pending" in tgt.id:
                pend = (tgt.id, n.value)
    if pend is None:
        raise AnalysisError("C19-BAL: pending-radical state not found in omml_to_latex")
    pname, pinit = pend
    is_stack = isinstance(pinit, ast.List) and not pinit.elts
    cfg = ctx.cfg(pe)
    nl = Nullness(pe.node, cfg)
    if not is_stack:
        # single slot: every store must be guarded by emptiness of the slot, else a second malformed radical loses a brace
        for n in walk_own(pe.node):
            if isinstance(n, ast.Assign) and any(isinstance(t, ast.Name) and t.id == pname for t in n.targets) and not (isinstance(n.value, ast.Constant) and n.value.value is None):
                g = _all_guards(pe.node, n)
                if f"not {pname}" in g or f"{pname} is None" in g:
                    rep.ok({"slot_store_guarded": norm(n)})
                else:
                    rep.fail(Finding("C19-BAL", OMML, pe.qual, norm(n), f"the single pending slot `{pname}` is overwritten while it may still hold an unclosed radical: one '}}' is lost", line=n.lineno))
    for r in [n for n in walk_own(pe.node) if isinstance(n, ast.Return) and n.value is not None]:
        blk = None
        for tag, st in _branches(pe):
            if _has(st, r):
                blk = st
        uses = _Uses(blk.body if blk is not None else pe.node.body, set())
        net = _brace_net(uses, r.value)
        local = _block_of(blk, r) if blk is not None else pe.node.body
        pushes = [s.value for s in local if isinstance(s, ast.Expr) and isinstance(s.value, ast.Call) and isinstance(s.value.func, ast.Attribute) and s.value.func.attr == "append" and norm(s.value.func.value) == pname]
        slot_sets = [s for s in local if isinstance(s, ast.Assign) and any(isinstance(t, ast.Name) and t.id == pname for t in s.targets) and not (isinstance(s.value, ast.Constant) and s.value.value is None)]
        pops = [s for s in local if (isinstance(s, ast.Expr) and isinstance(s.value, ast.Call) and isinstance(s.value.func, ast.Attribute) and s.value.func.attr == "pop" and norm(s.value.func.value) == pname)
                or (isinstance(s, ast.Assign) and any(isinstance(t, ast.Name) and t.id == pname for t in s.targets) and isinstance(s.value, ast.Constant) and s.value.value is None)]
        if net is None:
            raise AnalysisError(f"C19-BAL: cannot determine the literal brace balance of `{short(r.value, 60)}`")
        if net == 0 and not pushes and not pops and not slot_sets:
            rep.ok({"return": short(r.value, 60), "net_braces": 0})
        elif net == 1 and (len(pushes) == 1 or len(slot_sets) == 1) and not pops:
            val = pushes[0].args[0] if pushes else slot_sets[0].value
            src = pushes[0] if pushes else slot_sets[0]
            if nl.expr(val, nl.env_at(src)) == M:
                rep.fail(Finding("C19-BAL", OMML, pe.qual, norm(src), f"`{short(r.value, 40)}` opens a brace but records `{norm(val)}`, which may be None, as the bracket to wait for: nothing will close it", line=src.lineno))
            else:
                rep.ok({"return": short(r.value, 60), "net_braces": 1, "push": norm(src)})
        elif net == -1 and len(pops) == 1 and not pushes:
            g = _all_guards(pe.node, pops[0])
            if pname in g:
                rep.ok({"return": short(r.value, 60), "net_braces": -1, "pop_guarded_by": pname})
            else:
                rep.fail(Finding("C19-BAL", OMML, pe.qual, short(r.value), "a closing brace is emitted without a pending radical being open", line=r.lineno))
        else:
            rep.fail(Finding("C19-BAL", OMML, pe.qual, short(r.value), f"returned template has literal brace balance {net:+d} with {len(pushes) + len(slot_sets)} push(es) / {len(pops)} pop(s) of the pending-radical state: output braces do not balance", line=r.lineno))
    # pushes/pops outside a return-carrying block
    for n in walk_own(pe.node):
        if isinstance(n, ast.Call) and isinstance(n.func, ast.Attribute) and norm(n.func.value) == pname and n.func.attr in ("clear", "extend", "insert", "remove"):
            rep.fail(Finding("C19-BAL", OMML, pe.qual, short(n), "pending-radical stack is modified outside the push/pop protocol", line=n.lineno))
    # drained at the end (the output list is the one the final return joins, whatever it is called)
    drained = False
    outv = next((c.args[0].id for r_ in walk_own(top.node) if isinstance(r_, ast.Return) and r_.value is not None for c in ast.walk(r_.value)
                 if isinstance(c, ast.Call) and isinstance(c.func, ast.Attribute) and c.func.attr == "join" and c.args and isinstance(c.args[0], ast.Name)), "parts")
    for n in top.node.body:
        s = norm(n).replace(f"{outv}.append(", "parts.append(")
        if is_stack and (f"parts.append('}}' * len({pname}))" in s or (isinstance(n, ast.For) and norm(n.iter) == pname and "parts.append('}')" in s)
                         or (isinstance(n, ast.While) and norm(n.test) == pname and "parts.append('}')" in s and f"{pname}.pop()" in s)):
            drained = True
        if not is_stack and isinstance(n, ast.If) and norm(n.test) == pname and "parts.append('}')" in s:
            drained = True
    if drained:
        rep.ok({"end": f"every entry left in {pname} is closed with '}}'"})
    else:
        rep.fail(Finding("C19-BAL", OMML, top.qual, pname, "radicals whose closing bracket never arrives are not all closed at the end of the conversion", line=top.node.lineno))
    # symbol table values are balanced
    tbl = ctx.folder.const(m, "GREEK_TO_LATEX")
    if not isinstance(tbl, dict):
        raise AnalysisError("C19-BAL: GREEK_TO_LATEX is no longer a foldable dict literal")
    bad = {k: v for k, v in tbl.items() if not isinstance(v, str) or v.count("{") != v.count("}")}
    if bad:
        rep.fail(Finding("C19-BAL", OMML, "GREEK_TO_LATEX", ", ".join(sorted(map(repr, bad))), f"symbol table entries with unbalanced braces: {bad}"))
    else:
        rep.ok({"GREEK_TO_LATEX": f"{len(tbl)} values balanced"})
    # local maps inside the converter (op_map, func_map, accent_map, bracket_map)
    for n in walk_own(pe.node):
        if isinstance(n, ast.Dict):
            v = ctx.folder.fold(m, n)
            if isinstance(v, dict):
                badv = [x for x in v.values() if isinstance(x, str) and x.count("{") != x.count("}") and not all(k in "([{" for k in v.keys())]
                if badv:
                    rep.fail(Finding("C19-BAL", OMML, pe.qual, norm(n)[:100], f"command table contains unbalanced values {badv}", line=n.lineno))
                else:
                    rep.ok()
    return rep


# ------------------------------------------------------------------------------------------- REC / DET
def rule_rec(ctx: Ctx) -> RuleReport:
    rep = RuleReport("C19-REC", "structural recursion on direct children; deterministic (no set iteration, no module state written)")
    top, pe, conv = _funcs(ctx)
    m = ctx.p.module(OMML)
    for c in [n for n in ast.walk(pe.node) if _is_pe_call(n)]:
        arg = c.args[0] if c.args else None
        src = _origin(pe, arg, at=c)
        if src is None:
            rep.fail(Finding("C19-REC", OMML, pe.qual, norm(c), "recursive call on a value that is not a child of the current element (termination not structural)", line=c.lineno))
        elif isinstance(arg, ast.Name) and arg.id == "elem":
            rep.fail(Finding("C19-REC", OMML, pe.qual, norm(c), "recursive call on the element itself: unbounded recursion", line=c.lineno))
        else:
            rep.ok({"recursive_call": norm(c), "argument_is": src[1]})
    for fi in (top, pe, conv):
        for n in walk_own(fi.node):
            if isinstance(n, ast.Global):
                rep.fail(Finding("C19-REC", OMML, fi.qual, norm(n), "converter writes module-level state", line=n.lineno))
            if isinstance(n, (ast.For, ast.comprehension)):
                it = n.iter
                v = ctx.folder.fold(m, it) if isinstance(it, ast.Name) else UNKNOWN
                if isinstance(it, (ast.Set, ast.SetComp)) or (isinstance(it, ast.Call) and dotted(it.func) in ("set", "frozenset")) or isinstance(v, (set, frozenset)):
                    rep.fail(Finding("C19-REC", OMML, fi.qual, norm(it), "iteration over a set: output order depends on the hash seed", line=getattr(it, "lineno", None)))
                else:
                    rep.ok()
            if isinstance(n, ast.Call) and (dotted(n.func) or "").split(".")[0] in ("random", "time", "uuid", "secrets"):
                rep.fail(Finding("C19-REC", OMML, fi.qual, short(n), "nondeterministic call in the converter", line=n.lineno))
        # stores into module-level containers
        for n in walk_own(fi.node):
            tgt = None
            if isinstance(n, ast.Assign):
                tgt = n.targets[0]
            elif isinstance(n, ast.AugAssign):
                tgt = n.target
            if isinstance(tgt, ast.Subscript) and isinstance(tgt.value, ast.Name) and tgt.value.id in m.assigns and tgt.value.id.isupper():
                rep.fail(Finding("C19-REC", OMML, fi.qual, norm(n), "converter writes a module-level table", line=n.lineno))
    return rep


RULES = [rule_null, rule_total, rule_lin, rule_bal, rule_rec]
