import io, os, re, sys, logging, tempfile, shutil

sys.path.insert(0, os.getcwd())


class _Capture(logging.Handler):
    def __init__(self):
        super().__init__(level=logging.WARNING)
        self.lines = []

    def emit(self, record):
        self.lines.append(f"{record.levelname}:{record.name}:{record.getMessage()}")


CAPTURE = _Capture()
_root_logger = logging.getLogger()
_root_logger.handlers[:] = [CAPTURE]
_root_logger.setLevel(logging.WARNING)


def drain_log():
    out, CAPTURE.lines = CAPTURE.lines, []
    return out

import itertools
import zipfile

from sharepoint2text.parsing.exceptions import ExtractionZipBombError
from sharepoint2text.parsing.extractors.util.zip_bomb import (
    DEFAULT_ZIP_BOMB_LIMITS,
    ZipBombLimits,
    open_zipfile,
    validate_zip_bytesio,
    validate_zipfile,
)


class FakeZip:
    def __init__(self, infos, fail=None):
        self._infos, self._fail = infos, fail

    def infolist(self):
        if self._fail is not None:
            raise self._fail
        return self._infos


def entry(name, file_size, compress_size):
    info = zipfile.ZipInfo(name)
    info.file_size, info.compress_size = file_size, compress_size
    return info


class Bare:
    """Entry object without size attributes / without is_dir."""

    def __init__(self, filename, **kw):
        self.filename = filename
        self.__dict__.update(kw)


def verdict(call):
    try:
        call()
        return "accepted"
    except ExtractionZipBombError as exc:
        return f"ZipBomb: {exc} | cause={type(exc.__cause__).__name__}"
    except Exception as exc:  # noqa: BLE001
        return f"{type(exc).__name__}: {exc}"


def make_zip(members, compression=zipfile.ZIP_DEFLATED):
    buf = io.BytesIO()
    with zipfile.ZipFile(buf, "w", compression) as zf:
        for name, data in members:
            zf.writestr(zipfile.ZipInfo(name, (2020, 1, 1, 0, 0, 0)), data, compression)
    return buf.getvalue()


def forge_sizes(blob, name, file_size=None, compress_size=None):
    """Rewrite the sizes of one member in the central directory only."""
    raw = bytearray(blob)
    pos = raw.find(b"PK\x01\x02")
    while pos != -1:
        nlen = int.from_bytes(raw[pos + 28:pos + 30], "little")
        if bytes(raw[pos + 46:pos + 46 + nlen]) == name.encode():
            if compress_size is not None:
                raw[pos + 20:pos + 24] = compress_size.to_bytes(4, "little")
            if file_size is not None:
                raw[pos + 24:pos + 28] = file_size.to_bytes(4, "little")
        pos = raw.find(b"PK\x01\x02", pos + 4)
    return bytes(raw)

from sharepoint2text.parsing.extractors.ms_modern.xlsx_extractor import read_xlsx
from sharepoint2text.parsing.extractors.util.zip_bomb import _is_directory

GIB = 1024 ** 3
LIMITS = ZipBombLimits(max_entries=3, max_total_uncompressed_bytes=1000, max_single_uncompressed_bytes=600,
                       max_total_compression_ratio=20.0, max_entry_compression_ratio=50.0)

print("== directory test")
for obj in [
    zipfile.ZipInfo("a"), zipfile.ZipInfo("a/"), zipfile.ZipInfo("a/b/"), zipfile.ZipInfo("a\\"),
    Bare("x"), Bare("x/"), Bare(""), Bare("/"), Bare("x", is_dir=lambda: True), Bare("x/", is_dir=lambda: False),
    Bare("x/", is_dir=lambda: 0), Bare("x", is_dir=lambda: "yes"), Bare("x", is_dir=lambda: None),
    Bare("x/", is_dir=True), Bare("x", is_dir=True), Bare("x/", is_dir=None), Bare("x", is_dir=zipfile.ZipInfo("q/").is_dir),
]:
    desc = (type(obj).__name__, obj.filename, type(getattr(obj, "is_dir", "absent")).__name__)
    print(desc, "->", verdict(lambda: print("   value", repr(_is_directory(obj)))))

print("== directories are ignored by the predicate")
for combo in ([("d/", 5000, 0)], [("d/", 5000, 0), ("a", 600, 30)], [("d/", 0, 0)] * 4, [("d/", 1, 1), ("a", 601, 601)]):
    zf = FakeZip([entry(*e) for e in combo])
    print(combo, "->", verdict(lambda: validate_zipfile(zf, limits=LIMITS, source="dirs")))

print("== validate_zip_bytesio keeps the caller's position")
good = make_zip([("d/", b""), ("a.txt", b"hello " * 50), ("b.txt", b"x")])
bomb = make_zip([("a.txt", b"\x00" * 400000)])
dir_forged = forge_sizes(good, "d/", file_size=3 * GIB, compress_size=0)
CASES = [("good", good), ("bomb", bomb), ("forged dir entry", dir_forged),
         ("forged file", forge_sizes(good, "a.txt", file_size=2 * GIB)),
         ("zero compressed", forge_sizes(good, "b.txt", compress_size=0)),
         ("not a zip", b"plain bytes, no zip"), ("empty", b""), ("truncated", good[:-25])]
for label, blob in CASES:
    for start in (0, 1, 7, len(blob), len(blob) + 10):
        for limits, source in ((DEFAULT_ZIP_BOMB_LIMITS, None), (LIMITS, "lim")):
            stream = io.BytesIO(blob)
            stream.seek(start)
            out = verdict(lambda: validate_zip_bytesio(stream, limits=limits, source=source))
            print(label, "start", start, source, "->", out, "| pos", stream.tell())


class Recording(io.BytesIO):
    """Stream that notes every positioning call."""

    def __init__(self, data, fail_seek_to=None):
        super().__init__(data)
        self.calls, self.fail_seek_to = [], fail_seek_to

    def tell(self):
        self.calls.append("tell")
        return super().tell()

    def seek(self, pos, whence=0):
        self.calls.append(("seek", pos, whence))
        if self.fail_seek_to is not None and (pos, whence) == self.fail_seek_to and len(self.calls) > 3:
            raise OSError("cannot go back")
        return super().seek(pos, whence)


for label, blob in (("good", good), ("bomb", bomb), ("not a zip", b"nope")):
    rec = Recording(blob)
    rec.seek(2)
    out = verdict(lambda: validate_zip_bytesio(rec, source="rec"))
    print("recorded", label, "->", out, "| first calls", rec.calls[:3], "last call", rec.calls[-1], "pos", io.BytesIO.tell(rec))
    rec = Recording(blob, fail_seek_to=(2, 0))
    rec.seek(2)
    out = verdict(lambda: validate_zip_bytesio(rec, source="rec"))
    print("restore fails", label, "->", out, "| last call", rec.calls[-1])

closed = io.BytesIO(good)
closed.close()
print("closed stream ->", verdict(lambda: validate_zip_bytesio(closed)))
print("not a stream ->", verdict(lambda: validate_zip_bytesio(None)))

print("== read_xlsx validates before the workbook is loaded")
import openpyxl

wb = openpyxl.Workbook()
ws = wb.active
ws.title = "S1"
ws.append(["name", "value"])
ws.append(["a", 1])
buf = io.BytesIO()
wb.save(buf)
xlsx = buf.getvalue()


def add_member(blob, name, data):
    out = io.BytesIO(blob)
    with zipfile.ZipFile(out, "a", zipfile.ZIP_DEFLATED) as zf:
        zf.writestr(name, data)
    return out.getvalue()


for label, blob in (("plain", xlsx), ("with bomb member", add_member(xlsx, "xl/media/pad.bin", b"\x00" * 700000)),
                    ("forged size", forge_sizes(xlsx, "[Content_Types].xml", file_size=2 * GIB)), ("garbage", b"PK\x03\x04garbage")):
    for start in (0, 9):
        stream = io.BytesIO(blob)
        stream.seek(start)
        try:
            out = [(type(r).__name__, [s.name for s in r.sheets], r.get_full_text()[:30]) for r in read_xlsx(stream, "b.xlsx")]
        except Exception as exc:  # noqa: BLE001
            out = (type(exc).__name__, str(exc), type(exc.__cause__).__name__)
        print("read_xlsx", label, "start", start, "->", out)
