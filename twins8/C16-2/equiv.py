"""Differential script: mbox message boundaries (_split_mbox_messages, read_mbox_format_mail)."""
import hashlib
import io
import mailbox
import os
import sys
import tempfile
from email.message import EmailMessage

sys.path.insert(0, os.getcwd())

from sharepoint2text.parsing.extractors.mail import mbox_email_extractor as mb  # noqa: E402

SEP = b"From sender@example.com Mon Jan  1 00:00:00 2024\n"
SEP2 = b"From MAILER-DAEMON Tue Jan  2 03:04:05 2024\n"


def msg(n, body=b"body\n"):
    return (f"From: s{n}@example.com\nTo: r@example.com\nSubject: message {n}\nDate: Mon, 0{n % 9 + 1} Jan 2024 10:00:00 +0000\nMessage-ID: <{n}@x>\n\n").encode() + body


def stdlib_mbox(bodies):
    """An mbox written by mailbox.mbox (escapes From_ lines in bodies)."""
    fd, path = tempfile.mkstemp(suffix=".mbox")
    os.close(fd)
    try:
        box = mailbox.mbox(path)
        for i, body in enumerate(bodies):
            m = EmailMessage()
            m["From"] = f"s{i}@example.com"
            m["To"] = "r@example.com"
            m["Subject"] = f"stdlib {i}"
            m["Date"] = "Mon, 01 Jan 2024 10:00:00 +0000"
            m.set_content(body)
            box.add(mailbox.mboxMessage(m))
        box.flush()
        box.close()
        with open(path, "rb") as fh:
            data = fh.read()
    finally:
        os.remove(path)
    # the separator line written by the library carries the current time
    lines = data.split(b"\n")
    lines = [SEP2[:-1] if ln.startswith(b"From MAILER-DAEMON ") else ln for ln in lines]
    return b"\n".join(lines)


def build_cases():
    c = {}
    c["empty"] = b""
    c["only_newlines"] = b"\n\n\n"
    c["no_separator"] = msg(1)
    c["one"] = SEP + msg(1)
    c["one_no_trailing_newline"] = SEP + msg(1, b"body")
    c["two"] = SEP + msg(1) + b"\n" + SEP2 + msg(2)
    c["three_no_blank_between"] = SEP + msg(1) + SEP + msg(2) + SEP + msg(3)
    c["many_blank_lines_between"] = SEP + msg(1) + b"\n\n\n\n" + SEP + msg(2) + b"\n\n\n"
    c["junk_before_first"] = b"this is junk\nmore junk\n" + SEP + msg(1)
    c["consecutive_separators"] = SEP + SEP2 + SEP + msg(1) + SEP + SEP
    c["separator_only"] = SEP
    c["separator_at_eof_without_newline"] = SEP + msg(1) + b"\n" + SEP[:-1]
    c["escaped_from_in_body"] = SEP + msg(1, b"line\n>From here it is escaped 2024\n>>From twice\nend\n") + b"\n" + SEP + msg(2)
    c["unescaped_from_line_with_year"] = SEP + msg(1, b"intro\nFrom what I saw in 2024\nrest of body\n") + b"\n" + SEP + msg(2)
    c["from_line_without_year"] = SEP + msg(1, b"intro\nFrom what I saw yesterday\nFrom: not a separator 2024\nrest\n")
    c["from_mid_line"] = SEP + msg(1, b"he said From x@y Mon Jan 1 2024\n")
    c["from_no_space_after_address"] = SEP + msg(1, b"From address2024\nFrom  two spaces 2024\nFrom\ttab 2024\n")
    c["from_with_tab_after_address"] = SEP + msg(1, b"From a@b\tMon Jan 1 00:00:00 2024\nafter\n")
    c["year_not_at_end"] = SEP + msg(1, b"From a@b 2024 and more\nFrom a@b 12345\nFrom a@b 123\n")
    c["crlf"] = (SEP + msg(1) + b"\n" + SEP2 + msg(2, b"b2\n\n")).replace(b"\n", b"\r\n")
    c["mixed_line_ends"] = SEP.replace(b"\n", b"\r\n") + msg(1) + b"\r\n\n\r\n" + SEP + msg(2).replace(b"\n", b"\r\n")
    c["cr_only"] = (SEP + msg(1)).replace(b"\n", b"\r")
    c["lowercase_from"] = b"from sender@example.com Mon Jan  1 00:00:00 2024\n" + msg(1)
    c["leading_space"] = b" " + SEP + msg(1)
    c["bom_first"] = b"\xef\xbb\xbf" + SEP + msg(1) + SEP + msg(2)
    c["long_unbroken_line"] = SEP + msg(1, b"From " + b"x" * 20000 + b"\n") + SEP + msg(2)
    c["message_of_blank_lines"] = SEP + b"\n\r\n\n" + SEP + msg(2)
    c["body_keeps_inner_blank_lines"] = SEP + msg(1, b"a\n\n\nb\n\n")
    c["non_ascii_separator"] = "From jörg@example.com Mon Jan  1 00:00:00 2024\n".encode("utf-8") + msg(1) + "From x 日本 2024\n".encode("utf-8") + msg(2)
    c["stdlib_written"] = stdlib_mbox(["first body\n", "second\nFrom the body, a From_ line 2024\nmore\n", "third ü\n"])
    c["stdlib_written_crlf"] = c["stdlib_written"].replace(b"\n", b"\r\n")
    return c


def main():
    out = []
    for name, data in build_cases().items():
        try:
            parts = mb._split_mbox_messages(data)
            out.append(("split", name, len(parts), [hashlib.sha256(p).hexdigest()[:10] for p in parts], [p[:30] for p in parts], [p[-12:] for p in parts]))
        except Exception as e:  # noqa: BLE001
            out.append(("split", name, "EXC", type(e).__name__, str(e)))
        try:
            results = list(mb.read_mbox_format_mail(io.BytesIO(data), path="dir/box.mbox"))
            out.append(("read", name, [(r.subject, r.from_email.address, r.metadata.date, r.metadata.message_id, r.body_plain, r.metadata.filename) for r in results]))
        except Exception as e:  # noqa: BLE001
            out.append(("read", name, "EXC", type(e).__name__, str(e)))
    text = "\n".join(repr(o) for o in out)
    print(text)
    print("sha256", hashlib.sha256(text.encode("utf-8", "backslashreplace")).hexdigest())


if __name__ == "__main__":
    main()
