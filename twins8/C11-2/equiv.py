import io, os, re, sys, logging, tempfile, shutil

sys.path.insert(0, os.getcwd())


class _Capture(logging.Handler):
    def __init__(self):
        super().__init__(level=logging.WARNING)
        self.lines = []

    def emit(self, record):
        self.lines.append(f"{record.levelname}:{record.name}:{record.getMessage()}")


CAPTURE = _Capture()
_root_logger = logging.getLogger()
_root_logger.handlers[:] = [CAPTURE]
_root_logger.setLevel(logging.WARNING)


def drain_log():
    out, CAPTURE.lines = CAPTURE.lines, []
    return out

import itertools
import zipfile

from sharepoint2text.parsing.exceptions import ExtractionZipBombError
from sharepoint2text.parsing.extractors.util.zip_bomb import (
    DEFAULT_ZIP_BOMB_LIMITS,
    ZipBombLimits,
    open_zipfile,
    validate_zip_bytesio,
    validate_zipfile,
)


class FakeZip:
    def __init__(self, infos, fail=None):
        self._infos, self._fail = infos, fail

    def infolist(self):
        if self._fail is not None:
            raise self._fail
        return self._infos


def entry(name, file_size, compress_size):
    info = zipfile.ZipInfo(name)
    info.file_size, info.compress_size = file_size, compress_size
    return info


class Bare:
    """Entry object without size attributes / without is_dir."""

    def __init__(self, filename, **kw):
        self.filename = filename
        self.__dict__.update(kw)


def verdict(call):
    try:
        call()
        return "accepted"
    except ExtractionZipBombError as exc:
        return f"ZipBomb: {exc} | cause={type(exc.__cause__).__name__}"
    except Exception as exc:  # noqa: BLE001
        return f"{type(exc).__name__}: {exc}"


def make_zip(members, compression=zipfile.ZIP_DEFLATED):
    buf = io.BytesIO()
    with zipfile.ZipFile(buf, "w", compression) as zf:
        for name, data in members:
            zf.writestr(zipfile.ZipInfo(name, (2020, 1, 1, 0, 0, 0)), data, compression)
    return buf.getvalue()


def forge_sizes(blob, name, file_size=None, compress_size=None):
    """Rewrite the sizes of one member in the central directory only."""
    raw = bytearray(blob)
    pos = raw.find(b"PK\x01\x02")
    while pos != -1:
        nlen = int.from_bytes(raw[pos + 28:pos + 30], "little")
        if bytes(raw[pos + 46:pos + 46 + nlen]) == name.encode():
            if compress_size is not None:
                raw[pos + 20:pos + 24] = compress_size.to_bytes(4, "little")
            if file_size is not None:
                raw[pos + 24:pos + 28] = file_size.to_bytes(4, "little")
        pos = raw.find(b"PK\x01\x02", pos + 4)
    return bytes(raw)

from sharepoint2text.parsing.extractors.open_office.odt_extractor import read_odt
from sharepoint2text.parsing.extractors.util.encryption import is_odf_encrypted

MANIFEST_HEAD = '<?xml version="1.0"?><manifest:manifest xmlns:manifest="urn:oasis:names:tc:opendocument:xmlns:manifest:1.0">'
PLAIN = MANIFEST_HEAD + '<manifest:file-entry manifest:full-path="/" manifest:media-type="application/vnd.oasis.opendocument.text"/></manifest:manifest>'
CONTENT = ('<?xml version="1.0"?><office:document-content xmlns:office="urn:oasis:names:tc:opendocument:xmlns:office:1.0" '
           'xmlns:text="urn:oasis:names:tc:opendocument:xmlns:text:1.0"><office:body><office:text><text:p>hello</text:p>'
           '</office:text></office:body></office:document-content>')


def odf(manifest, extra=()):
    members = [("mimetype", b"application/vnd.oasis.opendocument.text"), ("content.xml", CONTENT.encode())]
    if manifest is not None:
        members.append(("META-INF/manifest.xml", manifest if isinstance(manifest, bytes) else manifest.encode()))
    return make_zip(members + list(extra), zipfile.ZIP_DEFLATED)


def crc_damaged(blob):
    raw = bytearray(blob)
    pos = raw.find(b"PK\x01\x02")
    while pos != -1:
        nlen = int.from_bytes(raw[pos + 28:pos + 30], "little")
        if bytes(raw[pos + 46:pos + 46 + nlen]) == b"META-INF/manifest.xml":
            raw[pos + 16] ^= 0xFF
        pos = raw.find(b"PK\x01\x02", pos + 4)
    return bytes(raw)


GIB = 1024 ** 3
CASES = [
    ("plain manifest", odf(PLAIN)),
    ("encryption-data", odf(PLAIN.replace("/>", "><manifest:encryption-data/></manifest:file-entry>", 1))),
    ("manifest:encrypted only", odf(MANIFEST_HEAD + "<x manifest:encrypted='1'/></manifest:manifest>")),
    ("manifest:algorithm only", odf(MANIFEST_HEAD + "<manifest:algorithm manifest:algorithm-name='x'/></manifest:manifest>")),
    ("all three", odf(MANIFEST_HEAD + "encryption-data manifest:encrypted manifest:algorithm</manifest:manifest>")),
    ("marker in upper case", odf(MANIFEST_HEAD + "ENCRYPTION-DATA MANIFEST:ENCRYPTED</manifest:manifest>")),
    ("marker split by invalid utf-8", odf(b"encryption-\xff\xfedata manifest:\xffencrypted")),
    ("marker next to invalid utf-8", odf(b"\xff\xfe\xfdmanifest:algorithm\xff")),
    ("utf-16 manifest", odf("encryption-data".encode("utf-16"))),
    ("empty manifest", odf(b"")),
    ("no manifest", odf(None)),
    ("manifest in wrong case", odf(None, [("meta-inf/manifest.xml", b"encryption-data")])),
    ("manifest is a directory entry only", odf(None, [("META-INF/manifest.xml/", b"")])),
    ("not a zip", b"hello world, not a zip"),
    ("empty", b""),
    ("empty zip", make_zip([])),
    ("zip with prefix junk", b"#!junk\n" + odf(PLAIN.replace("/>", "> encryption-data </manifest:file-entry>", 1))),
    ("bomb ratio", odf(PLAIN, [("pad.bin", b"\x00" * 600000)])),
    ("bomb ratio, encrypted", odf("encryption-data", [("pad.bin", b"\x00" * 600000)])),
    ("forged huge member", forge_sizes(odf("encryption-data"), "content.xml", file_size=2 * GIB)),
    ("forged zero compressed", forge_sizes(odf("encryption-data"), "content.xml", compress_size=0)),
    ("manifest crc damaged", crc_damaged(odf("encryption-data"))),
    ("truncated", odf(PLAIN)[:-30]),
]

for label, blob in CASES:
    for start in (0, 5):
        stream = io.BytesIO(blob)
        stream.seek(min(start, len(blob)))
        print(label, "start", start, "->", verdict(lambda: print("   value", is_odf_encrypted(stream))), "pos", stream.tell())
    try:
        out = [(type(r).__name__, r.get_full_text()) for r in read_odt(io.BytesIO(blob), "x.odt")]
    except Exception as exc:  # noqa: BLE001
        out = (type(exc).__name__, str(exc), type(exc.__cause__).__name__)
    print("   read_odt ->", out)
    for line in drain_log():
        print("   log", line)
