import io
import os
import shutil
import sys
from pathlib import Path, PurePosixPath

sys.path.insert(0, os.getcwd())

from sharepoint2text.parsing.extractors.data_types import (  # noqa: E402
    DocxMetadata,
    FileMetadataInterface,
    OpenDocumentMetadata,
)
from sharepoint2text.parsing.extractors.plain_extractor import read_plain_text  # noqa: E402

CWD = os.getcwd()
WORK = "/tmp/equiv_c04_2_work"
shutil.rmtree(WORK, ignore_errors=True)
os.makedirs(os.path.join(WORK, "real dir", "sub"))
with open(os.path.join(WORK, "real dir", "file.txt"), "w") as fh:
    fh.write("x")
with open(os.path.join(WORK, "real dir", "sub", "dätei.tar.gz"), "w") as fh:
    fh.write("x")
os.symlink(os.path.join(WORK, "real dir"), os.path.join(WORK, "link"))
os.symlink(os.path.join(WORK, "real dir", "file.txt"), os.path.join(WORK, "flink.txt"))
os.symlink(os.path.join(WORK, "nowhere"), os.path.join(WORK, "dangling.txt"))


def norm(value):
    if isinstance(value, str):
        return value.replace(CWD, "<CWD>")
    return value


PATHS = [
    None,
    "",
    ".",
    "/",
    "file.txt",
    "no_such_dir/file.docx",
    "./a/../b/c.PDF",
    "noext",
    ".hidden",
    "two.dots.tar.gz",
    "trailing/slash/",
    "/abs/missing/doc.odt",
    "/tmp",
    "/tmp/",
    WORK + "/real dir/file.txt",
    WORK + "/real dir/sub/dätei.tar.gz",
    WORK + "/real dir/sub/../file.txt",
    WORK + "/real dir/missing.txt",
    WORK + "/link/file.txt",
    WORK + "/link/sub/missing.md",
    WORK + "/flink.txt",
    WORK + "/dangling.txt",
    WORK + "/real dir",
    "archive.zip!/inner/member.txt",
    "/abs/archive.zip!/member.txt",
    "archive.zip!/member",
    "a!/b!/c.txt",
    "C:\\windows\\style\\path.doc",
    "ünï/çödé/文件.xlsx",
    "name with spaces .txt ",
    "a//b///c.txt",
    "sharepoint2text/__init__.py",
    "sharepoint2text",
    Path("rel/obj.txt"),
    Path(WORK) / "real dir" / "file.txt",
    PurePosixPath("pure/posix.eml"),
    "x\x00y.txt",
    "a" * 300 + ".txt",
]
BAD = [123, b"bytes/path.txt", 1.5, ["list"]]


def fields(md):
    return tuple(norm(v) for v in (md.filename, md.file_extension, md.file_path, md.folder_path))


for cls in (FileMetadataInterface, DocxMetadata, OpenDocumentMetadata):
    for path in PATHS + BAD:
        for kwargs in ({}, {"resolve": True}, {"resolve": False}):
            md = cls()
            try:
                ret = md.populate_from_path(path, **kwargs)
                print(cls.__name__, repr(norm(str(path)) if path is not None else None), kwargs, "->", ret, fields(md))
            except Exception as exc:  # noqa: BLE001
                print(cls.__name__, repr(path), kwargs, "EXC", type(exc).__name__, fields(md))

# second call overwrites / None keeps
md = FileMetadataInterface()
md.populate_from_path("first/one.txt")
md.populate_from_path(None)
print("after None", fields(md))
md.populate_from_path("z.zip!/second/two.md", resolve=False)
print("after second", fields(md))
md.populate_from_path(WORK + "/link/file.txt")
print("after third", fields(md))
print("dict keys", sorted(md.to_dict()))
print("public attrs", sorted(a for a in dir(FileMetadataInterface) if not a.startswith("_")))

for path in (None, "rel/t.txt", WORK + "/real dir/file.txt", "arch.zip!/t.txt"):
    for res in read_plain_text(io.BytesIO(b"hello"), path):
        print("plain", repr(path), fields(res.get_metadata()))

shutil.rmtree(WORK, ignore_errors=True)
