"""Differential script for the router (C07).

Evaluates is_supported_file / get_extractor / _file_type_from_extension on a
generated set of path strings under three mimetypes configurations and prints
per configuration a digest plus the full decision table of a readable sample.
Also records WARNING+ log records of the router.
"""
import hashlib
import itertools
import logging
import mimetypes
import os
import sys

sys.path.insert(0, os.getcwd())

from sharepoint2text.parsing import router  # noqa: E402
from sharepoint2text.parsing.extractors import archive_extractor  # noqa: E402
from sharepoint2text.parsing.mime_types import MIME_TYPE_MAPPING  # noqa: E402


class Capture(logging.Handler):
    def __init__(self):
        super().__init__(level=logging.WARNING)
        self.lines = []

    def emit(self, record):
        self.lines.append("%s:%s" % (record.levelname, record.getMessage()))


capture = Capture()
logging.getLogger("sharepoint2text").addHandler(capture)
logging.getLogger("sharepoint2text").setLevel(logging.DEBUG)


def extensions():
    exts = set(router._EXTRACTOR_REGISTRY) | set(router._EXTENSION_ALIASES)
    exts |= {e.lstrip(".") for e in router._COMPOUND_EXTENSIONS}
    exts |= {e.lstrip(".") for e in mimetypes.types_map}  # host database
    exts |= {"", "unknownext", "tar", "gz", "tar.gz", "tar.bz2", "tar.xz", "tar.zst", "7z", "d0cx", "docx ", " docx",
             "docx.bak", "DOCX", "Tar.Gz", "xyz", "hostile", "pdf.exe", "eml", "mbox", "msg", "jpeg", "png", "svg",
             "\u0130", "do\u0131x", "docx\n", "c", "h", "py", "json", "csv", "tsv", "md", "xml", "htm", "html", "txt",
             "rtf", "epub", "odt", "fodt", "zip", "tgz", "tbz2", "txz", "rar", "mht", "mhtml", "xlsb", "one"}
    return sorted(exts)


STEMS = [
    "report",
    "dir.v2/report",
    "dir.tar.gz/report",
    "C:\\Users\\me\\report",
    "https://host/site/Shared%20Documents/report",
    "my report final",
    ".hidden",
    "",
    "archive.tar",
    "a.b.c",
    "trailing.",
    "x/.tar.gz",
]


def variants(ext):
    yield ext
    if ext.upper() != ext:
        yield ext.upper()
    if ext.title() != ext:
        yield ext.title()


def paths():
    seen = set()
    for ext in extensions():
        for stem in STEMS:
            for v in variants(ext):
                for form in ("%s.%s" % (stem, v), "%s.%s?x=1" % (stem, v), "%s.%s/" % (stem, v), "%s%s" % (stem, v)):
                    if form not in seen:
                        seen.add(form)
                        yield form
    for extra in ["", ".", "..", "/", "a.", ".docx", ".tar.gz", "tar.gz", "x.tar.gz.docx", "x.docx.tar.gz", "x.TAR.GZ",
                  "x.tar.bz2", "x.tar.xz", "x.gz", "x.bz2", "x.xz", "x.tar", "noext", "dir.docx/noext", "x.docx#frag",
                  "x.pdf ", " x.pdf", "x..pdf", "x.p.d.f", "x.PdF", "\u0130.DOCX", "x.DO\u0130X"]:
        if extra not in seen:
            seen.add(extra)
            yield extra


def decide(path):
    try:
        supported = router.is_supported_file(path)
    except Exception as exc:  # noqa: BLE001
        supported = "EXC:" + type(exc).__name__
    try:
        fn = router.get_extractor(path)
        got = "%s.%s" % (fn.__module__.rsplit(".", 1)[-1], fn.__name__)
    except Exception as exc:  # noqa: BLE001
        got = "EXC:%s:%s" % (type(exc).__name__, exc)
    try:
        from_ext = router._file_type_from_extension(path.lower())
    except Exception as exc:  # noqa: BLE001
        from_ext = "EXC:" + type(exc).__name__
    return supported, got, from_ext


def internal_types():
    out = []
    for ft in sorted(set(router._EXTRACTOR_REGISTRY) | set(MIME_TYPE_MAPPING.values()) | {"", "nope", "DOCX", "tar.gz"}):
        try:
            fn = router._get_extractor(ft)
            out.append((ft, fn.__module__.rsplit(".", 1)[-1], fn.__name__))
        except Exception as exc:  # noqa: BLE001
            out.append((ft, type(exc).__name__, str(exc)))
    return out


def configure(mode):
    mimetypes.init()
    if mode == "empty":
        mimetypes.init(files=[])
        for table in (mimetypes.types_map, mimetypes.common_types, mimetypes.encodings_map, mimetypes.suffix_map):
            table.clear()
        db = mimetypes._db
        for pair in (db.types_map, db.types_map_inv):
            for table in pair:
                table.clear()
        db.encodings_map.clear()
        db.suffix_map.clear()
    elif mode == "hostile":
        mimetypes.add_type("application/pdf", ".xyz")
        mimetypes.add_type("application/pdf", ".hostile")
        mimetypes.add_type("text/plain", ".docx")
        mimetypes.add_type("application/x-nothing", ".pdf")
        mimetypes.add_type("application/zip", ".unknownext")
        mimetypes.add_type("", ".one")
        mimetypes.add_type("application/vnd.ms-excel", ".d0cx")
        mimetypes.suffix_map[".docx"] = ".txt"
        mimetypes.encodings_map[".rtf"] = "gzip"


SAMPLE_EVERY = 97

ALL = list(paths())
print("paths", len(ALL))
print("internal", hashlib.sha256(repr(internal_types()).encode()).hexdigest()[:16])
for line in internal_types()[:60]:
    print("  type", line)

for mode in ("default", "empty", "hostile"):
    configure(mode)
    capture.lines.clear()
    rows = []
    agree = 0
    for p in ALL:
        d = decide(p)
        rows.append((p, d))
        if (d[0] is True) == (not d[1].startswith("EXC:")):
            agree += 1
    digest = hashlib.sha256(repr(rows).encode()).hexdigest()
    print("== mode", mode, "digest", digest, "agree", agree, "of", len(rows))
    print("   warnings", len(capture.lines), hashlib.sha256("\n".join(capture.lines).encode()).hexdigest()[:16])
    for line in capture.lines[:5]:
        print("   log", line)
    for i, (p, d) in enumerate(rows):
        if i % SAMPLE_EVERY == 0 or len(p) < 3:
            print("  ", repr(p), d)
    # archive member filter and cached dispatch reuse the router
    names = ["a.docx", "dir/a.PDF", ".hidden.docx", "__MACOSX/a.docx", "x.zip", "x.tar.gz", "x.xyz", "x.hostile", "noext", "x.eml", "x.7z", "y.txt"]
    for n in names:
        base = n.rsplit("/", 1)[-1]
        try:
            skip = archive_extractor._should_skip_file(n, base)
        except Exception as exc:  # noqa: BLE001
            skip = "EXC:" + type(exc).__name__
        try:
            fn = archive_extractor._get_file_extractor_cached(base)
            got = fn.__name__
        except Exception as exc:  # noqa: BLE001
            got = "EXC:" + type(exc).__name__
        print("   archive", n, skip, got)
