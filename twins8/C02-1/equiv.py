import io
import os
import sys
import zipfile
from xml.etree import ElementTree as ET

sys.path.insert(0, os.getcwd())

from sharepoint2text.parsing.extractors.ms_modern import docx_extractor as dx  # noqa: E402

W = "http://schemas.openxmlformats.org/wordprocessingml/2006/main"
M = "http://schemas.openxmlformats.org/officeDocument/2006/math"
HEAD = (
    '<?xml version="1.0" encoding="UTF-8" standalone="yes"?>'
    f'<w:document xmlns:w="{W}" xmlns:m="{M}" '
    'xmlns:mc="http://schemas.openxmlformats.org/markup-compatibility/2006"><w:body>'
)
TAIL = "</w:body></w:document>"


def p(*texts):
    return "<w:p>" + "".join(f"<w:r><w:t>{t}</w:t></w:r>" for t in texts) + "</w:p>"


def tc(*blocks):
    return "<w:tc>" + "".join(blocks) + "</w:tc>"


def tr(*cells):
    return "<w:tr>" + "".join(cells) + "</w:tr>"


def tbl(*rows):
    return "<w:tbl>" + "".join(rows) + "</w:tbl>"


def sdt(inner):
    return f"<w:sdt><w:sdtContent>{inner}</w:sdtContent></w:sdt>"


MATH = "<w:p><m:oMath><m:r><m:t>x</m:t></m:r></m:oMath></w:p>"
TABBED = "<w:p><w:r><w:t>a</w:t><w:tab/><w:t>b</w:t><w:br/><w:t>c</w:t></w:r></w:p>"

BODIES = {
    "simple": tbl(tr(tc(p("A1")), tc(p("B1"))), tr(tc(p("A2")), tc(p("B2")))),
    "multi_par_cell": tbl(tr(tc(p("one"), p("two"), p("   "), p("three")), tc(p()))),
    "empty_cells": tbl(tr(tc(), tc(p("")), tc(p(" ")))),
    "nested": tbl(tr(tc(p("outer-before"), tbl(tr(tc(p("in1")), tc(p("in2"))), tr(tc(p("in3")))), p("outer-after")), tc(p("side")))),
    "nested_only": tbl(tr(tc(tbl(tr(tc(tbl(tr(tc(p("deep")))))))))),
    "nested_empty": tbl(tr(tc(tbl(tr(tc(p(" ")))), p("x")))),
    "sdt_row": tbl(sdt(tr(tc(p("sdt-row-cell")))), tr(sdt(tc(p("sdt-cell"))), tc(sdt(p("sdt-par")), sdt(tbl(tr(tc(p("sdt-tbl")))))))),
    "math_cell": tbl(tr(tc(MATH, p("after math")), tc(TABBED))),
    "mixed_body": p("before") + tbl(tr(tc(p("c1")), tc(p("c2"), tbl(tr(tc(p("n1"))))))) + p("between") + sdt(tbl(tr(tc(p("w1"))))) + p("after"),
    "no_rows": tbl(),
    "row_no_cells": tbl(tr(), tr(tc(p("only")))),
    "dup_text": tbl(tr(tc(p("same")), tc(p("same"))), tr(tc(p("same"), p("same")))),
}


def make_docx(body_xml):
    buf = io.BytesIO()
    with zipfile.ZipFile(buf, "w") as zf:
        zf.writestr(
            "[Content_Types].xml",
            '<?xml version="1.0"?><Types xmlns="http://schemas.openxmlformats.org/package/2006/content-types">'
            '<Default Extension="xml" ContentType="application/xml"/>'
            '<Override PartName="/word/document.xml" ContentType="application/vnd.openxmlformats-officedocument.wordprocessingml.document.main+xml"/></Types>',
        )
        zf.writestr(
            "_rels/.rels",
            '<?xml version="1.0"?><Relationships xmlns="http://schemas.openxmlformats.org/package/2006/relationships">'
            '<Relationship Id="rId1" Type="http://schemas.openxmlformats.org/officeDocument/2006/relationships/officeDocument" Target="word/document.xml"/></Relationships>',
        )
        zf.writestr("word/document.xml", HEAD + body_xml + TAIL)
    buf.seek(0)
    return buf


for name, body_xml in BODIES.items():
    print("==", name)
    root = ET.fromstring(HEAD + body_xml + TAIL)
    body = root.find(f"{{{W}}}body")
    for formulas in (True, False):
        for table in body.iter(f"{{{W}}}tbl"):
            try:
                print("  table", formulas, repr(dx._extract_table_text(table, formulas)))
            except Exception as exc:  # noqa: BLE001
                print("  table", formulas, "EXC", type(exc).__name__, exc)
        print("  body", formulas, repr(dx._extract_full_text_from_body(body, formulas)))
    try:
        for res in dx.read_docx(make_docx(body_xml), "x/test.docx"):
            print("  full_text", repr(res.get_full_text()))
            print("  tables", repr([t.get_table() for t in res.iterate_tables()]))
            print("  units", repr([u.get_text() for u in res.iterate_units()]))
    except Exception as exc:  # noqa: BLE001
        print("  read_docx EXC", type(exc).__name__, exc)
