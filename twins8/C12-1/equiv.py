import io, os, re, sys, logging, tempfile, shutil

sys.path.insert(0, os.getcwd())


class _Capture(logging.Handler):
    def __init__(self):
        super().__init__(level=logging.WARNING)
        self.lines = []

    def emit(self, record):
        self.lines.append(f"{record.levelname}:{record.name}:{record.getMessage()}")


CAPTURE = _Capture()
_root_logger = logging.getLogger()
_root_logger.handlers[:] = [CAPTURE]
_root_logger.setLevel(logging.WARNING)


def drain_log():
    out, CAPTURE.lines = CAPTURE.lines, []
    return out

# ---- minimal independent 7z writer (in memory) ------------------------------
import lzma as _lzma, struct as _struct, zlib as _zlib


def _num(v):
    for extra in range(8):
        if v < (1 << (8 * extra + 7 - extra)):
            first = ((0xFF << (8 - extra)) & 0xFF) | (v >> (8 * extra))
            return bytes([first]) + (v & ((1 << (8 * extra)) - 1)).to_bytes(extra, "little")
    return b"\xff" + v.to_bytes(8, "little")


def _bits(flags):
    out = bytearray()
    cur, mask = 0, 0x80
    for f in flags:
        if f:
            cur |= mask
        mask >>= 1
        if mask == 0:
            out.append(cur)
            cur, mask = 0, 0x80
    if mask != 0x80:
        out.append(cur)
    return bytes(out)


def _pack(method, data):
    if method == "copy":
        return data, b"\x01\x00"
    if method == "lzma":
        raw = _lzma.compress(data, format=_lzma.FORMAT_ALONE,
                             filters=[{"id": _lzma.FILTER_LZMA1, "preset": 6}])
        return raw[13:], b"\x23\x03\x01\x01" + _num(5) + raw[:5]
    if method == "lzma2":
        raw = _lzma.compress(data, format=_lzma.FORMAT_RAW,
                             filters=[{"id": _lzma.FILTER_LZMA2, "dict_size": 1 << 20}])
        return raw, b"\x21\x21" + _num(1) + bytes([18])
    raise ValueError(method)


def make_7z(entries, method="copy", solid=True, tamper=None, attrs=None, attr_ext=True,
            substreams=True, counts=None):
    """entries: list of (name, data) ; data None = directory, b'' = empty file.

    solid: True = one folder, False = one folder per file, n = folders of n files."""
    with_data = [(n, d) for n, d in entries if d]
    chunk = (len(with_data) or 1) if solid is True else (1 if solid is False else solid)
    groups = [with_data[i:i + chunk] for i in range(0, len(with_data), chunk)]
    packed, folders, unpack = [], [], []
    for g in groups:
        blob = b"".join(d for _, d in g)
        p, coder = _pack(method, blob)
        packed.append(p)
        folders.append(b"\x01" + coder)
        unpack.append(len(blob))
    if tamper:
        packed = tamper(packed)
    h = bytearray(b"\x01")
    if groups:
        h += b"\x04"
        h += b"\x06" + _num(0) + _num(len(packed)) + b"\x09" + b"".join(_num(len(p)) for p in packed) + b"\x00"
        h += b"\x07\x0b" + _num(len(folders)) + b"\x00" + b"".join(folders)
        h += b"\x0c" + b"".join(_num(u) for u in unpack) + b"\x00"
        if substreams:
            h += b"\x08\x0d" + b"".join(_num(c) for c in (counts or [len(g) for g in groups]))
            if counts:
                flat = [len(d) for _, d in with_data] + [1] * sum(counts)
                sizes = b"".join(_num(flat.pop(0)) for c in counts for _ in range(max(c - 1, 0)))
            else:
                sizes = b"".join(_num(len(d)) for g in groups for _, d in g[:-1])
            if sizes:
                h += b"\x09" + sizes
            h += b"\x00"
        h += b"\x00"
    h += b"\x05" + _num(len(entries))
    empty_stream = [not d for _, d in entries]
    if any(empty_stream):
        v = _bits(empty_stream)
        h += b"\x0e" + _num(len(v)) + v
        ef = _bits([d is not None for _, d in entries if not d])
        h += b"\x0f" + _num(len(ef)) + ef
    names = b"\x00" + b"".join(n.encode("utf-16-le") + b"\x00\x00" for n, _ in entries)
    h += b"\x11" + _num(len(names)) + names
    if attrs is not None:
        a = b"\x01" + (b"\x00" if attr_ext else b"") + b"".join(_struct.pack("<I", x) for x in attrs)
        h += b"\x15" + _num(len(a)) + a
    h += b"\x00\x00"
    body = b"".join(packed)
    start = _struct.pack("<QQI", len(body), len(h), _zlib.crc32(bytes(h)) & 0xFFFFFFFF)
    return (b"7z\xbc\xaf\x27\x1c\x00\x04" + _struct.pack("<I", _zlib.crc32(start) & 0xFFFFFFFF)
            + start + body + bytes(h))
# -----------------------------------------------------------------------------
import hashlib
import lzma

from sharepoint2text.parsing.extractors.archive_extractor import read_archive
from sharepoint2text.parsing.extractors.util.sevenzip import SevenZipReader

ROOT = tempfile.mkdtemp(prefix="c12eq")
tempfile.tempdir = ROOT

reader = SevenZipReader(io.BytesIO(make_7z([("a.txt", b"seed")], "copy", True)))


def digest(value):
    if isinstance(value, (bytes, bytearray)):
        return ("bytes", len(value), hashlib.sha1(value).hexdigest()[:10], bytes(value[:12]))
    return value


def attempt(label, call):
    try:
        out = digest(call())
    except Exception as exc:  # noqa: BLE001
        out = (type(exc).__name__, str(exc), type(exc.__cause__).__name__)
    print(label, "->", out)


PLAIN = (b"The quick brown fox jumps over the lazy dog. " * 200)
ZEROS = b"\x00" * (8 * 1024 * 1024)


def alone(data):
    raw = lzma.compress(data, format=lzma.FORMAT_ALONE, filters=[{"id": lzma.FILTER_LZMA1, "preset": 6}])
    return raw[:5], raw[13:]


def raw2(data, dict_size=1 << 20):
    return lzma.compress(data, format=lzma.FORMAT_RAW, filters=[{"id": lzma.FILTER_LZMA2, "dict_size": dict_size}])


print("== LZMA")
props, packed = alone(PLAIN)
zprops, zpacked = alone(ZEROS)
for sizes in ([], [len(PLAIN)], [0, len(PLAIN)], [len(PLAIN) - 1], [10], [0], [len(PLAIN) + 1], [len(PLAIN) * 2], [-1], [-7]):
    attempt(f"lzma sizes={sizes}", lambda: reader._decompress_lzma(packed, props, sizes))
for bad_props in (None, b"", b"\x5d\x00\x00", props + b"extra", b"\xff\xff\xff\xff\xff", b"\x5d\x00\x00\x00\x00"):
    attempt(f"lzma props={bad_props!r}", lambda: reader._decompress_lzma(packed, bad_props, [len(PLAIN)]))
attempt("lzma corrupt", lambda: reader._decompress_lzma(b"\xff" * 64, props, [100]))
attempt("lzma corrupt, size unknown", lambda: reader._decompress_lzma(b"\xff" * 64, props, []))
attempt("lzma truncated input", lambda: reader._decompress_lzma(packed[: len(packed) // 2], props, [len(PLAIN)]))
attempt("lzma empty input", lambda: reader._decompress_lzma(b"", props, [5]))
attempt("lzma trailing garbage", lambda: reader._decompress_lzma(packed + b"tail", props, [len(PLAIN)]))
attempt("lzma bomb, small declared size", lambda: reader._decompress_lzma(zpacked, zprops, [1000]))
attempt("lzma bomb, honest size", lambda: reader._decompress_lzma(zpacked, zprops, [len(ZEROS)]))
print("   packed bomb bytes", len(zpacked))

print("== LZMA2")
packed2 = raw2(PLAIN)
zpacked2 = raw2(ZEROS)
for sizes in (None, [], [len(PLAIN)], [3, len(PLAIN)], [len(PLAIN) - 1], [10], [0], [len(PLAIN) + 1], [-1], [-7]):
    attempt(f"lzma2 sizes={sizes}", lambda: reader._decompress_lzma2(packed2, bytes([18]), sizes))
attempt("lzma2 default sizes argument", lambda: reader._decompress_lzma2(packed2, bytes([18])))
for prop in (None, b"", b"\x00", b"\x01", b"\x02", b"\x10", b"\x12", b"\x12\x99", b"\x26", b"\x27", b"\x28", b"\x29", b"\xff"):
    attempt(f"lzma2 props={prop!r}", lambda: reader._decompress_lzma2(packed2, prop, [len(PLAIN)]))
attempt("lzma2 big dictionary data, tiny declared dictionary",
        lambda: reader._decompress_lzma2(raw2(bytes(range(256)) * 4096, 1 << 20), b"\x00", [1 << 20]))
attempt("lzma2 corrupt", lambda: reader._decompress_lzma2(b"\xff" * 64, b"\x12", [100]))
attempt("lzma2 truncated input", lambda: reader._decompress_lzma2(packed2[: len(packed2) // 2], b"\x12", [len(PLAIN)]))
attempt("lzma2 empty input", lambda: reader._decompress_lzma2(b"", b"\x12", [5]))
attempt("lzma2 trailing garbage", lambda: reader._decompress_lzma2(packed2 + b"tail", b"\x12", [len(PLAIN)]))
attempt("lzma2 bomb, small declared size", lambda: reader._decompress_lzma2(zpacked2, b"\x12", [1000]))
attempt("lzma2 bomb, honest size", lambda: reader._decompress_lzma2(zpacked2, b"\x12", [len(ZEROS)]))
attempt("lzma2 bomb, unknown size", lambda: reader._decompress_lzma2(zpacked2, b"\x12", []))
print("   packed bomb bytes", len(zpacked2))

print("== through the folder decoder and read_archive")
DOCS = [("a.txt", b"alpha " * 100), ("b.md", b"# beta"), ("big.txt", b"\x20" * (11 * 1024 * 1024)), ("c.csv", b"k,v\n1,2\n")]
for method in ("lzma", "lzma2", "copy"):
    for solid in (True, False):
        blob = make_7z(DOCS, method, solid)
        try:
            out = [(r.get_metadata().file_path, len(r.get_full_text())) for r in read_archive(io.BytesIO(blob), "c.7z")]
        except Exception as exc:  # noqa: BLE001
            out = (type(exc).__name__, str(exc))
        print(method, solid, len(blob) < 200000, "->", out)
        for line in drain_log():
            print("   log", line)
    damaged = make_7z(DOCS[:2], method, False, tamper=lambda p: [p[0], b"\x00" + p[1][1:-3]])
    try:
        out = [(r.get_metadata().file_path, len(r.get_full_text())) for r in read_archive(io.BytesIO(damaged), "c.7z")]
    except Exception as exc:  # noqa: BLE001
        out = (type(exc).__name__, str(exc))
    print(method, "second folder damaged ->", out)
    for line in drain_log():
        print("   log", line)

print("left in temp root:", sorted(os.listdir(ROOT)))
shutil.rmtree(ROOT)
