"""Differential script: the font analysis cache of the PDF extractor (_FONT_CACHE)."""
import hashlib
import os
import struct
import sys
import threading

sys.path.insert(0, os.getcwd())

from sharepoint2text.parsing.extractors.pdf import pdf_extractor as pe  # noqa: E402


def ttf(glyph_boxes, loc_format=0, units_per_em=2048, omit=(), num_glyphs=None, head_len=54, truncate=None, loca_cut=0):
    """A minimal TrueType file with head, maxp, loca and glyf tables."""
    glyf = b""
    offs = [0]
    for box in glyph_boxes:
        if box is not None:
            x0, y0, x1, y1 = box
            glyf += struct.pack(">hhhhh", 1, x0, y0, x1, y1) + b"\x00\x00"
        offs.append(len(glyf))
    n = len(glyph_boxes) if num_glyphs is None else num_glyphs
    if loc_format == 0:
        loca = b"".join(struct.pack(">H", o // 2) for o in offs)
    else:
        loca = b"".join(struct.pack(">I", o) for o in offs)
    if loca_cut:
        loca = loca[:-loca_cut]
    head = bytearray(head_len)
    if head_len >= 52:
        head[18:20] = struct.pack(">H", units_per_em)
        head[50:52] = struct.pack(">h", loc_format)
    maxp = struct.pack(">IH", 0x00010000, n)
    tables = {"head": bytes(head), "maxp": maxp, "loca": loca, "glyf": glyf}
    tables = {k: v for k, v in tables.items() if k not in omit}
    out = struct.pack(">IHHHH", 0x00010000, len(tables), 0, 0, 0)
    offset = 12 + 16 * len(tables)
    body = b""
    for tag, data in tables.items():
        out += struct.pack(">4sIII", tag.encode(), 0, offset + len(body), len(data))
        body += data
    data = out + body
    return data if truncate is None else data[:truncate]


BOXES = [(0, 0, 500, 700), None, (10, -20, 610, 1480), (0, 0, 0, 0), (-5, -5, 5, 5)]

FONTS = {
    "short_format": ttf(BOXES),
    "long_format": ttf(BOXES, loc_format=1, units_per_em=1000),
    "no_head": ttf(BOXES, omit=("head",)),
    "no_maxp": ttf(BOXES, omit=("maxp",)),
    "no_loca": ttf(BOXES, omit=("loca",)),
    "no_glyf": ttf(BOXES, omit=("glyf",)),
    "loca_too_short": ttf(BOXES, loca_cut=3),
    "more_glyphs_than_loca": ttf(BOXES, num_glyphs=40),
    "short_head": ttf(BOXES, head_len=20),
    "truncated_file": ttf(BOXES, truncate=60),
    "tiny": b"\x00\x01",
    "empty": b"",
    "garbage": bytes(range(256)) * 3,
    "table_count_lies": struct.pack(">IHHHH", 0x00010000, 9, 0, 0, 0) + b"abc",
}

GLYPHS = [[0, 2, 4], [0, 1, 2, 3, 4], [], [2], [-1, 5, 99, 4], [0, 2, 4]]


def describe(value):
    return repr(value)


def cache_digest():
    items = sorted((hashlib.sha256(k[0]).hexdigest()[:8], k[1], describe(v)) for k, v in pe._FONT_CACHE.items())
    return len(items), hashlib.sha256(repr(items).encode()).hexdigest()[:16]


def main():
    out = []
    pe._FONT_CACHE.clear()
    out.append(("start", cache_digest()))
    for name, data in FONTS.items():
        for gids in GLYPHS:
            before = len(pe._FONT_CACHE)
            try:
                first = pe._ttf_get_glyph_features(data, gids)
                grew = len(pe._FONT_CACHE) - before
                second = pe._ttf_get_glyph_features(data, list(gids))
                out.append((name, gids, describe(first), "grew", grew, "same object", second is first, "key cached", (data, tuple(gids)) in pe._FONT_CACHE))
            except Exception as e:  # noqa: BLE001
                out.append((name, gids, "EXC", type(e).__name__, str(e), "grew", len(pe._FONT_CACHE) - before, "key cached", (data, tuple(gids)) in pe._FONT_CACHE))
        out.append(("cache after", name, cache_digest()))

    # a cached None is served from the cache (no second analysis)
    calls = []
    real = pe._ttf_read_table_directory

    def counting(font_data):
        calls.append(len(font_data))
        return real(font_data)

    pe._ttf_read_table_directory = counting
    try:
        pe._ttf_get_glyph_features(FONTS["no_head"], [0, 2, 4])
        pe._ttf_get_glyph_features(FONTS["short_format"], [0, 2, 4])
        pe._ttf_get_glyph_features(FONTS["short_format"], [7])
        pe._ttf_get_glyph_features(FONTS["short_format"], [7])
    finally:
        pe._ttf_read_table_directory = real
    out.append(("analyses for cached None / cached value / new key / repeated", calls))

    # the digit assignment that consumes the features
    for name in ("short_format", "long_format", "no_glyf"):
        info = pe._ttf_get_glyph_features(FONTS[name], [0, 2, 4])
        out.append(("digits", name, None if info is None else sorted(pe._assign_digit_glyphs(info[1], info[0]).items())))

    # several threads asking for the same and for different keys
    pe._FONT_CACHE.clear()
    results = {}

    def worker(k):
        acc = []
        for _ in range(20):
            for name in ("short_format", "long_format", "no_loca", "more_glyphs_than_loca"):
                for gids in GLYPHS:
                    try:
                        acc.append(describe(pe._ttf_get_glyph_features(FONTS[name], gids)))
                    except Exception as e:  # noqa: BLE001
                        acc.append(type(e).__name__)
        results[k] = hashlib.sha256(repr(acc).encode()).hexdigest()[:16]

    threads = [threading.Thread(target=worker, args=(k,)) for k in range(8)]
    for t in threads:
        t.start()
    for t in threads:
        t.join()
    out.append(("threads", sorted(set(results.values())), cache_digest()))

    text = "\n".join(repr(o) for o in out)
    print(text)
    print("sha256", hashlib.sha256(text.encode("utf-8")).hexdigest())


if __name__ == "__main__":
    main()
