import io
import logging
import os
import sys
import tarfile
import zipfile

sys.path.insert(0, os.getcwd())

from sharepoint2text.parsing.extractors import archive_extractor as ax  # noqa: E402


class ListHandler(logging.Handler):
    def __init__(self):
        super().__init__(level=logging.WARNING)
        self.records = []

    def emit(self, record):
        self.records.append((record.levelname, record.getMessage()))


handler = ListHandler()
root = logging.getLogger()
root.addHandler(handler)
root.setLevel(logging.WARNING)


def describe(res):
    md = res.get_metadata()
    return (
        type(res).__name__,
        md.filename,
        md.file_extension,
        md.file_path,
        md.folder_path,
        res.get_full_text()[:60],
    )


def run(label, fn):
    handler.records.clear()
    try:
        out = [describe(r) for r in fn()]
        print(label, "OK", out)
    except BaseException as exc:  # noqa: BLE001
        print(label, "EXC", type(exc).__name__, str(exc)[:200])
    for rec in handler.records:
        print("   log", rec)


def inner_zip():
    buf = io.BytesIO()
    with zipfile.ZipFile(buf, "w") as zf:
        zf.writestr("deep.txt", "deep text")
    return buf.getvalue()


MEMBERS = [
    ("a.txt", b"alpha"),
    ("dir/b.md", b"# beta"),
    ("dir/sub/bad.docx", b"not a zip"),
    ("bad.pdf", b"%PDF-1.7 nothing"),
    ("bad.xls", b"\xd0\xcf\x11\xe0\xa1\xb1\x1a\xe1" + b"\x00" * 600),
    (".hidden.txt", b"hidden"),
    ("__MACOSX/._a.txt", b"mac"),
    ("nested.zip", inner_zip()),
    ("page.html", b"<html><body><p>html text</p></body></html>"),
    ("mail.eml", b"From: a@b.c\r\nSubject: s\r\n\r\nmail body\r\n"),
    ("unsupported.bin", b"\x00\x01"),
    ("big.txt", b"x" * 5000),
    ("empty.txt", b""),
]


def make_zip():
    buf = io.BytesIO()
    with zipfile.ZipFile(buf, "w") as zf:
        for name, data in MEMBERS:
            zf.writestr(name, data)
    buf.seek(0)
    return buf


def make_tar(mode):
    buf = io.BytesIO()
    with tarfile.open(fileobj=buf, mode=mode) as tf:
        for name, data in MEMBERS:
            info = tarfile.TarInfo(name)
            info.size = len(data)
            tf.addfile(info, io.BytesIO(data))
    buf.seek(0)
    return buf


for path in (None, "box/archive.zip"):
    run(f"zip path={path}", lambda: ax.read_archive(make_zip(), path))
run("tar", lambda: ax.read_archive(make_tar("w"), "t.tar"))
run("tgz", lambda: ax.read_archive(make_tar("w:gz"), "/abs/t.tar.gz"))

# direct calls of the per-member function
for archive_path in (None, "", "arch.zip"):
    for filename, data in MEMBERS:
        base = filename.rsplit("/", 1)[-1]
        run(
            f"entry {archive_path!r} {filename}",
            lambda: ax._process_archive_entry(filename, data, archive_path, base),
        )
run("entry bad data type", lambda: ax._process_archive_entry("a.txt", None, None, "a.txt"))
run("entry unknown ext", lambda: ax._process_archive_entry("a.zzz", b"x", None, "a.zzz"))

# size limit branch
ax.MAX_ARCHIVE_FILE_SIZE = 1000
run("limit zip", lambda: ax.read_archive(make_zip(), "lim.zip"))
run("limit entry", lambda: ax._process_archive_entry("d/big.txt", b"y" * 1001, "lim.zip", "big.txt"))
run("limit entry edge", lambda: ax._process_archive_entry("d/edge.txt", b"y" * 1000, "lim.zip", "edge.txt"))

# a consumer that stops early / throws into the generator
gen = ax._process_archive_entry("a.txt", b"alpha", "z.zip", "a.txt")
first = next(gen)
try:
    print("throw ->", gen.throw(ValueError("boom")))
except BaseException as exc:  # noqa: BLE001
    print("throw EXC", type(exc).__name__)
for rec in handler.records:
    print("   log", rec)
