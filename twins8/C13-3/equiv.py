"""Differential script: ODT table extraction (read_odt -> iterate_tables)."""
import hashlib
import io
import os
import sys
import zipfile

sys.path.insert(0, os.getcwd())

from sharepoint2text.parsing.extractors.open_office.odt_extractor import read_odt

NSDECL = (
    'xmlns:office="urn:oasis:names:tc:opendocument:xmlns:office:1.0" '
    'xmlns:text="urn:oasis:names:tc:opendocument:xmlns:text:1.0" '
    'xmlns:table="urn:oasis:names:tc:opendocument:xmlns:table:1.0" '
    'xmlns:draw="urn:oasis:names:tc:opendocument:xmlns:drawing:1.0"'
)


def p(t):
    return f"<text:p>{t}</text:p>"


def cell(*paras, extra="", attrs=""):
    return f"<table:table-cell{attrs}>{''.join(p(t) for t in paras)}{extra}</table:table-cell>"


COVERED = "<table:covered-table-cell/>"


def row(*cells):
    return "<table:table-row>" + "".join(cells) + "</table:table-row>"


def table(*rows, cols=1, name="T"):
    return (
        f'<table:table table:name="{name}"><table:table-column table:number-columns-repeated="{cols}"/>'
        + "".join(rows)
        + "</table:table>"
    )


def grid(r, c, tag="c"):
    return table(*[row(*[cell(f"{tag}{i}.{j}") for j in range(c)]) for i in range(r)], cols=c)


def odt(body):
    xml = (
        f'<?xml version="1.0" encoding="UTF-8"?><office:document-content {NSDECL}>'
        f"<office:body><office:text>{body}</office:text></office:body></office:document-content>"
    )
    buf = io.BytesIO()
    with zipfile.ZipFile(buf, "w") as z:
        z.writestr("mimetype", "application/vnd.oasis.opendocument.text")
        z.writestr("content.xml", xml)
    buf.seek(0)
    return buf


CASES = {
    "no_table": p("only text"),
    "1x1": grid(1, 1),
    "3x4": grid(3, 4),
    "empty_cells": table(row(cell(""), cell()), row(cell("x"), cell(""))),
    "all_empty_row_kept": table(row(cell(), cell()), row(cell("a"), cell("b"))),
    "multi_paragraph": table(row(cell("a", "b", "c"), cell("d"))),
    "heading_in_cell": table(row(cell("a", extra='<text:h text:outline-level="1">H</text:h>'))),
    "ragged": table(row(cell("a")), row(cell("b"), cell("c"), cell("d"))),
    "row_without_cells_dropped": table(row(), row(cell("b"))),
    "table_without_rows_dropped": table() + grid(1, 1),
    "adjacent": grid(2, 2, "x") + grid(1, 3, "y") + p("t") + grid(2, 1, "z"),
    "covered_cells": table(row(cell("m", attrs=' table:number-columns-spanned="2"'), COVERED, cell("n")), row(cell("a"), cell("b"), cell("c"))),
    "only_covered": table(row(COVERED, COVERED)),
    "header_rows": table("<table:table-header-rows>" + row(cell("h1"), cell("h2")) + "</table:table-header-rows>", row(cell("a"), cell("b"))),
    "row_group": table("<table:table-row-group>" + row(cell("g")) + "</table:table-row-group>", row(cell("a"))),
    "nested": table(row(cell("outer", extra=grid(2, 2, "n") + p("tail")), cell("o2"))),
    "foreign_child_in_row": table(row("<text:soft-page-break/>", cell("a"), "<table:other/>", cell("b"))),
    "annotation_in_cell": table(row(cell("a", extra="<office:annotation><text:p>note</text:p></office:annotation>"))),
    "list_in_cell": table(row(cell(extra="<text:list><text:list-item><text:p>li1</text:p></text:list-item><text:list-item><text:p>li2</text:p></text:list-item></text:list>"))),
    "unicode": table(row(cell("äöü 中文"), cell("a &amp; b &lt; c"))),
    "table_in_section": "<text:section>" + grid(1, 2, "s") + "</text:section>",
}


def main():
    out = []
    for name, body in CASES.items():
        try:
            for d in read_odt(odt(body), path=f"{name}.odt"):
                tables = list(d.iterate_tables())
                out.append((name, [t.get_table() for t in tables], [repr(t.get_dim()) for t in tables], d.get_full_text()))
        except Exception as e:  # noqa: BLE001
            out.append((name, "EXC", type(e).__name__, str(e)))
    text = "\n".join(repr(o) for o in out)
    print(text)
    print("sha256", hashlib.sha256(text.encode("utf-8")).hexdigest())


if __name__ == "__main__":
    main()
