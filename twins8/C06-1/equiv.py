"""Differential script for C06 (determinism / observer idempotence).

Generates DOCX, ODT and XLSX files in memory, extracts them in this process
and in child processes under several PYTHONHASHSEED values, interleaves
observer calls with to_json() and prints digests.
"""
import hashlib
import io
import json
import os
import struct
import subprocess
import sys
import zipfile
import zlib

sys.path.insert(0, os.getcwd())


def png(w=3, h=2):
    def chunk(tag, data):
        body = tag + data
        return struct.pack(">I", len(data)) + body + struct.pack(">I", zlib.crc32(body) & 0xFFFFFFFF)

    raw = b"".join(b"\x00" + b"\x10\x20\x30" * w for _ in range(h))
    return (
        b"\x89PNG\r\n\x1a\n"
        + chunk(b"IHDR", struct.pack(">IIBBBBB", w, h, 8, 2, 0, 0, 0))
        + chunk(b"IDAT", zlib.compress(raw))
        + chunk(b"IEND", b"")
    )


def zip_bytes(members):
    buf = io.BytesIO()
    with zipfile.ZipFile(buf, "w", zipfile.ZIP_DEFLATED) as zf:
        for name, data in members:
            info = zipfile.ZipInfo(name, date_time=(2020, 1, 1, 0, 0, 0))
            if name == "mimetype":
                info.compress_type = zipfile.ZIP_STORED
            else:
                info.compress_type = zipfile.ZIP_DEFLATED
            zf.writestr(info, data)
    return buf.getvalue()


W = "http://schemas.openxmlformats.org/wordprocessingml/2006/main"
R = "http://schemas.openxmlformats.org/officeDocument/2006/relationships"


def docx(par_specs, with_image=True, with_styles=True):
    """par_specs: list of (style_id or None, text)."""
    paras = []
    for style, text in par_specs:
        ppr = '<w:pPr><w:pStyle w:val="%s"/></w:pPr>' % style if style is not None else ""
        paras.append("<w:p>%s<w:r><w:t>%s</w:t></w:r></w:p>" % (ppr, text))
    drawing = ""
    if with_image:
        drawing = (
            '<w:p><w:r><w:drawing><wp:inline xmlns:wp="http://schemas.openxmlformats.org/drawingml/2006/wordprocessingDrawing">'
            '<wp:docPr id="1" name="Pic" descr="a picture"/>'
            '<a:graphic xmlns:a="http://schemas.openxmlformats.org/drawingml/2006/main"><a:graphicData>'
            '<pic:pic xmlns:pic="http://schemas.openxmlformats.org/drawingml/2006/picture"><pic:blipFill>'
            '<a:blip r:embed="rId5"/></pic:blipFill></pic:pic></a:graphicData></a:graphic></wp:inline></w:drawing></w:r></w:p>'
        )
    document = (
        '<?xml version="1.0" encoding="UTF-8"?><w:document xmlns:w="%s" xmlns:r="%s"><w:body>%s%s'
        "<w:tbl><w:tr><w:tc><w:p><w:r><w:t>c1</w:t></w:r></w:p></w:tc><w:tc><w:p><w:r><w:t>c2</w:t></w:r></w:p></w:tc></w:tr></w:tbl>"
        "<w:sectPr/></w:body></w:document>" % (W, R, "".join(paras), drawing)
    )
    style_ids = sorted({s for s, _ in par_specs if s})
    styles = '<?xml version="1.0"?><w:styles xmlns:w="%s">%s</w:styles>' % (
        W,
        "".join(
            '<w:style w:type="paragraph" w:styleId="%s"><w:name w:val="Name of %s"/></w:style>' % (s, s)
            for s in style_ids
            if not s.startswith("raw")
        ),
    )
    rels = (
        '<?xml version="1.0"?><Relationships xmlns="http://schemas.openxmlformats.org/package/2006/relationships">'
        '<Relationship Id="rId5" Type="http://schemas.openxmlformats.org/officeDocument/2006/relationships/image" Target="media/image1.png"/>'
        "</Relationships>"
    )
    members = [
        (
            "[Content_Types].xml",
            '<?xml version="1.0"?><Types xmlns="http://schemas.openxmlformats.org/package/2006/content-types">'
            '<Default Extension="xml" ContentType="application/xml"/><Default Extension="png" ContentType="image/png"/>'
            '<Override PartName="/word/document.xml" ContentType="application/vnd.openxmlformats-officedocument.wordprocessingml.document.main+xml"/></Types>',
        ),
        (
            "_rels/.rels",
            '<?xml version="1.0"?><Relationships xmlns="http://schemas.openxmlformats.org/package/2006/relationships">'
            '<Relationship Id="rId1" Type="http://schemas.openxmlformats.org/officeDocument/2006/relationships/officeDocument" Target="word/document.xml"/></Relationships>',
        ),
        ("word/document.xml", document),
        ("word/_rels/document.xml.rels", rels),
    ]
    if with_styles:
        members.append(("word/styles.xml", styles))
    if with_image:
        members.append(("word/media/image1.png", png()))
    return zip_bytes(members)


ODF_NS = (
    'xmlns:office="urn:oasis:names:tc:opendocument:xmlns:office:1.0" '
    'xmlns:style="urn:oasis:names:tc:opendocument:xmlns:style:1.0" '
    'xmlns:text="urn:oasis:names:tc:opendocument:xmlns:text:1.0" '
    'xmlns:table="urn:oasis:names:tc:opendocument:xmlns:table:1.0" '
    'xmlns:draw="urn:oasis:names:tc:opendocument:xmlns:drawing:1.0" '
    'xmlns:xlink="http://www.w3.org/1999/xlink" '
    'xmlns:svg="urn:oasis:names:tc:opendocument:xmlns:svg-compatible:1.0" '
    'xmlns:dc="http://purl.org/dc/elements/1.1/" '
    'xmlns:meta="urn:oasis:names:tc:opendocument:xmlns:meta:1.0"'
)


def odt(content_styles, styles_styles, body, with_styles_xml=True, title=None, images=1):
    auto = "".join('<style:style style:name="%s" style:family="paragraph"/>' % n for n in content_styles)
    content = (
        '<?xml version="1.0"?><office:document-content %s><office:automatic-styles>%s'
        '<style:style style:family="text"/></office:automatic-styles>'
        "<office:body><office:text>%s</office:text></office:body></office:document-content>" % (ODF_NS, auto, body)
    )
    named = "".join('<style:style style:name="%s" style:family="paragraph"/>' % n for n in styles_styles)
    styles = (
        '<?xml version="1.0"?><office:document-styles %s><office:styles>%s</office:styles>'
        "<office:master-styles><style:master-page style:name=\"Standard\"><style:header><text:p>Head</text:p></style:header>"
        "</style:master-page></office:master-styles></office:document-styles>" % (ODF_NS, named)
    )
    meta = '<?xml version="1.0"?><office:document-meta %s><office:meta>%s</office:meta></office:document-meta>' % (
        ODF_NS,
        "<dc:title>%s</dc:title>" % title if title else "",
    )
    members = [
        ("mimetype", "application/vnd.oasis.opendocument.text"),
        (
            "META-INF/manifest.xml",
            '<?xml version="1.0"?><manifest:manifest xmlns:manifest="urn:oasis:names:tc:opendocument:xmlns:manifest:1.0">'
            '<manifest:file-entry manifest:full-path="/" manifest:media-type="application/vnd.oasis.opendocument.text"/></manifest:manifest>',
        ),
        ("content.xml", content),
        ("meta.xml", meta),
    ]
    if with_styles_xml:
        members.append(("styles.xml", styles))
    for i in range(images):
        members.append(("Pictures/p%d.png" % i, png(2 + i, 2)))
    return zip_bytes(members)


def frame(i, caption=None, desc=None):
    return (
        '<text:p text:style-name="P1"><draw:frame draw:name="Frame%d" svg:width="2cm" svg:height="1cm">'
        '<draw:image xlink:href="Pictures/p%d.png"/>%s%s</draw:frame>%s</text:p>'
        % (
            i,
            i,
            "<svg:title>%s</svg:title>" % caption if caption else "",
            "<svg:desc>%s</svg:desc>" % desc if desc else "",
            caption or "",
        )
    )


TABLE = (
    '<table:table table:name="T1"><table:table-row><table:table-cell><text:p text:style-name="Table_20_Contents">Key</text:p>'
    '</table:table-cell><table:table-cell><text:p text:style-name="Table_20_Contents">Val</text:p></table:table-cell></table:table-row>'
    "<table:table-row><table:table-cell><text:p>k1</text:p></table:table-cell><table:table-cell><text:p>v1</text:p></table:table-cell>"
    "</table:table-row></table:table>"
)


def xlsx(sheets, with_image=False):
    from openpyxl import Workbook

    wb = Workbook()
    wb.remove(wb.active)
    for name, rows in sheets:
        ws = wb.create_sheet(name)
        for row in rows:
            ws.append(row)
    buf = io.BytesIO()
    wb.save(buf)
    # Make the package deterministic: fixed core properties
    src = zipfile.ZipFile(io.BytesIO(buf.getvalue()))
    members = []
    for info in src.infolist():
        data = src.read(info.filename)
        if info.filename == "docProps/core.xml":
            data = (
                b'<?xml version="1.0"?><cp:coreProperties xmlns:cp="http://schemas.openxmlformats.org/package/2006/metadata/core-properties" '
                b'xmlns:dc="http://purl.org/dc/elements/1.1/" xmlns:dcterms="http://purl.org/dc/terms/" '
                b'xmlns:xsi="http://www.w3.org/2001/XMLSchema-instance"><dc:creator>me</dc:creator>'
                b'<dcterms:created xsi:type="dcterms:W3CDTF">2020-01-02T03:04:05Z</dcterms:created></cp:coreProperties>'
            )
        members.append((info.filename, data))
    return zip_bytes(members)


STYLE_POOL = ["Heading1", "Normal", "ListParagraph", "Quote", "raw-unknown", "Title", "Zeta", "alpha", "B", "a", "Ab"]


def corpus():
    items = []
    items.append(("docx-many-styles", "a.docx", docx([(s, "text %s" % s) for s in STYLE_POOL] + [(None, "plain")])))
    items.append(("docx-dup-styles", "b.docx", docx([("Normal", "x"), ("Normal", "y"), ("", "z"), ("Quote", "q")], with_image=False)))
    items.append(("docx-no-styles-part", "c.docx", docx([("Heading1", "h"), ("Zeta", "z")], with_styles=False)))
    items.append(("docx-empty", "d.docx", docx([], with_image=False)))
    body_h = (
        '<text:h text:outline-level="1" text:style-name="H1">Chapter One</text:h>'
        '<text:p text:style-name="P1">first body mentions Fig A</text:p>'
        + frame(0, caption="Fig A")
        + '<text:h text:outline-level="2">Sub</text:h><text:p text:style-name="P2">second body Key Val</text:p>'
        + TABLE
        + '<text:h text:outline-level="1">Chapter Two</text:h><text:p>third body</text:p>'
        + frame(1, desc="third body")
        + frame(2)
    )
    items.append(("odt-headings", "e.odt", odt(STYLE_POOL, ["Standard", "Zeta", "Heading_20_1"], body_h, title="Doc", images=3)))
    body_flat = '<text:p text:style-name="P1">only text</text:p>' + frame(0, caption="cap") + TABLE
    items.append(("odt-flat", "f.odt", odt(["P1", "P1", "T1"], ["P1", "Standard"], body_flat, images=1)))
    items.append(("odt-no-styles-xml", "g.odt", odt(["b", "a", "C"], [], body_flat, with_styles_xml=False, images=1)))
    items.append(("odt-empty-body", "h.odt", odt([], ["", "x"], "", images=0)))
    items.append(("odt-one-heading", "i.odt", odt(["P9"], ["P8"], '<text:h text:outline-level="1">Only</text:h><text:p>b</text:p>' + frame(0), images=1)))
    items.append(("xlsx-two-sheets", "j.xlsx", xlsx([("S1", [["h1", "h2"], [1, 2.5], ["x", None]]), ("S2", [["only"]])])))
    items.append(("xlsx-empty-sheet", "k.xlsx", xlsx([("Empty", [])])))
    return items


def sha(obj):
    return hashlib.sha256(json.dumps(obj, sort_keys=True, default=repr).encode()).hexdigest()[:16]


def run_one(label, name, data):
    import sharepoint2text

    extractor = sharepoint2text.get_extractor(name)
    # A path outside any existing directory: metadata must not depend on the cwd
    name = "/nonexistent-c06-dir/" + name
    buf = io.BytesIO(data)
    buf.seek(5)
    try:
        results = list(extractor(buf, name))
    except Exception as exc:  # noqa: BLE001
        return [label, "EXC", type(exc).__name__, str(exc)[:100]]
    out = [label, "untouched=%s" % (buf.getvalue() == data), len(results)]
    for res in results:
        j0 = res.to_json()
        styles = getattr(res, "styles", None)
        out.append(("styles", styles))
        units1 = [u.to_json() if hasattr(u, "to_json") else repr(u) for u in res.iterate_units()]
        j1 = res.to_json()
        imgs = [(i.get_caption(), i.get_description(), getattr(i, "unit_name", "-")) for i in res.iterate_images()]
        units2 = [u.to_json() if hasattr(u, "to_json") else repr(u) for u in res.iterate_units()]
        tables = [t.get_table() for t in res.iterate_tables()]
        text = res.get_full_text()
        j2 = res.to_json()
        out.append(
            (
                sha(j0),
                j0 == j1 == j2,
                sha(units1),
                units1 == units2,
                len(units1),
                [(len(u.get("images", []) or []), len(u.get("tables", []) or [])) for u in units1 if isinstance(u, dict)],
                imgs,
                sha(tables),
                sha(text),
            )
        )
        # second extraction from the same buffer gives the same JSON
        again = list(extractor(buf, name))
        out.append(("again", [sha(r.to_json()) for r in again] == [sha(r.to_json()) for r in results]))
    return out


def child():
    for label, name, data in corpus():
        print(json.dumps(run_one(label, name, data), default=repr))


if __name__ == "__main__":
    if len(sys.argv) > 1 and sys.argv[1] == "--child":
        child()
        sys.exit(0)
    outputs = []
    for seed in ("0", "1", "4242"):
        env = dict(os.environ, PYTHONHASHSEED=seed)
        proc = subprocess.run(
            [sys.executable, os.path.abspath(__file__), "--child"],
            env=env,
            cwd=os.getcwd(),
            capture_output=True,
            text=True,
        )
        outputs.append(proc.stdout)
        if proc.returncode != 0:
            print("child failed", seed, proc.stderr[-400:])
    print("seed outputs identical:", len(set(outputs)) == 1)
    for i, text in enumerate(outputs):
        print("--- seed run", i)
        print(text)
