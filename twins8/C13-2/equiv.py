"""Differential script: PPTX table extraction (graphic frames -> iterate_tables)."""
import hashlib
import io
import os
import sys
import zipfile
from xml.etree import ElementTree as ET

sys.path.insert(0, os.getcwd())

from sharepoint2text.parsing.extractors.ms_modern import pptx_extractor as px

A = "http://schemas.openxmlformats.org/drawingml/2006/main"
P = "http://schemas.openxmlformats.org/presentationml/2006/main"
R = "http://schemas.openxmlformats.org/officeDocument/2006/relationships"
PR = "http://schemas.openxmlformats.org/package/2006/relationships"
TABLE_URI = "http://schemas.openxmlformats.org/drawingml/2006/table"
NSDECL = f'xmlns:a="{A}" xmlns:p="{P}" xmlns:r="{R}"'


def para(*runs):
    return "<a:p>" + "".join(runs) + "</a:p>"


def run(t):
    return f"<a:r><a:t>{t}</a:t></a:r>"


def cell(*paras, body=True):
    if not body:
        return "<a:tc><a:tcPr/></a:tc>"
    return "<a:tc><a:txBody><a:bodyPr/>" + "".join(paras) + "</a:txBody></a:tc>"


def row(*cells):
    return '<a:tr h="1">' + "".join(cells) + "</a:tr>"


def frame(rows, uri=TABLE_URI, y=0, with_tbl=True, name="T"):
    tbl = "<a:tbl><a:tblGrid/>" + "".join(rows) + "</a:tbl>" if with_tbl else ""
    return (
        f'<p:graphicFrame><p:nvGraphicFramePr><p:cNvPr id="9" name="{name}"/></p:nvGraphicFramePr>'
        f'<p:xfrm><a:off x="0" y="{y}"/><a:ext cx="1" cy="1"/></p:xfrm>'
        f'<a:graphic><a:graphicData uri="{uri}">{tbl}</a:graphicData></a:graphic></p:graphicFrame>'
    )


def slide_xml(shapes):
    return (
        f'<?xml version="1.0" encoding="UTF-8"?><p:sld {NSDECL}><p:cSld><p:spTree>'
        + "".join(shapes)
        + "</p:spTree></p:cSld></p:sld>"
    )


def pptx(slides):
    buf = io.BytesIO()
    with zipfile.ZipFile(buf, "w") as z:
        z.writestr(
            "[Content_Types].xml",
            '<?xml version="1.0"?><Types xmlns="http://schemas.openxmlformats.org/package/2006/content-types">'
            '<Default Extension="xml" ContentType="application/xml"/></Types>',
        )
        ids = "".join(
            f'<p:sldId id="{256 + i}" r:id="rId{i + 1}"/>' for i in range(len(slides))
        )
        z.writestr(
            "ppt/presentation.xml",
            f'<?xml version="1.0"?><p:presentation {NSDECL}><p:sldIdLst>{ids}</p:sldIdLst></p:presentation>',
        )
        rels = "".join(
            f'<Relationship Id="rId{i + 1}" Type="{R}/slide" Target="slides/slide{i + 1}.xml"/>'
            for i in range(len(slides))
        )
        z.writestr(
            "ppt/_rels/presentation.xml.rels",
            f'<?xml version="1.0"?><Relationships xmlns="{PR}">{rels}</Relationships>',
        )
        for i, shapes in enumerate(slides):
            z.writestr(f"ppt/slides/slide{i + 1}.xml", slide_xml(shapes))
    buf.seek(0)
    return buf


def grid(r, c, tag="c"):
    return [row(*[cell(para(run(f"{tag}{i}.{j}"))) for j in range(c)]) for i in range(r)]


FRAMES = {
    "1x1": frame(grid(1, 1)),
    "3x4": frame(grid(3, 4)),
    "empty_cells": frame([row(cell(para()), cell(body=False)), row(cell(para(run("x"))), cell())]),
    "multi_paragraph": frame([row(cell(para(run("a")), para(run("b"), "<a:br/>", run("c")), para()), cell(para(run(" padded "))))]),
    "field_and_direct_text": frame([row(cell(para('<a:fld type="slidenum"><a:t>7</a:t></a:fld>', "<a:t>direct</a:t>", "<a:r><a:t></a:t></a:r>", "<a:r/>")))]),
    "ragged": frame([row(cell(para(run("a")))), row(), row(cell(para(run("b"))), cell(para(run("c"))))]),
    "no_rows": frame([]),
    "not_a_table_uri": frame(grid(1, 1), uri="http://schemas.openxmlformats.org/drawingml/2006/chart"),
    "uri_without_tbl": frame([], with_tbl=False),
    "whitespace_only": frame([row(cell(para(run("  \t ")), para(run(" "))))]),
    "unicode": frame([row(cell(para(run("äöü 中文"))), cell(para(run("a &amp; b"))))]),
}


def main():
    out = []
    # 1. the walker itself on single elements
    for name, xml in FRAMES.items():
        elem = ET.fromstring(f"<root {NSDECL}>{xml}</root>")[0]
        try:
            out.append(("frame", name, px._extract_table_from_graphic_frame(elem)))
        except Exception as e:  # noqa: BLE001
            out.append(("frame", name, "EXC", type(e).__name__, str(e)))
    bare = ET.fromstring(f"<p:graphicFrame {NSDECL}/>")
    out.append(("frame", "bare", px._extract_table_from_graphic_frame(bare)))

    # 2. whole presentations
    decks = {
        "one_per_slide": [[f] for f in FRAMES.values()],
        "adjacent_on_one_slide": [
            [frame(grid(2, 2, "x"), y=300), frame(grid(1, 3, "y"), y=100), frame(grid(2, 1, "z"), y=200)]
        ],
        "empty_deck": [],
        "slide_without_tables": [[]],
    }
    for name, slides in decks.items():
        try:
            for doc in px.read_pptx(pptx(slides), path=f"{name}.pptx"):
                tables = list(doc.iterate_tables())
                out.append(("deck", name, [t.get_table() for t in tables], [repr(t.get_dim()) for t in tables]))
                out.append(("units", name, [[t.get_table() for t in u.get_tables()] for u in doc.iterate_units()]))
                out.append(("text", name, doc.get_full_text()))
        except Exception as e:  # noqa: BLE001
            out.append(("deck", name, "EXC", type(e).__name__, str(e)))
    text = "\n".join(repr(o) for o in out)
    print(text)
    print("sha256", hashlib.sha256(text.encode("utf-8")).hexdigest())


if __name__ == "__main__":
    main()
