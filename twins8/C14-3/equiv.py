"""Differential script: XLSX image size sniffing and sheet images."""
import hashlib
import io
import logging
import os
import struct
import sys
import warnings
import zipfile
import zlib

sys.path.insert(0, os.getcwd())
warnings.simplefilter("ignore")
logging.disable(logging.CRITICAL)

import openpyxl  # noqa: E402

from sharepoint2text.parsing.extractors.ms_modern import xlsx_extractor as xx  # noqa: E402

R = "http://schemas.openxmlformats.org/officeDocument/2006/relationships"
PR = "http://schemas.openxmlformats.org/package/2006/relationships"
XDR = "http://schemas.openxmlformats.org/drawingml/2006/spreadsheetDrawing"
A = "http://schemas.openxmlformats.org/drawingml/2006/main"


def png(w, h, seed=0):
    def chunk(t, d):
        return struct.pack(">I", len(d)) + t + d + struct.pack(">I", zlib.crc32(t + d) & 0xFFFFFFFF)

    raw = b"".join(b"\x00" + bytes((seed + x + y) % 256 for x in range(min(w, 8))) for y in range(min(h, 8)))
    return b"\x89PNG\r\n\x1a\n" + chunk(b"IHDR", struct.pack(">IIBBBBB", w, h, 8, 0, 0, 0, 0)) + chunk(b"IDAT", zlib.compress(raw)) + chunk(b"IEND", b"")


def gif(w, h, ver=b"GIF89a"):
    return ver + struct.pack("<HH", w, h) + b"\x00\x00\x00;"


def bmp(w, h):
    return b"BM" + struct.pack("<IHHI", 54, 0, 0, 54) + struct.pack("<IiiHHIIiiII", 40, w, h, 1, 24, 0, 0, 0, 0, 0, 0)


def seg(marker, payload):
    return bytes([0xFF, marker]) + struct.pack(">H", len(payload) + 2) + payload


def sof(marker, w, h, comps=3):
    return seg(marker, b"\x08" + struct.pack(">HH", h, w) + bytes([comps]) + b"\x01\x11\x00" * comps)


SOI = b"\xff\xd8"
APP0 = seg(0xE0, b"JFIF\x00\x01\x01\x00\x00\x01\x00\x01\x00\x00")
DQT = seg(0xDB, bytes(65))
EOI = b"\xff\xd9"

SNIFF = {
    "empty": b"",
    "png": png(3, 2),
    "png_zero_w": png(0, 7),
    "png_big": png(70000, 65536),
    "png_23_bytes": png(3, 2)[:23],
    "png_24_bytes": png(3, 2)[:24],
    "png_bad_sig": b"\x89PNG\r\n\x1a\r" + png(3, 2)[8:],
    "gif87": gif(5, 6, b"GIF87a"),
    "gif89": gif(0, 6),
    "gif_short": gif(5, 6)[:9],
    "gif_bad_ver": gif(5, 6, b"GIF88a"),
    "bmp": bmp(7, 8),
    "bmp_topdown": bmp(7, -8),
    "bmp_neg_w": bmp(-7, 0),
    "bmp_short": bmp(7, 8)[:25],
    "jpeg_sof0": SOI + APP0 + DQT + sof(0xC0, 17, 9) + EOI,
    "jpeg_sof2_progressive": SOI + APP0 + sof(0xC2, 300, 200) + EOI,
    "jpeg_sof15": SOI + sof(0xCF, 1, 2) + EOI,
    "jpeg_dht_c4_is_not_sof": SOI + seg(0xC4, b"\x00" * 20) + sof(0xC1, 11, 12) + EOI,
    "jpeg_jpg_c8_is_not_sof": SOI + seg(0xC8, b"\x00" * 9) + sof(0xC3, 13, 14) + EOI,
    "jpeg_dac_cc_is_not_sof": SOI + seg(0xCC, b"\x00" * 9) + sof(0xC9, 15, 16) + EOI,
    "jpeg_two_sof_first_wins": SOI + sof(0xC0, 1, 2) + sof(0xC0, 3, 4) + EOI,
    "jpeg_zero_dims": SOI + sof(0xC0, 0, 0) + EOI,
    "jpeg_zero_height": SOI + sof(0xC0, 5, 0) + EOI,
    "jpeg_sof_after_sos": SOI + APP0 + seg(0xDA, b"\x00" * 10) + sof(0xC0, 3, 4) + EOI,
    "jpeg_eoi_before_sof": SOI + EOI + sof(0xC0, 3, 4),
    "jpeg_no_sof": SOI + APP0 + DQT + EOI,
    "jpeg_only_soi": SOI,
    "jpeg_soi_3": SOI + b"\xff",
    "jpeg_fill_bytes": SOI + b"\x00\x01\x02" + APP0 + b"\x00" + sof(0xC0, 21, 22) + EOI,
    "jpeg_ff_padding": SOI + b"\xff\xff\xff" + sof(0xC0, 21, 22) + EOI,
    "jpeg_length_0": SOI + b"\xff\xe0\x00\x00" + sof(0xC0, 3, 4),
    "jpeg_length_1": SOI + b"\xff\xe0\x00\x01" + sof(0xC0, 3, 4),
    "jpeg_length_2": SOI + b"\xff\xe0\x00\x02" + sof(0xC0, 3, 4),
    "jpeg_sof_truncated_then_more": SOI + b"\xff\xc0\x00\x30\x08\x00\x09\x00\x11" + sof(0xC0, 3, 4),
    "jpeg_sof_truncated_at_end": SOI + APP0 + sof(0xC0, 17, 9)[:7],
    "jpeg_sof_exact_fit": SOI + sof(0xC0, 17, 9),
    "jpeg_sof_short_segment": SOI + b"\xff\xc0\x00\x04\x08\x00" + EOI,
    "jpeg_app_overruns": SOI + b"\xff\xe1\xff\xff" + b"\x00" * 30 + sof(0xC0, 3, 4),
    "jpeg_rst_marker": SOI + b"\xff\xd0" + b"\x00\x05abc" + sof(0xC0, 8, 9) + EOI,
    "riff_webp": b"RIFF\x1a\x00\x00\x00WEBPVP8 ",
    "text": b"hello world, not an image at all",
}


def workbook_with_images(media, sheets):
    """sheets: per sheet a list of (rid, target, ext_cx, ext_cy, name, descr)."""
    wb = openpyxl.Workbook()
    wb.active.title = "S1"
    wb.active["A1"] = "h"
    for i in range(1, len(sheets)):
        wb.create_sheet(f"S{i + 1}")["A1"] = i
    raw = io.BytesIO()
    wb.save(raw)
    src = zipfile.ZipFile(io.BytesIO(raw.getvalue()))
    out = io.BytesIO()
    with zipfile.ZipFile(out, "w") as z:
        for item in src.infolist():
            data = src.read(item.filename)
            if item.filename == "[Content_Types].xml":
                data = data.replace(
                    b"</Types>",
                    b'<Default Extension="png" ContentType="image/png"/><Default Extension="jpeg" ContentType="image/jpeg"/>'
                    b'<Default Extension="gif" ContentType="image/gif"/><Default Extension="bmp" ContentType="image/bmp"/></Types>',
                )
            z.writestr(item, data)
        for idx, pics in enumerate(sheets, start=1):
            if pics is None:
                continue
            z.writestr(
                f"xl/worksheets/_rels/sheet{idx}.xml.rels",
                f'<?xml version="1.0"?><Relationships xmlns="{PR}"><Relationship Id="rId1" Type="{R}/drawing" Target="../drawings/drawing{idx}.xml"/></Relationships>',
            )
            anchors, rels, seen = "", "", set()
            for rid, target, cx, cy, name, descr in pics:
                ext = f'<xdr:ext cx="{cx}" cy="{cy}"/>' if cx is not None else ""
                anchors += (
                    f'<xdr:oneCellAnchor><xdr:from><xdr:col>0</xdr:col><xdr:colOff>0</xdr:colOff><xdr:row>0</xdr:row><xdr:rowOff>0</xdr:rowOff></xdr:from>{ext}'
                    f'<xdr:pic><xdr:nvPicPr><xdr:cNvPr id="2" name="{name}" descr="{descr}"/><xdr:cNvPicPr/></xdr:nvPicPr>'
                    f'<xdr:blipFill><a:blip r:embed="{rid}"/></xdr:blipFill><xdr:spPr/></xdr:pic><xdr:clientData/></xdr:oneCellAnchor>'
                )
                if target is not None and rid not in seen:
                    seen.add(rid)
                    rels += f'<Relationship Id="{rid}" Type="{R}/image" Target="{target}"/>'
            z.writestr(f"xl/drawings/drawing{idx}.xml", f'<?xml version="1.0"?><xdr:wsDr xmlns:xdr="{XDR}" xmlns:a="{A}" xmlns:r="{R}">{anchors}</xdr:wsDr>')
            z.writestr(f"xl/drawings/_rels/drawing{idx}.xml.rels", f'<?xml version="1.0"?><Relationships xmlns="{PR}">{rels}</Relationships>')
        for name, data in media.items():
            z.writestr(name, data)
    out.seek(0)
    return out


def main():
    out = []
    for name, data in SNIFF.items():
        try:
            out.append(("sniff", name, len(data), xx._get_image_pixel_dimensions(data)))
        except Exception as e:  # noqa: BLE001
            out.append(("sniff", name, "EXC", type(e).__name__, str(e)))

    media = {
        "xl/media/image1.png": SNIFF["png"],
        "xl/media/image2.jpeg": SNIFF["jpeg_sof0"],
        "xl/media/image3.gif": SNIFF["gif87"],
        "xl/media/image4.bmp": SNIFF["bmp_topdown"],
        "xl/media/image5.jpeg": SNIFF["jpeg_sof_truncated_then_more"],
        "xl/media/image6.jpeg": SNIFF["jpeg_no_sof"],
        "xl/media/image7.jpeg": SNIFF["jpeg_fill_bytes"],
    }
    books = {
        "mixed": [
            [("rId1", "../media/image1.png", None, None, "p1", "first"), ("rId2", "../media/image2.jpeg", 0, 0, "p2", ""), ("rId1", "../media/image1.png", 95250, 190500, "p1 again", "sized by anchor")],
            None,
            [("rId1", "/xl/media/image3.gif", None, None, "g", ""), ("rId2", "../media/image4.bmp", "x", "y", "b", ""), ("rId5", "../media/image7.jpeg", None, None, "j7", ""),
             ("rId6", "../media/missing.png", None, None, "m", ""), ("rId9", None, None, None, "norel", "")],
        ],
        "truncated_sof": [[("rId3", "../media/image5.jpeg", None, None, "j5", "")]],
        "no_sof_negative_ext": [[("rId4", "../media/image6.jpeg", -1, 5, "j6", "")]],
        "no_images": [None, None],
    }
    for book, sheets in books.items():
        try:
            for doc in xx.read_xlsx(workbook_with_images(media, sheets), path="book.xlsx"):
                for img in doc.iterate_images():
                    data = img.get_bytes().read()
                    out.append(("image", book, hashlib.sha256(data).hexdigest()[:16], len(data), img.get_content_type(), repr(img.get_metadata()), img.get_caption(), img.get_description()))
                out.append(("units", book, [[hashlib.sha256(i.get_bytes().read()).hexdigest()[:8] for i in u.get_images()] for u in doc.iterate_units()]))
        except Exception as e:  # noqa: BLE001
            out.append(("EXC", book, type(e).__name__, str(e)))
    text = "\n".join(repr(o) for o in out)
    print(text)
    print("sha256", hashlib.sha256(text.encode("utf-8")).hexdigest())


if __name__ == "__main__":
    main()
