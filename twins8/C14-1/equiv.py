"""Differential script: PPTX relationship-target resolution and slide images."""
import hashlib
import io
import itertools
import os
import struct
import sys
import zipfile
import zlib

sys.path.insert(0, os.getcwd())

from sharepoint2text.parsing.extractors.ms_modern import pptx_extractor as px

A = "http://schemas.openxmlformats.org/drawingml/2006/main"
P = "http://schemas.openxmlformats.org/presentationml/2006/main"
R = "http://schemas.openxmlformats.org/officeDocument/2006/relationships"
PR = "http://schemas.openxmlformats.org/package/2006/relationships"
NSDECL = f'xmlns:a="{A}" xmlns:p="{P}" xmlns:r="{R}"'


def png(w, h, seed=0):
    def chunk(t, d):
        return struct.pack(">I", len(d)) + t + d + struct.pack(">I", zlib.crc32(t + d) & 0xFFFFFFFF)

    raw = b"".join(b"\x00" + bytes((seed + x + y) % 256 for x in range(w)) for y in range(h))
    return b"\x89PNG\r\n\x1a\n" + chunk(b"IHDR", struct.pack(">IIBBBBB", w, h, 8, 0, 0, 0, 0)) + chunk(b"IDAT", zlib.compress(raw)) + chunk(b"IEND", b"")


def gif(w, h):
    return b"GIF89a" + struct.pack("<HH", w, h) + b"\x00\x00\x00;"


def bmp(w, h):
    return b"BM" + struct.pack("<IHHI", 54, 0, 0, 54) + struct.pack("<IiiHHIIiiII", 40, w, h, 1, 24, 0, 0, 0, 0, 0, 0)


def jpeg(w, h):
    return b"\xff\xd8\xff\xe0\x00\x10JFIF\x00\x01\x01\x00\x00\x01\x00\x01\x00\x00" + b"\xff\xc0\x00\x11\x08" + struct.pack(">HH", h, w) + b"\x03\x01\x11\x00\x02\x11\x00\x03\x11\x00\xff\xd9"


def pic(rid, name="Pic", descr="", y=0):
    return (
        f'<p:pic><p:nvPicPr><p:cNvPr id="4" name="{name}" descr="{descr}"/><p:cNvPicPr/><p:nvPr/></p:nvPicPr>'
        f'<p:blipFill><a:blip r:embed="{rid}"/></p:blipFill>'
        f'<p:spPr><a:xfrm><a:off x="0" y="{y}"/><a:ext cx="1" cy="1"/></a:xfrm></p:spPr></p:pic>'
    )


def pptx(slides, media):
    """slides: list of (shapes_xml, [(rid, target, mode)]); media: {zip name: bytes}."""
    buf = io.BytesIO()
    with zipfile.ZipFile(buf, "w") as z:
        z.writestr("[Content_Types].xml", '<?xml version="1.0"?><Types xmlns="http://schemas.openxmlformats.org/package/2006/content-types"><Default Extension="xml" ContentType="application/xml"/></Types>')
        ids = "".join(f'<p:sldId id="{256 + i}" r:id="rId{i + 1}"/>' for i in range(len(slides)))
        z.writestr("ppt/presentation.xml", f'<?xml version="1.0"?><p:presentation {NSDECL}><p:sldIdLst>{ids}</p:sldIdLst></p:presentation>')
        rels = "".join(f'<Relationship Id="rId{i + 1}" Type="{R}/slide" Target="slides/slide{i + 1}.xml"/>' for i in range(len(slides)))
        z.writestr("ppt/_rels/presentation.xml.rels", f'<?xml version="1.0"?><Relationships xmlns="{PR}">{rels}</Relationships>')
        for i, (shapes, srels) in enumerate(slides):
            z.writestr(f"ppt/slides/slide{i + 1}.xml", f'<?xml version="1.0"?><p:sld {NSDECL}><p:cSld><p:spTree>{shapes}</p:spTree></p:cSld></p:sld>')
            body = "".join(
                f'<Relationship Id="{rid}" Type="{R}/image" Target="{target}"' + (f' TargetMode="{mode}"' if mode else "") + "/>"
                for rid, target, mode in srels
            )
            z.writestr(f"ppt/slides/_rels/slide{i + 1}.xml.rels", f'<?xml version="1.0"?><Relationships xmlns="{PR}">{body}</Relationships>')
        for name, data in media.items():
            z.writestr(name, data)
    buf.seek(0)
    return buf


def main():
    out = []
    bases = ["ppt/slides", "", "a", "a/b/c", "ppt//slides", "/abs/dir", ".."]
    targets = [
        "", "x.png", "media/x.png", "../media/image1.png", "../../media/x.png", "../../../../x.png",
        "/ppt/media/image1.png", "//ppt///media/x.png", "/", "/..", "/../ppt/media/../x.png", "/a/./b",
        "..", "../", "../..", "../a/../b.png", "a/../b.png", "a/..", "./x.png", "./../x.png", "a//b.png",
        "..x/y.png", "a/..b/c.png", "../ /x.png", "media/../../x.png", "../media//image1.png", "../media/image1.png/",
        "..\\media\\x.png", "http://example.com/../x.png",
    ]
    for b, t in itertools.product(bases, targets):
        try:
            out.append(("norm", b, t, px._normalize_relative_path(b, t)))
        except Exception as e:  # noqa: BLE001
            out.append(("norm", b, t, "EXC", type(e).__name__, str(e)))

    media = {
        "ppt/media/image1.png": png(3, 2, 1),
        "ppt/media/image2.jpeg": jpeg(17, 9),
        "ppt/media/image3.gif": gif(5, 6),
        "ppt/media/image4.bmp": bmp(7, -8),
        "ppt/slides/media/local.png": png(4, 4, 9),
        "ppt/slides/x.png": png(1, 1, 3),
        "media/root.png": png(2, 5, 7),
    }
    slides = [
        (pic("rId1", descr="first", y=10) + pic("rId2", y=20) + pic("rId1", name="again", y=30),
         [("rId1", "../media/image1.png", None), ("rId2", "/ppt/media/image2.jpeg", None)]),
        (pic("rId1", y=5) + pic("rId2", y=4) + pic("rId3", y=3) + pic("rId4", y=2) + pic("rId5", y=1) + pic("rId9", y=0),
         [("rId1", "media/local.png", None), ("rId2", "../media/image3.gif", None), ("rId3", "../media/missing.png", None),
          ("rId4", "http://example.com/ext.png", "External"), ("rId5", "../media/../media/image4.bmp", None)]),
        (pic("rId1") + pic("rId2", y=1) + pic("rId3", y=2) + pic("rId4", y=3),
         [("rId1", "../../media/root.png", None), ("rId2", "a/../x.png", None), ("rId3", "/../ppt/media/image1.png", None), ("rId4", "../../../../ppt/media/image1.png", None)]),
        ("", []),
    ]
    for doc in px.read_pptx(pptx(slides, media), path="deck.pptx"):
        for img in doc.iterate_images():
            out.append(("image", hashlib.sha256(img.get_bytes().read()).hexdigest()[:16], img.get_content_type(), repr(img.get_metadata())))
        out.append(("units", [[hashlib.sha256(i.get_bytes().read()).hexdigest()[:8] for i in u.get_images()] for u in doc.iterate_units()]))
        out.append(("text", doc.get_full_text()))
    text = "\n".join(repr(o) for o in out)
    print(text)
    print("sha256", hashlib.sha256(text.encode("utf-8")).hexdigest())


if __name__ == "__main__":
    main()
