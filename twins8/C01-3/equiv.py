import hashlib
import io
import os
import sys
import zipfile

sys.path.insert(0, os.getcwd())

from sharepoint2text.parsing.exceptions import ExtractionError  # noqa: E402
from sharepoint2text.parsing.extractors.ms_legacy import xls_extractor as xe  # noqa: E402

RES = os.path.join(os.getcwd(), "sharepoint2text", "tests", "resources", "legacy_ms")


def load(*parts):
    with open(os.path.join(RES, *parts), "rb") as fh:
        return fh.read()


mwe = load("mwe.xls")
img = load("xls_with_images.xls")
enc = load("password_protected", "xls-password-protected-pw123.xls")
ppt = load("slide_with_notes.ppt")
doc = load("headings.doc")

zbuf = io.BytesIO()
with zipfile.ZipFile(zbuf, "w") as zf:
    zf.writestr("xl/workbook.xml", "<workbook/>")


def flip(data, pos, mask=0xFF):
    b = bytearray(data)
    b[pos % len(b)] ^= mask
    return bytes(b)


INPUTS = {
    "mwe": mwe,
    "with_images": img,
    "encrypted": enc,
    "empty": b"",
    "one_byte": b"\xd0",
    "ole_magic_only": b"\xd0\xcf\x11\xe0\xa1\xb1\x1a\xe1",
    "ole_magic_zeros": b"\xd0\xcf\x11\xe0\xa1\xb1\x1a\xe1" + b"\x00" * 1024,
    "text": b"just some text, not a workbook\n" * 40,
    "zip_xlsx_like": zbuf.getvalue(),
    "ppt_as_xls": ppt,
    "doc_as_xls": doc,
    "mwe_trunc_512": mwe[:512],
    "mwe_trunc_half": mwe[: len(mwe) // 2],
    "mwe_trunc_tail": mwe[:-700],
    "mwe_header_flip": flip(mwe, 30),
    "mwe_fat_flip": flip(mwe, 0x4C),
    "mwe_mid_flip": flip(mwe, len(mwe) // 2),
    "mwe_zero_block": mwe[:2048] + b"\x00" * 2048 + mwe[4096:],
    "mwe_spliced_with_images": mwe[:4096] + img[4096:],
    "images_trunc": img[: len(img) * 3 // 4],
}
for i in range(8):
    INPUTS[f"mwe_flip_{i}"] = flip(mwe, 512 + i * 997, 0x55)


def digest(res):
    md = res.get_metadata()
    units = list(res.iterate_units())
    h = hashlib.sha256(res.get_full_text().encode("utf-8", "surrogatepass")).hexdigest()[:16]
    return (
        type(res).__name__,
        md.filename,
        md.file_extension,
        md.title,
        md.author,
        len(res.sheets),
        [s.name for s in res.sheets],
        len(res.images),
        [u.get_metadata().unit_number for u in units],
        len(res.get_full_text()),
        h,
    )


for name, data in INPUTS.items():
    for path in (None, "folder/book.xls"):
        stream = io.BytesIO(data)
        stream.seek(min(3, len(data)))  # the extractor must rewind itself
        try:
            results = [digest(r) for r in xe.read_xls(stream, path)]
            print(name, path, "OK", results)
        except ExtractionError as exc:
            cause = exc.__cause__
            print(name, path, "LIB", type(exc).__name__, str(exc), "| cause", type(cause).__name__ if cause else None)
        except BaseException as exc:  # noqa: BLE001
            print(name, path, "ESCAPED", type(exc).__name__, str(exc)[:120])

# generator protocol: lazy start, single result, exception thrown in by the consumer is wrapped
gen = xe.read_xls(io.BytesIO(b"garbage"), None)
print("lazy generator created", type(gen).__name__)
gen.close()
gen = xe.read_xls(io.BytesIO(mwe), None)
first = next(gen)
try:
    gen.throw(KeyError("from consumer"))
except BaseException as exc:  # noqa: BLE001
    print("throw ->", type(exc).__name__, str(exc), type(exc.__cause__).__name__)
gen = xe.read_xls(io.BytesIO(mwe), None)
next(gen)
print("second next ->", next(gen, "exhausted"))
