import datetime
import io
import os
import sys

sys.path.insert(0, os.getcwd())

import openpyxl  # noqa: E402

from sharepoint2text.parsing.extractors.ms_modern import xlsx_extractor as xx  # noqa: E402

ROW_SETS = {
    "empty": [],
    "one_empty_row": [[]],
    "empty_rows": [[], [], []],
    "single": [["x"]],
    "rect": [["h1", "h2", "h3"], [1, 2.0, 3.5], ["longer value", None, ""]],
    "ragged_short_first": [["a"], ["b", "cc", "ddd"], ["e", "ffff"]],
    "ragged_empty_middle": [["a", "b"], [], ["c", "d", "e"]],
    "floats": [[1.0, -0.0, 2.50, 1e20, 1e-7], [123456789.0, 0.1, -3.0, 2.0**53, 7]],
    "nan_first": [["ok", float("nan")], ["later", float("inf")]],
    "inf_only": [["ok", 1.0], ["later", float("-inf")]],
    "bools_dates": [[True, False, None], [datetime.datetime(2024, 1, 2, 3, 4, 5), datetime.date(2020, 2, 3), datetime.time(1, 2)]],
    "unicode": [["名前", "é", "\U0001F600"], ["a", "bb", "ccc"]],
    "newlines_tabs": [["line1\nline2", "tab\tbed"], ["x", " padded "]],
    "all_none": [[None, None], [None, None]],
    "wide": [[str(i) * (i % 5 + 1) for i in range(40)], [i for i in range(40)]],
    "dup": [["same", "same"], ["same", "same"]],
}

for name, rows in ROW_SETS.items():
    try:
        print(name, repr(xx._format_sheet_as_text(rows)))
    except Exception as exc:  # noqa: BLE001
        print(name, "EXC", type(exc).__name__, exc)


def workbook(sheets):
    wb = openpyxl.Workbook()
    wb.remove(wb.active)
    for title, rows in sheets:
        ws = wb.create_sheet(title)
        for row in rows:
            ws.append(row)
    buf = io.BytesIO()
    wb.save(buf)
    buf.seek(0)
    return buf


BOOKS = {
    "basic": [("Data", [["name", "qty", "price"], ["apple", 3, 1.5], ["kiwi", 10, 2.0]]), ("Empty", []), ("Second", [["only header"]])],
    "gaps": [("G", [[None, "b", None], [None, None, None], ["x", None, "zzzzzz"], [None, None, None]])],
    "types": [("T", [["h", "i"], [True, datetime.datetime(2024, 5, 6, 7, 8, 9)], [1.25, "=SUM(A1:A2)"], ["  ", 0]])],
    "unicode": [("Ünï", [["名前", "値"], ["东京", "😀"], ["a" * 30, "b"]])],
}
for name, sheets in BOOKS.items():
    try:
        for res in xx.read_xlsx(workbook(sheets), "book.xlsx"):
            print(name, "full", repr(res.get_full_text()))
            print(name, "units", [(u.get_metadata().unit_number, u.get_text()) for u in res.iterate_units()])
            print(name, "tables", [t.get_table() for t in res.iterate_tables()])
    except Exception as exc:  # noqa: BLE001
        print(name, "EXC", type(exc).__name__, exc)
