import datetime
import io
import os
import sys

sys.path.insert(0, os.getcwd())

from sharepoint2text.parsing.extractors.data_types import (  # noqa: E402
    XlsContent,
    XlsImage,
    XlsSheet,
)
from sharepoint2text.parsing.extractors.ms_legacy.xls_extractor import read_xls  # noqa: E402


def img(i):
    return XlsImage(image_index=i) if "image_index" in XlsImage.__dataclass_fields__ else XlsImage()


def describe(content):
    out = []
    for unit in content.iterate_units():
        md = unit.get_metadata()
        out.append(
            (
                md.unit_number,
                md.sheet_name,
                unit.get_text(),
                [(type(t).__name__, t.get_table(), (t.get_dim().rows, t.get_dim().columns)) for t in unit.get_tables()],
                len(unit.get_images()),
            )
        )
    return out


SHEETS = {
    "none": [],
    "one_empty": [XlsSheet(name="E", data=[], text="")],
    "one": [XlsSheet(name="S1", data=[{"a": 1, "b": "x"}, {"a": None, "b": 2.5}], text="  a b\n1 x  \n")],
    "three_with_empty_middle": [
        XlsSheet(name="First", data=[{"h": "v"}], text="h\nv"),
        XlsSheet(name="Blank", data=[], text="   \n"),
        XlsSheet(name="Third", data=[{"h": 3}], text="h\n3"),
    ],
    "mixed_types": [
        XlsSheet(
            name="T",
            data=[
                {"i": 1, "f": 1.0, "n": None, "b": True, "d": datetime.datetime(2024, 1, 2), "s": "", "z": 0},
                {"i": -1, "f": float("nan"), "n": None, "b": False, "d": datetime.date(2020, 1, 1), "s": " ", "z": 0.0},
            ],
            text="t",
        )
    ],
    "ragged_dicts": [XlsSheet(name="R", data=[{"a": 1, "b": 2}, {"a": 3}, {"c": 9, "a": 4}], text="r")],
    "header_none_values": [XlsSheet(name="N", data=[{None: 1, "": 2, 3: "three"}], text="n")],
    "same_names": [XlsSheet(name="Dup", data=[{"x": 1}], text="one"), XlsSheet(name="Dup", data=[{"x": 1}], text="one")],
    "unicode": [XlsSheet(name="Ünï 名", data=[{"名前": "値😀"}], text="名前\n値😀")],
    "empty_dict_rows": [XlsSheet(name="D", data=[{}, {}], text="")],
}

for name, sheets in SHEETS.items():
    for n_images in (0, 2):
        content = XlsContent(sheets=list(sheets), images=[img(i + 1) for i in range(n_images)], full_text="\n\n".join(s.text for s in sheets))
        try:
            print(name, n_images, describe(content))
            print("   full", repr(content.get_full_text()), "tables", [t.get_table() for t in content.iterate_tables()])
            again = describe(content)
            print("   repeatable", again == describe(content))
        except Exception as exc:  # noqa: BLE001
            print(name, n_images, "EXC", type(exc).__name__, exc)

# images list is copied per unit, tables are fresh objects
content = XlsContent(sheets=SHEETS["three_with_empty_middle"], images=[img(1)])
units = list(content.iterate_units())
print("image list identity", units[0].images is content.images, units[0].images == content.images, [len(u.images) for u in units])
print("lazy", type(content.iterate_units()).__name__)

# malformed sheet objects: the same exception at the same unit
for label, bad in (
    ("data_not_dicts", [XlsSheet(name="ok", data=[{"a": 1}], text="fine"), XlsSheet(name="bad", data=[[1, 2]], text="x")]),
    ("text_none", [XlsSheet(name="bad", data=[{"a": 1}], text=None)]),
    ("images_none_and_bad_data", [XlsSheet(name="bad", data=[[1]], text="x")]),
):
    content = XlsContent(sheets=bad, images=None if label.startswith("images_none") else [])
    got = []
    try:
        for unit in content.iterate_units():
            got.append(unit.get_metadata().unit_number)
        print(label, "OK", got)
    except Exception as exc:  # noqa: BLE001
        print(label, "after", got, "EXC", type(exc).__name__, exc)

RES = os.path.join(os.getcwd(), "sharepoint2text", "tests", "resources", "legacy_ms")
for fixture in ("mwe.xls", "xls_with_images.xls", "pb_2011_1_gen_web.xls"):
    with open(os.path.join(RES, fixture), "rb") as fh:
        data = fh.read()
    for res in read_xls(io.BytesIO(data), fixture):
        units = list(res.iterate_units())
        print(fixture, [(u.get_metadata().unit_number, u.get_metadata().sheet_name, len(u.get_text()), [t.get_dim() for t in u.get_tables()], len(u.get_images())) for u in units])
        print("   first table rows", [u.get_tables()[0].get_table()[:2] if u.get_tables() else None for u in units][:3])
