import io, os, re, sys, logging, tempfile, shutil

sys.path.insert(0, os.getcwd())


class _Capture(logging.Handler):
    def __init__(self):
        super().__init__(level=logging.WARNING)
        self.lines = []

    def emit(self, record):
        self.lines.append(f"{record.levelname}:{record.name}:{record.getMessage()}")


CAPTURE = _Capture()
_root_logger = logging.getLogger()
_root_logger.handlers[:] = [CAPTURE]
_root_logger.setLevel(logging.WARNING)


def drain_log():
    out, CAPTURE.lines = CAPTURE.lines, []
    return out

# ---- minimal independent 7z writer (in memory) ------------------------------
import lzma as _lzma, struct as _struct, zlib as _zlib


def _num(v):
    for extra in range(8):
        if v < (1 << (8 * extra + 7 - extra)):
            first = ((0xFF << (8 - extra)) & 0xFF) | (v >> (8 * extra))
            return bytes([first]) + (v & ((1 << (8 * extra)) - 1)).to_bytes(extra, "little")
    return b"\xff" + v.to_bytes(8, "little")


def _bits(flags):
    out = bytearray()
    cur, mask = 0, 0x80
    for f in flags:
        if f:
            cur |= mask
        mask >>= 1
        if mask == 0:
            out.append(cur)
            cur, mask = 0, 0x80
    if mask != 0x80:
        out.append(cur)
    return bytes(out)


def _pack(method, data):
    if method == "copy":
        return data, b"\x01\x00"
    if method == "lzma":
        raw = _lzma.compress(data, format=_lzma.FORMAT_ALONE,
                             filters=[{"id": _lzma.FILTER_LZMA1, "preset": 6}])
        return raw[13:], b"\x23\x03\x01\x01" + _num(5) + raw[:5]
    if method == "lzma2":
        raw = _lzma.compress(data, format=_lzma.FORMAT_RAW,
                             filters=[{"id": _lzma.FILTER_LZMA2, "dict_size": 1 << 20}])
        return raw, b"\x21\x21" + _num(1) + bytes([18])
    raise ValueError(method)


def make_7z(entries, method="copy", solid=True, tamper=None):
    """entries: list of (name, data) ; data None = directory, b'' = empty file."""
    with_data = [(n, d) for n, d in entries if d]
    groups = [with_data] if (solid and with_data) else [[e] for e in with_data]
    packed, folders, unpack = [], [], []
    for g in groups:
        blob = b"".join(d for _, d in g)
        p, coder = _pack(method, blob)
        packed.append(p)
        folders.append(b"\x01" + coder)
        unpack.append(len(blob))
    if tamper:
        packed = tamper(packed)
    h = bytearray(b"\x01")
    if groups:
        h += b"\x04"
        h += b"\x06" + _num(0) + _num(len(packed)) + b"\x09" + b"".join(_num(len(p)) for p in packed) + b"\x00"
        h += b"\x07\x0b" + _num(len(folders)) + b"\x00" + b"".join(folders)
        h += b"\x0c" + b"".join(_num(u) for u in unpack) + b"\x00"
        h += b"\x08\x0d" + b"".join(_num(len(g)) for g in groups)
        sizes = b"".join(_num(len(d)) for g in groups for _, d in g[:-1])
        if sizes:
            h += b"\x09" + sizes
        h += b"\x00\x00"
    h += b"\x05" + _num(len(entries))
    empty_stream = [not d for _, d in entries]
    if any(empty_stream):
        v = _bits(empty_stream)
        h += b"\x0e" + _num(len(v)) + v
        ef = _bits([d is not None for _, d in entries if not d])
        h += b"\x0f" + _num(len(ef)) + ef
    names = b"\x00" + b"".join(n.encode("utf-16-le") + b"\x00\x00" for n, _ in entries)
    h += b"\x11" + _num(len(names)) + names
    h += b"\x00\x00"
    body = b"".join(packed)
    start = _struct.pack("<QQI", len(body), len(h), _zlib.crc32(bytes(h)) & 0xFFFFFFFF)
    return (b"7z\xbc\xaf\x27\x1c\x00\x04" + _struct.pack("<I", _zlib.crc32(start) & 0xFFFFFFFF)
            + start + body + bytes(h))
# -----------------------------------------------------------------------------

from sharepoint2text.parsing.extractors.archive_extractor import read_archive
from sharepoint2text.parsing.extractors.util.sevenzip import SevenZipFile

ROOT = tempfile.mkdtemp(prefix="c09eq")
tempfile.tempdir = ROOT
CANARY = os.path.join(ROOT, "canary.txt")
with open(CANARY, "w") as fh:
    fh.write("HOST SECRET")


def show(value):
    text = repr(value).replace(ROOT, "<ROOT>")
    return re.sub(r"<ROOT>/tmp[a-z0-9_]{8}", "<ROOT>/<TMP>", text)


def tree(top):
    out = []
    for cur, dirs, files in os.walk(top):
        dirs.sort()
        rel = os.path.relpath(cur, top)
        for d in dirs:
            out.append(os.path.join(rel, d) + "/")
        for f in sorted(files):
            with open(os.path.join(cur, f), "rb") as fh:
                out.append((os.path.join(rel, f), fh.read()[:20]))
    return out


def extract(label, blob):
    target = os.path.join(ROOT, "out")
    os.mkdir(target)
    try:
        with SevenZipFile(io.BytesIO(blob), "r") as szf:
            szf.extractall(path=target)
        outcome = "ok"
    except Exception as exc:  # noqa: BLE001
        outcome = (type(exc).__name__, str(exc))
    print("extractall", label, "->", show(outcome))
    print("   tree:", show(tree(target)))
    shutil.rmtree(target)
    print("   temp root:", sorted(os.listdir(ROOT)))
    try:
        res = [(r.get_metadata().filename, r.get_metadata().file_path, r.get_full_text())
               for r in read_archive(io.BytesIO(blob), "h.7z")]
    except Exception as exc:  # noqa: BLE001
        res = (type(exc).__name__, str(exc))
    print("   read_archive:", show(res))
    for line in drain_log():
        print("   log", show(line))
    print("   temp root:", sorted(os.listdir(ROOT)))


BASIC = [("d", None), ("a.txt", b"alpha"), ("e.txt", b""), ("deep/er/e2.txt", b""), ("sub/b.txt", b"beta"),
         ("sub/deeper/c.md", b"# gamma"), ("d/e", None)]
for method in ("copy", "lzma", "lzma2"):
    for solid in (True, False):
        extract(f"basic {method} solid={solid}", make_7z(BASIC, method, solid))

HOSTILE = ["../canary.txt", CANARY, "/abs.txt", "C:\\x.txt", "\\x.txt", "sub/../../canary.txt", "sub/../ok2.txt",
           "a.txt/below.txt", "", ".", "sub/", "\u00e4/\U0001f600.txt", "y" * 300 + ".txt",
           "p/" + "q" * 300 + "/r.txt"]
for name in HOSTILE:
    # once as a member with data, once as a zero-length member
    extract("data " + show(name), make_7z([("a.txt", b"first"), (name, b"payload"), ("z.txt", b"last")], "copy", False))
    extract("empty " + show(name), make_7z([("a.txt", b"first"), (name, b""), ("z.txt", b"last")], "copy", True))

extract("only empty files", make_7z([("x/e1.txt", b""), ("e2.txt", b"")], "copy", True))
extract("nothing", make_7z([], "copy", True))

with open(CANARY) as fh:
    print("canary", fh.read())
print("left in temp root:", sorted(os.listdir(ROOT)))
shutil.rmtree(ROOT)
