"""Differential script: 7z extraction (member selection, temp directory, configuration)."""
import hashlib
import io
import logging
import os
import shutil
import struct
import sys
import tempfile
import zlib

sys.path.insert(0, os.getcwd())

from sharepoint2text.parsing.extractors import archive_extractor as ae  # noqa: E402

MAGIC = b"7z\xbc\xaf\x27\x1c"


def num(v):
    if v < 0x80:
        return bytes([v])
    if v < 0x4000:
        return bytes([0x80 | (v >> 8), v & 0xFF])
    return b"\xff" + struct.pack("<Q", v)


def bits(flags):
    out = bytearray((len(flags) + 7) // 8)
    for i, f in enumerate(flags):
        if f:
            out[i // 8] |= 0x80 >> (i % 8)
    return bytes(out)


def sevenzip(entries, coder=b"\x01\x00"):
    """entries: (name, bytes | None). None is a directory, b'' an empty file. Copy method, one folder."""
    streams = [d for _, d in entries if d]
    packed = b"".join(streams)
    header = b"\x01"
    if streams:
        header += b"\x04"
        header += b"\x06" + num(0) + num(1) + b"\x09" + num(len(packed)) + b"\x00"
        header += b"\x07\x0b" + num(1) + b"\x00" + num(1) + coder + b"\x0c" + num(len(packed)) + b"\x00"
        header += b"\x08\x0d" + num(len(streams))
        if len(streams) > 1:
            header += b"\x09" + b"".join(num(len(d)) for d in streams[:-1])
        header += b"\x00\x00"
    header += b"\x05" + num(len(entries))
    empty_stream = [not d for _, d in entries]
    if any(empty_stream):
        vec = bits(empty_stream)
        header += b"\x0e" + num(len(vec)) + vec
        empty_file = [d is not None for _, d in entries if not d]
        if any(empty_file):
            vec = bits(empty_file)
            header += b"\x0f" + num(len(vec)) + vec
    names = b"\x00" + b"".join(n.encode("utf-16-le") + b"\x00\x00" for n, _ in entries)
    header += b"\x11" + num(len(names)) + names
    header += b"\x00\x00"
    start = struct.pack("<QQI", len(packed), len(header), zlib.crc32(header) & 0xFFFFFFFF)
    return MAGIC + b"\x00\x04" + struct.pack("<I", zlib.crc32(start) & 0xFFFFFFFF) + start + packed + header


class Capture(logging.Handler):
    def __init__(self):
        super().__init__(level=logging.WARNING)
        self.records = []

    def emit(self, record):
        self.records.append((record.levelname, record.getMessage()))


def describe(result):
    meta = result.get_metadata()
    return (type(result).__name__, getattr(meta, "filename", None), getattr(meta, "folder_path", None), result.get_full_text())


def run(root, name, data, path="a.7z", take=None):
    before = sorted(os.listdir(root))
    got = []
    try:
        gen = ae.read_archive(io.BytesIO(data), path=path)
        for i, r in enumerate(gen):
            got.append(describe(r))
            if take is not None and i + 1 >= take:
                gen.close()
                break
    except Exception as e:  # noqa: BLE001
        got.append(("EXC", type(e).__name__, str(e)))
    return (name, got, "temp clean", sorted(os.listdir(root)) == before)


def main():
    root = tempfile.mkdtemp(prefix="equiv7z_")
    saved_tempdir = tempfile.tempdir
    tempfile.tempdir = root
    cap = Capture()
    logging.getLogger().addHandler(cap)
    out = []
    try:
        csv = b"a,b\n1,2\n"
        big = b"x" * 5000 + b"\n"
        nested = sevenzip([("inner.txt", b"inner")])
        cases = {
            "empty_archive": [],
            "one_txt": [("hello.txt", b"hello world")],
            "several": [("b.txt", b"second"), ("a.txt", b"first"), ("data.csv", csv), ("page.html", b"<html><body><p>para</p></body></html>")],
            "dirs_and_empty": [("dir", None), ("dir/in.txt", b"inside"), ("empty.txt", b""), ("dir/sub", None), ("dir/sub/deep.md", b"# deep")],
            "hidden_and_macos": [(".hidden.txt", b"h"), ("__MACOSX/x.txt", b"m"), ("dir/.DS_Store", b"d"), ("__MACOSX", None), ("ok.txt", b"ok")],
            "unsupported": [("prog.exe", b"MZ"), ("noext", b"n"), ("image.xyz", b"x"), ("ok.txt", b"ok")],
            "nested_archives": [("in.zip", b"PK\x05\x06" + bytes(18)), ("in.7z", nested), ("in.tar.gz", b"\x1f\x8b"), ("in.tgz", b"\x1f\x8b"), ("in.taz", b"z"), ("ok.txt", b"ok")],
            "too_large": [("small.txt", b"small"), ("big.txt", big), ("exact.txt", b"y" * 1000), ("over.txt", b"y" * 1001)],
            "traversal_names": [("../evil.txt", b"evil"), ("/abs.txt", b"abs"), ("a/../b.txt", b"b"), ("ok.txt", b"ok")],
            "unicode_names": [("ü/ä ö.txt", b"umlaut"), ("中文.txt", "中文".encode())],
            "broken_member": [("bad.docx", b"not a zip"), ("ok.txt", b"ok")],
            "duplicate_names": [("same.txt", b"one"), ("same.txt", b"two")],
        }
        for name, entries in cases.items():
            if name == "too_large":
                ae.configure_archive_extraction(max_memory_size=1000)
            try:
                out.append(run(root, name, sevenzip(entries)))
            finally:
                if name == "too_large":
                    ae.configure_archive_extraction(max_memory_size=ae.MAX_MEMORY_SIZE)
        out.append(("config restored", ae._config == ae.ArchiveConfig()))

        good = sevenzip(cases["several"])
        out.append(run(root, "abandoned_after_first", good, take=1))
        out.append(run(root, "no_path", good, path=None))
        out.append(run(root, "not_7z_magic", b"7z\xbc\xaf\x27\x1c" + bytes(40)))
        out.append(run(root, "truncated", good[:-5]))
        out.append(run(root, "bad_header_crc", good[:-1] + bytes([good[-1] ^ 1])))
        out.append(run(root, "only_signature", MAGIC))
        out.append(run(root, "aes_coder", sevenzip([("s.txt", b"secret")], coder=b"\x04\x06\xf1\x07\x01")))
        out.append(run(root, "unknown_coder", sevenzip([("s.txt", b"secret")], coder=b"\x03\x04\x01\x08")))
        out.append(run(root, "again_after_failures", good))

        real = ae.SevenZipFile.extractall

        def failing(self, path):
            with open(os.path.join(path, "partial.bin"), "wb") as fh:
                fh.write(b"partial")
            raise OSError("disk full")

        ae.SevenZipFile.extractall = failing
        try:
            out.append(run(root, "extractall_fails", good))
        finally:
            ae.SevenZipFile.extractall = real
        out.append(("warnings", cap.records))
        out.append(("caches", ae._is_supported_file_cached.cache_info().currsize > 0, ae._get_file_extractor_cached.cache_info().currsize > 0))
    finally:
        logging.getLogger().removeHandler(cap)
        tempfile.tempdir = saved_tempdir
        leftovers = sorted(os.listdir(root))
        shutil.rmtree(root, ignore_errors=True)
    out.append(("leftovers", leftovers))
    text = "\n".join(repr(o) for o in out)
    print(text)
    print("sha256", hashlib.sha256(text.encode("utf-8")).hexdigest())


if __name__ == "__main__":
    main()
