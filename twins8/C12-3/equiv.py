import io, os, re, sys, logging, tempfile, shutil

sys.path.insert(0, os.getcwd())


class _Capture(logging.Handler):
    def __init__(self):
        super().__init__(level=logging.WARNING)
        self.lines = []

    def emit(self, record):
        self.lines.append(f"{record.levelname}:{record.name}:{record.getMessage()}")


CAPTURE = _Capture()
_root_logger = logging.getLogger()
_root_logger.handlers[:] = [CAPTURE]
_root_logger.setLevel(logging.WARNING)


def drain_log():
    out, CAPTURE.lines = CAPTURE.lines, []
    return out

import tracemalloc
import zipfile

from sharepoint2text.parsing.extractors.open_office.ods_extractor import read_ods

NS = ('xmlns:office="urn:oasis:names:tc:opendocument:xmlns:office:1.0" '
      'xmlns:table="urn:oasis:names:tc:opendocument:xmlns:table:1.0" '
      'xmlns:text="urn:oasis:names:tc:opendocument:xmlns:text:1.0" '
      'xmlns:dc="http://purl.org/dc/elements/1.1/"')


def cell(value=None, repeat=None, kind="string", covered=False, note=None):
    tag = "table:covered-table-cell" if covered else "table:table-cell"
    attrs = ""
    if repeat is not None:
        attrs += f' table:number-columns-repeated="{repeat}"'
    if value is None:
        return f"<{tag}{attrs}/>" if note is None else f"<{tag}{attrs}><office:annotation><dc:creator>me</dc:creator><text:p>{note}</text:p></office:annotation></{tag}>"
    if kind == "float":
        attrs += f' office:value-type="float" office:value="{value}"'
    else:
        attrs += ' office:value-type="string"'
    inner = f"<text:p>{value}</text:p>"
    if note is not None:
        inner = f"<office:annotation><dc:creator>me</dc:creator><text:p>{note}</text:p></office:annotation>" + inner
    return f"<{tag}{attrs}>{inner}</{tag}>"


def row(cells, repeat=None):
    attrs = f' table:number-rows-repeated="{repeat}"' if repeat is not None else ""
    return f"<table:table-row{attrs}>{''.join(cells)}</table:table-row>"


def ods(rows, name="S"):
    content = (f'<?xml version="1.0" encoding="UTF-8"?><office:document-content {NS}><office:body><office:spreadsheet>'
               f'<table:table table:name="{name}"><table:table-column/>{"".join(rows)}</table:table></office:spreadsheet>'
               "</office:body></office:document-content>")
    buf = io.BytesIO()
    with zipfile.ZipFile(buf, "w", zipfile.ZIP_DEFLATED) as zf:
        zf.writestr("mimetype", "application/vnd.oasis.opendocument.spreadsheet")
        zf.writestr("content.xml", content)
    return buf.getvalue()


def summarize(data):
    shape = (len(data), sorted({len(r) for r in data}))
    flat = [v for r in data for v in r]
    filled = sum(1 for v in flat if v is not None)
    aliased = len({id(r) for r in data}) != len(data)
    return {"shape": shape, "filled": filled, "first": data[0][:6] if data else None,
            "last": data[-1][-3:] if data else None, "rows share one list": aliased}


def run(label, rows):
    blob = ods(rows)
    tracemalloc.start()
    try:
        out = []
        for content in read_ods(io.BytesIO(blob), "t.ods"):
            for sheet in content.sheets:
                text = sheet.text
                out.append((sheet.name, summarize(sheet.data), (len(text), text[:40], text[-15:]),
                            [(a.creator, a.text) for a in sheet.annotations][:4], len(sheet.annotations)))
    except BaseException as exc:  # noqa: BLE001
        out = (type(exc).__name__, str(exc)[:80], type(exc.__cause__).__name__)
    peak = tracemalloc.get_traced_memory()[1]
    tracemalloc.stop()
    print(label, f"[{len(blob)} bytes in, peak < 64 MiB: {peak < (64 << 20)}]", "->", out)
    for line in drain_log():
        print("   log", line)


print("== cell repeats")
for repeat in (None, 0, 1, 2, 99, 100, 101, 1000, 16384, -1, -200):
    run(f"empty cell x{repeat} then value", [row([cell("a"), cell(None, repeat), cell("z")])])
    run(f"value cell x{repeat}", [row([cell("v", repeat), cell("z")])])
    run(f"float cell x{repeat}", [row([cell("1.5", repeat, "float")])])
    run(f"covered cell x{repeat}", [row([cell("m"), cell(None, repeat, covered=True), cell("z")])])
run("annotated empty cell x500", [row([cell(None, 500, note="n1"), cell("z", note="n2")])])
run("trailing empty x1000", [row([cell("a"), cell(None, 1000)])])
run("only empty x1000", [row([cell(None, 1000)])])
run("value x200000", [row([cell("w", 200000)])])
for bad in ("", "x", "1.5", " 3 ", "1e3", "٣"):
    run(f"cell repeat {bad!r}", [row([cell("a", bad), cell("b")])])

print("== row repeats")
for repeat in (None, 0, 1, 2, 99, 100, 101, 1000, 65536, -1):
    run(f"empty row x{repeat} between values", [row([cell("top")]), row([cell(None, 3)], repeat), row([cell("bottom")])])
    run(f"value row x{repeat}", [row([cell("r"), cell("2", None, "float")], repeat), row([cell("end")])])
    run(f"row without cells x{repeat}", [row([cell("top")]), row([], repeat), row([cell("bottom")])])
run("value row x101 with empty tail", [row([cell("r"), cell(None, 500)], 101)])
run("empty rows only x5000", [row([cell(None, 50)], 5000)])
run("value row x100000", [row([cell("q")], 100000)])
for bad in ("", "x", "2.0", " 2 "):
    run(f"row repeat {bad!r}", [row([cell("a")], bad), row([cell("b")])])

print("== combined")
run("grid", [row([cell("h1"), cell("h2"), cell(None, 200), cell("far")]),
             row([cell(None, 2), cell("7", 3, "float")], 4),
             row([cell(None, 300)], 150),
             row([cell("x", 101), cell(None, 101), cell("y")], 2),
             row([cell(None, 1000)], 1000)])
