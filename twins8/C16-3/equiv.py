"""Differential script: .eml extraction, attachment payload decoding (read_eml_format_mail)."""
import base64
import hashlib
import io
import logging
import os
import quopri
import sys
import zipfile
from email.message import EmailMessage

sys.path.insert(0, os.getcwd())
logging.disable(logging.CRITICAL)

from sharepoint2text.parsing.extractors.mail import eml_email_extractor as em  # noqa: E402

HEAD = (
    b"From: =?utf-8?B?SsO2cmc=?= <j@example.com>\r\nTo: \"Doe, Jane\" <jane@example.com>, bob@example.com\r\n"
    b"Cc: c@example.com\r\nSubject: =?iso-8859-1?Q?Gr=FC=DFe?= and more\r\nDate: Mon, 01 Jan 2024 10:00:00 +0200\r\n"
    b"Message-ID: <m1@example.com>\r\nIn-Reply-To: <m0@example.com>\r\nReply-To: Reply <reply@example.com>\r\nMIME-Version: 1.0\r\n"
)


def part(content_type, body, cte=None, disposition=None, extra=b""):
    h = b"Content-Type: " + content_type.encode() + b"\r\n"
    if cte:
        h += b"Content-Transfer-Encoding: " + cte.encode() + b"\r\n"
    if disposition:
        h += b"Content-Disposition: " + disposition.encode() + b"\r\n"
    return h + extra + b"\r\n" + body


def mixed(parts, boundary="BOUND", subtype="mixed"):
    body = b"".join(b"--" + boundary.encode() + b"\r\n" + p + b"\r\n" for p in parts) + b"--" + boundary.encode() + b"--\r\n"
    return HEAD + f'Content-Type: multipart/{subtype}; boundary="{boundary}"\r\n\r\n'.encode() + body


def b64(b):
    return base64.encodebytes(b).replace(b"\n", b"\r\n")


def docx_bytes(text):
    w = "http://schemas.openxmlformats.org/wordprocessingml/2006/main"
    buf = io.BytesIO()
    with zipfile.ZipFile(buf, "w") as z:
        # fixed member dates: the archive bytes must not depend on the clock
        z.writestr(zipfile.ZipInfo("[Content_Types].xml", (2024, 1, 1, 0, 0, 0)), '<?xml version="1.0"?><Types xmlns="http://schemas.openxmlformats.org/package/2006/content-types"><Default Extension="xml" ContentType="application/xml"/></Types>')
        z.writestr(zipfile.ZipInfo("word/document.xml", (2024, 1, 1, 0, 0, 0)), f'<?xml version="1.0"?><w:document xmlns:w="{w}"><w:body><w:p><w:r><w:t>{text}</w:t></w:r></w:p></w:body></w:document>')
    return buf.getvalue()


def build_cases():
    c = {}
    text = part("text/plain; charset=utf-8", "body ü\r\n".encode(), "8bit")
    binary = bytes(range(256)) * 3
    c["no_attachment"] = mixed([text])
    c["binary_base64"] = mixed([text, part("application/octet-stream", b64(binary), "base64", 'attachment; filename="blob.bin"')])
    c["png_inline_cid"] = mixed([text, part('image/png; name="p.png"', b64(b"\x89PNG\r\n\x1a\n" + bytes(40)), "base64", 'inline; filename="p.png"', b"Content-ID: <img1>\r\n")], subtype="related")
    c["text_7bit"] = mixed([text, part("text/plain; charset=us-ascii", b"plain attachment\r\nline 2\r\n", "7bit", 'attachment; filename="a.txt"')])
    c["text_utf8_8bit"] = mixed([text, part("text/plain; charset=utf-8", "ünïcödé attachment €\r\n".encode(), "8bit", 'attachment; filename="u.txt"')])
    c["text_latin1_qp"] = mixed([text, part("text/plain; charset=iso-8859-1", quopri.encodestring("Grüße aus Köln\r\n".encode("latin-1")), "quoted-printable", 'attachment; filename="l.txt"')])
    c["text_base64"] = mixed([text, part("text/csv; charset=utf-8", b64("a;b\r\n1;ü\r\n".encode()), "base64", 'attachment; filename="t.csv"')])
    c["html_attachment"] = mixed([text, part("text/html", b"<html><body><p>attached page</p></body></html>", None, 'attachment; filename="page.html"')])
    c["empty_attachment"] = mixed([text, part("application/octet-stream", b"", "base64", 'attachment; filename="empty.bin"'), part("text/plain", b"", None, 'attachment; filename="empty.txt"')])
    c["no_filename"] = mixed([text, part("application/pdf", b64(b"%PDF-1.4\n%%EOF\n"), "base64", "attachment")])
    c["rfc2231_filename"] = mixed([text, part("application/octet-stream", b64(b"x"), "base64", "attachment; filename*=UTF-8''%C3%BCber%20uns.bin")])
    c["rfc2047_filename"] = mixed([text, part("application/octet-stream", b64(b"y"), "base64", 'attachment; filename="=?utf-8?B?w7xiZXIuYmlu?="')])
    c["bad_base64"] = mixed([text, part("application/octet-stream", b"@@@ not base64 @@@\r\n", "base64", 'attachment; filename="bad.bin"')])
    c["docx_supported"] = mixed([text, part("application/vnd.openxmlformats-officedocument.wordprocessingml.document", b64(docx_bytes("inside the attached docx")), "base64", 'attachment; filename="doc.docx"')])
    c["docx_wrong_mime"] = mixed([text, part("application/octet-stream", b64(docx_bytes("octet stream docx")), "base64", 'attachment; filename="doc2.docx"')])
    c["several"] = mixed([text, part("text/plain", b"one", None, 'attachment; filename="1.txt"'), part("application/zip", b64(b"PK\x05\x06" + bytes(18)), "base64", 'attachment; filename="z.zip"'), part("text/plain", b"three", None, 'attachment; filename="3.txt"')])
    inner = HEAD + b"Content-Type: text/plain\r\n\r\nforwarded body\r\n"
    c["message_rfc822"] = mixed([text, part("message/rfc822", inner, None, 'attachment; filename="fwd.eml"')])
    c["uuencoded"] = mixed([text, part("application/octet-stream", b"begin 644 u.bin\r\n#8F%R\r\n`\r\nend\r\n", "x-uuencode", 'attachment; filename="u.bin"')])
    c["single_part_only"] = HEAD + b"Content-Type: text/html; charset=utf-8\r\n\r\n<p>only html</p>\r\n"
    c["no_from"] = b"To: x@example.com\r\nSubject: nobody\r\n\r\nbody\r\n"
    c["empty_input"] = b""
    m = EmailMessage()
    m["From"] = "Ana María <ana@example.com>"
    m["To"] = "x@example.com, Y <y@example.com>"
    m["Bcc"] = "hidden@example.com"
    m["Subject"] = "stdlib message with attachments ü"
    m["Date"] = "Tue, 02 Jan 2024 11:00:00 -0500"
    m.set_content("plain ü")
    m.add_alternative("<p>html ü</p>", subtype="html")
    m.add_attachment(binary, maintype="application", subtype="octet-stream", filename="b.bin")
    m.add_attachment("text attachment ü " * 20, filename="t.txt")
    m.add_attachment("a,b\n1,2\n".encode(), maintype="text", subtype="csv", filename="d.csv")
    c["stdlib_generated"] = m.as_bytes()
    return c


def show(r, random_names=False):
    atts = []
    for a in r.attachments:
        data = a.data.getvalue()
        # mailparser invents a random name for a part without one
        shown_name = ("<random>", len(a.filename), os.path.splitext(a.filename)[1]) if random_names else a.filename
        atts.append((shown_name, a.mime_type, a.is_supported_mime_type, len(data), hashlib.sha256(data).hexdigest()[:12], a.data.tell()))
    supported = []
    try:
        for s in r.iterate_supported_attachments():
            supported.append((type(s).__name__, s.get_full_text()[:80]))
    except Exception as e:  # noqa: BLE001
        supported.append(("EXC", type(e).__name__, str(e)))
    return (
        r.subject, repr(r.from_email), [repr(a) for a in r.to_emails], [repr(a) for a in r.to_cc], [repr(a) for a in r.to_bcc], [repr(a) for a in r.reply_to],
        r.in_reply_to, r.metadata.date, r.metadata.message_id, r.metadata.filename, r.body_plain, r.body_html, atts, supported,
    )


def main():
    out = []
    for name, data in build_cases().items():
        try:
            results = list(em.read_eml_format_mail(io.BytesIO(data), path="mails/m.eml"))
            out.append((name, len(results), [show(r, random_names=(name == "no_filename")) for r in results]))
        except Exception as e:  # noqa: BLE001
            out.append((name, "EXC", type(e).__name__, str(e)))
    text = "\n".join(repr(o) for o in out)
    print(text)
    print("sha256", hashlib.sha256(text.encode("utf-8", "backslashreplace")).hexdigest())


if __name__ == "__main__":
    main()
