import io, os, sys, logging, tempfile, shutil

sys.path.insert(0, os.getcwd())
logging.disable(logging.CRITICAL)

# ---- minimal independent 7z writer (in memory) ------------------------------
import lzma as _lzma, struct as _struct, zlib as _zlib


def _num(v):
    for extra in range(8):
        if v < (1 << (8 * extra + 7 - extra)):
            first = ((0xFF << (8 - extra)) & 0xFF) | (v >> (8 * extra))
            return bytes([first]) + (v & ((1 << (8 * extra)) - 1)).to_bytes(extra, "little")
    return b"\xff" + v.to_bytes(8, "little")


def _bits(flags):
    out = bytearray()
    cur, mask = 0, 0x80
    for f in flags:
        if f:
            cur |= mask
        mask >>= 1
        if mask == 0:
            out.append(cur)
            cur, mask = 0, 0x80
    if mask != 0x80:
        out.append(cur)
    return bytes(out)


def _pack(method, data):
    if method == "copy":
        return data, b"\x01\x00"
    if method == "lzma":
        raw = _lzma.compress(data, format=_lzma.FORMAT_ALONE,
                             filters=[{"id": _lzma.FILTER_LZMA1, "preset": 6}])
        return raw[13:], b"\x23\x03\x01\x01" + _num(5) + raw[:5]
    if method == "lzma2":
        raw = _lzma.compress(data, format=_lzma.FORMAT_RAW,
                             filters=[{"id": _lzma.FILTER_LZMA2, "dict_size": 1 << 20}])
        return raw, b"\x21\x21" + _num(1) + bytes([18])
    raise ValueError(method)


def make_7z(entries, method="copy", solid=True, tamper=None):
    """entries: list of (name, data) ; data None = directory, b'' = empty file."""
    with_data = [(n, d) for n, d in entries if d]
    groups = [with_data] if (solid and with_data) else [[e] for e in with_data]
    packed, folders, unpack = [], [], []
    for g in groups:
        blob = b"".join(d for _, d in g)
        p, coder = _pack(method, blob)
        packed.append(p)
        folders.append(b"\x01" + coder)
        unpack.append(len(blob))
    if tamper:
        packed = tamper(packed)
    h = bytearray(b"\x01")
    if groups:
        h += b"\x04"
        h += b"\x06" + _num(0) + _num(len(packed)) + b"\x09" + b"".join(_num(len(p)) for p in packed) + b"\x00"
        h += b"\x07\x0b" + _num(len(folders)) + b"\x00" + b"".join(folders)
        h += b"\x0c" + b"".join(_num(u) for u in unpack) + b"\x00"
        h += b"\x08\x0d" + b"".join(_num(len(g)) for g in groups)
        sizes = b"".join(_num(len(d)) for g in groups for _, d in g[:-1])
        if sizes:
            h += b"\x09" + sizes
        h += b"\x00\x00"
    h += b"\x05" + _num(len(entries))
    empty_stream = [not d for _, d in entries]
    if any(empty_stream):
        v = _bits(empty_stream)
        h += b"\x0e" + _num(len(v)) + v
        ef = _bits([d is not None for _, d in entries if not d])
        h += b"\x0f" + _num(len(ef)) + ef
    names = b"\x00" + b"".join(n.encode("utf-16-le") + b"\x00\x00" for n, _ in entries)
    h += b"\x11" + _num(len(names)) + names
    h += b"\x00\x00"
    body = b"".join(packed)
    start = _struct.pack("<QQI", len(body), len(h), _zlib.crc32(bytes(h)) & 0xFFFFFFFF)
    return (b"7z\xbc\xaf\x27\x1c\x00\x04" + _struct.pack("<I", _zlib.crc32(start) & 0xFFFFFFFF)
            + start + body + bytes(h))
# -----------------------------------------------------------------------------

from sharepoint2text.parsing.extractors.archive_extractor import read_archive
from sharepoint2text.parsing.extractors.util.sevenzip import Bad7zFile, _safe_join

ROOT = tempfile.mkdtemp(prefix="c09eq")
tempfile.tempdir = ROOT
BASE = os.path.join(ROOT, "base")
os.mkdir(BASE)
CANARY = os.path.join(ROOT, "canary.txt")
with open(CANARY, "w") as fh:
    fh.write("HOST SECRET")


def show(value):
    import re

    return re.sub(r"<ROOT>/tmp[a-z0-9_]{8}", "<ROOT>/<TMP>", repr(value).replace(ROOT, "<ROOT>"))


NAMES = [
    "", "a.txt", "sub/a.txt", "./a.txt", "sub/../a.txt", "..", "../x.txt", "sub/../../x.txt",
    "/etc/passwd", "//x", "\\x.txt", "\\\\srv\\share\\x.txt", "C:\\x.txt", "C:x.txt", "c:/x.txt",
    ".", "./", "a/./b/../c.txt", "a\\..\\..\\b.txt", "..hidden", "...", "sub/..", "sub/../",
    "\u00e4\u00f6/\U0001f600.txt", "x" * 300 + ".txt", " ", "a//b.txt", CANARY, "../canary.txt",
    "base/../../canary.txt", "~/x.txt", "nul\x00.txt",
]

print("== _safe_join")
for base in (BASE, BASE + os.sep, os.path.join(BASE, "..", "base"), "relbase"):
    for name in NAMES:
        try:
            out = ("ok", _safe_join(base, name).replace(os.getcwd(), "<CWD>"))
        except Bad7zFile as exc:
            out = ("Bad7zFile", str(exc))
        except Exception as exc:  # noqa: BLE001
            out = (type(exc).__name__, str(exc))
        print(show((base, name)), "->", show(out))

print("== read_archive over hostile 7z member names")
for method, solid in (("copy", True), ("lzma2", False)):
    for name in NAMES[1:]:
        if "\x00" in name:
            continue
        members = [("ok.txt", b"first"), (name if name.endswith(".txt") else name + ".txt", b"payload"), ("z.txt", b"last")]
        blob = make_7z(members, method, solid)
        try:
            res = [(r.get_metadata().filename, r.get_metadata().file_path, r.get_full_text())
                   for r in read_archive(io.BytesIO(blob), "h.7z")]
        except Exception as exc:  # noqa: BLE001
            res = (type(exc).__name__, str(exc))
        print(method, solid, show(name), "->", show(res))

with open(CANARY) as fh:
    print("canary", fh.read())
print("left in temp root:", sorted(os.listdir(ROOT)), sorted(os.listdir(BASE)))
shutil.rmtree(ROOT)
