import dataclasses
import io
import os
import sys
import zipfile

sys.path.insert(0, os.getcwd())

from sharepoint2text.parsing.extractors import epub_extractor as ex  # noqa: E402

CONTAINER = (
    '<?xml version="1.0"?><container version="1.0" xmlns="urn:oasis:names:tc:opendocument:xmlns:container">'
    '<rootfiles><rootfile full-path="OEBPS/content.opf" media-type="application/oebps-package+xml"/></rootfiles></container>'
)
CHAPTER = (
    '<?xml version="1.0"?><html xmlns="http://www.w3.org/1999/xhtml"><head><title>c</title></head>'
    "<body><h1>Chapter</h1><p>Body text.</p></body></html>"
)
OPF_NS = 'xmlns="http://www.idpf.org/2007/opf" xmlns:dc="http://purl.org/dc/elements/1.1/"'
REST = (
    '<manifest><item id="c1" href="c1.xhtml" media-type="application/xhtml+xml"/></manifest>'
    '<spine><itemref idref="c1"/></spine>'
)


def opf(metadata_xml, package_attrs='version="3.0"', ns=OPF_NS, tag="package"):
    return f'<?xml version="1.0" encoding="UTF-8"?><{tag} {ns} {package_attrs}>{metadata_xml}{REST}</{tag}>'


def epub(opf_xml):
    buf = io.BytesIO()
    with zipfile.ZipFile(buf, "w") as zf:
        zf.writestr("mimetype", "application/epub+zip")
        zf.writestr("META-INF/container.xml", CONTAINER)
        zf.writestr("OEBPS/content.opf", opf_xml)
        zf.writestr("OEBPS/c1.xhtml", CHAPTER)
    buf.seek(0)
    return buf


FULL = (
    "<metadata><dc:title>  The Title é中😀 </dc:title><dc:creator>Author One</dc:creator><dc:creator> Author Two </dc:creator>"
    "<dc:language>en-GB</dc:language><dc:identifier>urn:uuid:1234</dc:identifier><dc:identifier>second-id</dc:identifier>"
    "<dc:publisher>Pub</dc:publisher><dc:date>2024-01-02</dc:date><dc:description>Line1\nLine2</dc:description>"
    "<dc:subject>S1</dc:subject><dc:subject/><dc:subject>  </dc:subject><dc:subject>S2</dc:subject>"
    "<dc:rights>(c) me</dc:rights><dc:contributor>C1</dc:contributor><dc:contributor>C2</dc:contributor></metadata>"
)
CASES = {
    "full": opf(FULL),
    "epub2": opf(FULL, package_attrs='version="2.0" unique-identifier="id"'),
    "no_version": opf(FULL, package_attrs=""),
    "empty_metadata": opf("<metadata/>"),
    "no_metadata": opf(""),
    "empty_elements": opf("<metadata><dc:title/><dc:creator/><dc:language></dc:language><dc:description> </dc:description></metadata>"),
    "title_with_child": opf("<metadata><dc:title>Head<span xmlns=''>child</span>tail</dc:title><dc:creator><x xmlns=''>only child</x></dc:creator></metadata>"),
    "first_empty_second_full": opf("<metadata><dc:title/><dc:title>Second title</dc:title><dc:creator/><dc:creator>Real</dc:creator></metadata>"),
    "metadata_other_ns": opf("<metadata xmlns='urn:other'><dc:title>Other ns title</dc:title><dc:creator>Other ns creator</dc:creator></metadata>"),
    "metadata_no_ns": f'<?xml version="1.0"?><package version="2.0" xmlns:dc="http://purl.org/dc/elements/1.1/"><metadata><dc:title>No ns</dc:title><dc:subject>a</dc:subject><dc:subject>b</dc:subject></metadata>{REST}</package>',
    "nested_dc_metadata": opf("<metadata><dc-metadata xmlns=''><dc:title>Nested</dc:title></dc-metadata><dc:rights>direct</dc:rights></metadata>"),
    "entities": opf("<metadata><dc:title>a &amp; b &lt;c&gt; &#65;</dc:title><dc:creator>x, y</dc:creator><dc:creator>z</dc:creator></metadata>"),
    "wrong_dc_ns": opf("<metadata><dc:title>wrong</dc:title></metadata>", ns='xmlns="http://www.idpf.org/2007/opf" xmlns:dc="urn:not-dc"'),
    "root_not_package": opf(FULL, tag="pkg"),
}

for name, opf_xml in CASES.items():
    for path in (None, "lib/book.epub"):
        try:
            for res in ex.read_epub(epub(opf_xml), path):
                d = dataclasses.asdict(res.get_metadata())
                d.pop("file_path", None)
                d.pop("folder_path", None)
                print(name, path, sorted((k, v) for k, v in d.items()))
                print("   text", repr(res.get_full_text()[:60]), [u.get_metadata().unit_number for u in res.iterate_units()])
        except Exception as exc:  # noqa: BLE001
            print(name, path, "EXC", type(exc).__name__, exc)

print("closures gone / still private:", sorted(n for n in dir(ex) if n.startswith("read_")))
