import io, os, re, sys, logging, tempfile, shutil

sys.path.insert(0, os.getcwd())


class _Capture(logging.Handler):
    def __init__(self):
        super().__init__(level=logging.WARNING)
        self.lines = []

    def emit(self, record):
        self.lines.append(f"{record.levelname}:{record.name}:{record.getMessage()}")


CAPTURE = _Capture()
_root_logger = logging.getLogger()
_root_logger.handlers[:] = [CAPTURE]
_root_logger.setLevel(logging.WARNING)


def drain_log():
    out, CAPTURE.lines = CAPTURE.lines, []
    return out

import tarfile
import zipfile

from sharepoint2text.parsing.extractors import archive_extractor
from sharepoint2text.parsing.extractors.archive_extractor import read_archive


def rows(results):
    return [(r.get_metadata().filename, r.get_metadata().file_path, type(r).__name__, r.get_full_text()[:40])
            for r in results]


def run(label, blob, path="t.tar", consumer="exhaust"):
    try:
        gen = read_archive(io.BytesIO(blob), path)
        if consumer == "exhaust":
            out = rows(gen)
        else:
            out = rows([next(gen), next(gen)])
            gen.close()
    except Exception as exc:  # noqa: BLE001
        out = (type(exc).__name__, str(exc), type(exc.__cause__).__name__)
    print(label, consumer, "->", repr(out))
    for line in drain_log():
        print("   log", line)


def make_tar(members, mode="w", fmt=tarfile.PAX_FORMAT):
    buf = io.BytesIO()
    with tarfile.open(fileobj=buf, mode=mode, format=fmt) as tf:
        for name, kind, data in members:
            info = tarfile.TarInfo(name)
            info.mtime = 0
            if kind == "file":
                info.size = len(data)
                tf.addfile(info, io.BytesIO(data))
            else:
                info.type = {"dir": tarfile.DIRTYPE, "sym": tarfile.SYMTYPE, "lnk": tarfile.LNKTYPE,
                             "chr": tarfile.CHRTYPE, "fifo": tarfile.FIFOTYPE}[kind]
                if kind in ("sym", "lnk"):
                    info.linkname = data
                tf.addfile(info)
    return buf.getvalue()


def tiny_zip():
    buf = io.BytesIO()
    with zipfile.ZipFile(buf, "w") as zf:
        zf.writestr("inner.txt", "inner")
    return buf.getvalue()


MEMBERS = [
    ("docs", "dir", None),
    ("docs/a.txt", "file", b"alpha"),
    ("docs/empty.txt", "file", b""),
    ("link.txt", "sym", "/etc/hostname"),
    ("hard.txt", "lnk", "docs/a.txt"),
    ("dev.txt", "chr", None),
    ("pipe.txt", "fifo", None),
    (".hidden.txt", "file", b"hidden"),
    ("docs/.also.txt", "file", b"hidden"),
    ("__MACOSX/res.txt", "file", b"fork"),
    ("nested.zip", "file", tiny_zip()),
    ("nested.tar.gz", "file", b"\x1f\x8b junk"),
    ("blob.bin", "file", b"\x00\x01"),
    ("docs/b.md", "file", b"# beta\n\ntext"),
    ("broken.docx", "file", b"this is not a zip"),
    ("big.txt", "file", b"x" * 5000),
    ("data.csv", "file", b"a,b\n1,2\n"),
    ("../up.txt", "file", b"dotdot"),
    ("/abs.txt", "file", b"absolute"),
    ("docs/a.txt", "file", b"alpha again"),
    ("üñî/文.txt", "file", "文字".encode()),
    ("z.json", "file", b'{"k": [1, 2]}'),
]

archive_extractor.configure_archive_extraction(max_memory_size=4096)

for mode, path in (("w", "t.tar"), ("w:gz", "t.tar.gz"), ("w:bz2", "t.tar.bz2"), ("w:xz", "t.tar.xz")):
    blob = make_tar(MEMBERS, mode)
    run(f"all kinds {mode}", blob, path)
    run(f"all kinds {mode}", blob, path, "two")

run("ustar format", make_tar(MEMBERS[:8], "w", tarfile.USTAR_FORMAT))
run("gnu format", make_tar(MEMBERS, "w", tarfile.GNU_FORMAT))
run("no members", make_tar([], "w"))
run("dirs only", make_tar([("d", "dir", None), ("d/e", "dir", None)], "w"))
run("only skipped", make_tar([(".x.txt", "file", b"1"), ("y.bin", "file", b"2")], "w:gz"), "s.tgz")

plain = make_tar(MEMBERS, "w")
for cut in (300, 700, 1536, 2048, len(plain) // 2):
    run(f"truncated at {cut}", plain[:cut])
gz = make_tar(MEMBERS, "w:gz")
run("truncated gz", gz[: len(gz) // 2], "t.tar.gz")
flipped = bytearray(plain)
flipped[512 + 148] ^= 0xFF  # header checksum of the second member
run("bad checksum", bytes(flipped))

# member order is archive order, also after a member that fails
for first in range(3):
    order = MEMBERS[first::3] + MEMBERS[:first]
    run(f"rotation {first}", make_tar([m for m in order if m[1] == "file"], "w"))
