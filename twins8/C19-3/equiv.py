"""Differential script for C19 (OMML -> LaTeX: total, ordered, balanced)."""
import hashlib
import itertools
import logging
import os
import random
import sys
from xml.etree import ElementTree as ET

sys.path.insert(0, os.getcwd())
logging.disable(logging.CRITICAL)

from sharepoint2text.parsing.extractors.ms_modern import docx_extractor, pptx_extractor
from sharepoint2text.parsing.extractors.util import omml_to_latex as mod
from sharepoint2text.parsing.extractors.util.omml_to_latex import (
    GREEK_TO_LATEX,
    convert_greek_and_symbols,
    omml_to_latex,
)

M = "http://schemas.openxmlformats.org/officeDocument/2006/math"
W = "http://schemas.openxmlformats.org/wordprocessingml/2006/main"
A = "http://schemas.openxmlformats.org/drawingml/2006/main"
HEAD = f'xmlns:m="{M}" xmlns:w="{W}" xmlns:a="{A}"'


def run(text):
    return f"<m:r><m:rPr><m:sty m:val='p'/></m:rPr><m:t>{text}</m:t></m:r>"


def arg(tag, inner):
    return f"<m:{tag}>{inner}</m:{tag}>"


LEAVES = ["x", "", "(", "[", "{", "a)b", "]", "α+∞", "∑", " ( "]


def structures(e1, e2, e3):
    """Every structural element of the converter, optional children present and absent."""
    return [
        f"<m:f><m:fPr/>{arg('num', e1)}{arg('den', e2)}</m:f>",
        f"<m:f>{arg('den', e2)}</m:f>",
        f"<m:sSup>{arg('e', e1)}{arg('sup', e2)}</m:sSup>",
        f"<m:sSub>{arg('e', e1)}{arg('sub', e2)}</m:sSub>",
        f"<m:sSub>{arg('sub', e2)}</m:sSub>",
        f"<m:sSubSup>{arg('e', e1)}{arg('sub', e2)}{arg('sup', e3)}</m:sSubSup>",
        f"<m:rad><m:radPr><m:degHide m:val='1'/></m:radPr><m:deg/>{arg('e', e1)}</m:rad>",
        f"<m:rad>{arg('deg', e2)}{arg('e', e1)}</m:rad>",
        f"<m:rad>{arg('deg', e2)}</m:rad>",
        f"<m:nary><m:naryPr><m:chr m:val='∑'/></m:naryPr>{arg('sub', e1)}{arg('sup', e2)}{arg('e', e3)}</m:nary>",
        f"<m:nary><m:naryPr><m:chr/></m:naryPr>{arg('e', e3)}</m:nary>",
        f"<m:nary>{arg('sub', e1)}{arg('e', e3)}</m:nary>",
        f"<m:nary><m:naryPr><m:chr m:val='∮'/></m:naryPr>{arg('sup', e2)}</m:nary>",
        f"<m:nary><m:naryPr><m:chr m:val='∬'/></m:naryPr>{arg('e', '<m:acc><m:accPr><m:chr m:val=\"̃\"/></m:accPr>' + arg('e', e1) + '</m:acc>')}</m:nary>",
        f"<m:d><m:dPr><m:begChr m:val='['/><m:endChr m:val=']'/></m:dPr>{arg('e', e1)}{arg('e', e2)}</m:d>",
        f"<m:d><m:dPr><m:begChr/><m:endChr m:val=''/></m:dPr>{arg('e', e1)}</m:d>",
        f"<m:d>{arg('e', e1)}</m:d>",
        "<m:d/>",
        f"<m:m><m:mPr/><m:mr>{arg('e', e1)}{arg('e', e2)}</m:mr><m:mr>{arg('e', e3)}</m:mr></m:m>",
        f"<m:m>{arg('e', e1)}</m:m>",
        f"<m:func><m:fName>{run('sin')}</m:fName>{arg('e', e1)}</m:func>",
        f"<m:func><m:fName>{run(' lim ')}</m:fName>{arg('e', e1)}</m:func>",
        f"<m:func><m:fName>{e2}</m:fName></m:func>",
        f"<m:bar><m:barPr/>{arg('e', e1)}</m:bar>",
        "<m:bar/>",
        f"<m:acc><m:accPr><m:chr m:val='⃗'/></m:accPr>{arg('e', e1)}</m:acc>",
        f"<m:acc><m:accPr><m:chr/></m:accPr>{arg('e', e1)}</m:acc>",
        f"<m:acc><m:accPr><m:chr m:val='?'/></m:accPr>{arg('e', e1)}</m:acc>",
        f"<m:acc>{arg('e', e1)}</m:acc>",
        f"<m:box>{arg('e', e1)}</m:box><m:limLow>{arg('e', e1)}{arg('lim', e2)}</m:limLow>",
        f"<w:r><w:rPr><w:i/></w:rPr><w:t>w{{}}</w:t></w:r><m:type/><m:sz/>",
    ]


def omath(inner, tag="oMath"):
    return ET.fromstring(f"<m:{tag} {HEAD}>{inner}</m:{tag}>")


def convert(inner):
    try:
        tree = omath(inner)
    except ET.ParseError as exc:
        return "PARSE:" + str(exc)
    try:
        first = omml_to_latex(tree)
        second = omml_to_latex(tree)
        return repr(first) + ("" if first == second else " NONDET " + repr(second))
    except Exception as exc:  # noqa: BLE001
        return "EXC:" + type(exc).__name__ + ":" + str(exc)


def main():
    digest = hashlib.sha256()
    count = 0

    def emit(label, value, show=False):
        nonlocal count
        count += 1
        digest.update((label + "\x00" + value + "\x01").encode("utf-8"))
        if show:
            print(label, value.encode("unicode_escape").decode("ascii"))

    # symbol table
    emit("none", repr(omml_to_latex(None)), True)
    emit("table", repr(sorted(GREEK_TO_LATEX.items())))
    for ch in sorted(GREEK_TO_LATEX):
        emit("sym " + ch, convert_greek_and_symbols(ch + "x" + ch))
    for text in ["", "x + y", "αβγ", "a∞b{∑}", "\\alpha", "α" * 50, "\U0001d6fc"]:
        emit("conv " + text, repr(convert_greek_and_symbols(text)), True)
    for bad in (None, 5, ["α", "b"], ("ab", "α")):
        try:
            emit("conv-bad %r" % (bad,), repr(convert_greek_and_symbols(bad)), True)
        except Exception as exc:  # noqa: BLE001
            emit("conv-bad %r" % (bad,), type(exc).__name__, True)

    # exhaustive depth 1: every structure x leaves
    runs = [run(t) for t in LEAVES]
    for e1, e2 in itertools.product(runs[:7], runs[:4]):
        for i, s in enumerate(structures(e1, e2, runs[0])):
            emit(f"d1 {i}", convert(s), show=(e1 == runs[2] and e2 == runs[0]))

    # depth 2: structures nested in every operand position, with continuations (pending sqrt)
    inner = structures(runs[0], runs[5], runs[7])
    for i, s in enumerate(inner):
        for j, outer in enumerate(structures(s, runs[2], s)):
            emit(f"d2 {i} {j}", convert(outer + run("y)z") + inner[6]))
    malformed = f"<m:rad>{arg('deg', run('3'))}{arg('e', run('['))}</m:rad>"
    for tail in ["", run("a]b]c"), run("a") + run("]"), malformed + run("q]") + run("r]s"),
                 f"<m:f>{arg('num', run('n]'))}{arg('den', malformed)}</m:f>" + run("]]"),
                 "<m:rad>" + arg("e", run("(")) + "</m:rad>" + run("]") + run(")")]:
        emit("pending", convert(malformed + tail), True)

    # random deeper trees
    rng = random.Random(20240819)

    def rand_tree(depth):
        if depth == 0 or rng.random() < 0.25:
            return run(rng.choice(LEAVES))
        parts = [rand_tree(depth - 1) for _ in range(3)]
        return rng.choice(structures(*parts)) + (run(rng.choice(LEAVES)) if rng.random() < 0.5 else "")

    for n in range(300):
        emit(f"rand {n}", convert(rand_tree(4)), show=n < 5)

    # call sites: pptx shape / docx paragraph text assembly
    display = f"<m:oMathPara><m:oMathParaPr/><m:oMath>{structures(runs[0], runs[7], runs[0])[9]}</m:oMath><m:oMath></m:oMath><m:oMath>{run('second')}</m:oMath></m:oMathPara>"
    inline = f"<m:oMath>{malformed}{run('k')}</m:oMath>"
    blank = f"<m:oMath>{run('  ')}</m:oMath>"
    nested = f"<m:oMath>{run('out')}<m:oMath>{run('in')}</m:oMath></m:oMath>"
    for label, body in [("both", inline + display + blank + inline), ("display", display), ("none", "<a:t>text</a:t>"),
                        ("nested", nested + f"<m:oMathPara>{nested}</m:oMathPara>"), ("wrapped", f"<a:p><a:r>{display}</a:r>{inline}</a:p>")]:
        elem = ET.fromstring(f"<a:txBody {HEAD}>{body}</a:txBody>")
        try:
            emit("pptx " + label, repr(pptx_extractor._extract_formulas_from_element(elem)), True)
        except Exception as exc:  # noqa: BLE001
            emit("pptx " + label, "EXC:" + type(exc).__name__, True)
        para = ET.fromstring(f"<w:p {HEAD}><w:r><w:t>lead </w:t></w:r>{body}<w:r><w:t> tail</w:t></w:r></w:p>")
        for flag in (True, False):
            parts = []
            try:
                docx_extractor._process_text_element(para, parts, flag)
                emit(f"docx {label} {flag}", repr(parts), True)
            except Exception as exc:  # noqa: BLE001
                emit(f"docx {label} {flag}", "EXC:" + type(exc).__name__, True)
    print("cases", count)
    print("sha256", digest.hexdigest())


if __name__ == "__main__":
    main()
