import contextlib
import io
import os
import shutil
import sys
import zipfile

sys.path.insert(0, os.getcwd())

from sharepoint2text import cli  # noqa: E402

WORK = "/tmp/equiv_c01_1_work"
shutil.rmtree(WORK, ignore_errors=True)
os.makedirs(WORK)


def write(name, data):
    path = os.path.join(WORK, name)
    with open(path, "wb") as fh:
        fh.write(data)
    return path


zbuf = io.BytesIO()
with zipfile.ZipFile(zbuf, "w") as zf:
    zf.writestr("a.txt", "alpha text\n")
    zf.writestr("sub/b.md", "# beta\n\nbody\n")
    zf.writestr("c.html", "<html><body><p>gamma</p></body></html>")

FILES = {
    "plain.txt": b"hello world\nsecond line\n",
    "empty.txt": b"",
    "garbage.docx": b"this is not a zip file at all",
    "garbage.pdf": b"%PDF-1.4 broken \x00\x01\x02",
    "garbage.xls": b"\xd0\xcf\x11\xe0\xa1\xb1\x1a\xe1" + b"\x00" * 64,
    "page.html": b"<html><head><title>T</title></head><body><h1>H</h1><p>x &amp; y</p></body></html>",
    "multi.zip": zbuf.getvalue(),
    "emptyzip.zip": b"PK\x05\x06" + b"\x00" * 18,
    "unknown.xyz123": b"data",
    "mail.eml": b"From: a@b.c\r\nTo: d@e.f\r\nSubject: s\r\n\r\nbody text\r\n",
}
paths = {name: write(name, data) for name, data in FILES.items()}

CASES = []
for name in FILES:
    for flags in ([], ["--json"], ["--json-unit"], ["--binary"], ["--json", "--binary"]):
        CASES.append([paths[name]] + flags)
CASES += [
    [os.path.join(WORK, "missing.txt")],
    [os.path.join(WORK, "missing.txt"), "--json"],
    [paths["plain.txt"], "--bogus"],
    [paths["plain.txt"], "--json", "--json-unit"],
    [],
    ["--help"],
    [WORK],
]

for argv in CASES:
    out, err = io.StringIO(), io.StringIO()
    with contextlib.redirect_stdout(out), contextlib.redirect_stderr(err):
        try:
            code = cli.main(argv)
        except BaseException as exc:  # noqa: BLE001
            code = "RAISED " + type(exc).__name__
    shown = [a.replace(WORK, "<W>") for a in argv]
    print(shown, "->", code)
    print("  stdout:", repr(out.getvalue()))
    print("  stderr:", repr(err.getvalue()))

shutil.rmtree(WORK, ignore_errors=True)
