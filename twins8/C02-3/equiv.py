import io
import os
import sys

sys.path.insert(0, os.getcwd())

from sharepoint2text.parsing.extractors import html_extractor as hx  # noqa: E402

DOCS = {
    "plain": "<html><body>just text</body></html>",
    "no_body": "<p>para one</p>tail one<p>para two</p>tail two",
    "inline_tails": "<body>a<b>bold</b>b<i>it</i>c<span>s<em>e</em>t</span>d</body>",
    "headings": "<body>pre<h1> Title  one </h1>after h1<h2>Sub<b>bold</b></h2>after h2<h6></h6>end</body>",
    "br_hr": "<body>line1<br>line2<br/>line3<hr>after rule<hr/>tail<p>x<br>y</p>z</body>",
    "list": "<body>before<ul><li>one</li>t1<li>two <b>bold</b> rest</li><li></li></ul>after</body>",
    "nested_list": "<body><ul><li>outer1<ul><li>inner1</li>itail<li>inner2<ol><li>deep</li></ol></li></ul>outer-rest</li><li>outer2</li></ul>end</body>",
    "table": "<body>pre<table><tr><th>h1</th><th>h2</th></tr><tr><td>a</td><td>b</td></tr></table>post table<p>p</p></body>",
    "table_caption": "<body><table><caption> Cap  tion </caption><tr><td>1</td></tr><caption></caption><caption>second</caption></table>tail</body>",
    "table_in_li": "<ul><li>item<table><tr><td>cell</td></tr></table>after table in li</li></ul>",
    "table_in_p_inline": "<div>left<table><tr><td>x</td><td>y y</td></tr></table>right</div>",
    "nested_table": "<table><tr><td>outer<table><tr><td>inner</td></tr></table>rest</td><td>side</td></tr></table>after",
    "removed": "<body>keep1<script>var x='<p>no</p>';</script>keep2<style>p{}</style>keep3<noscript>nos<br>cript</noscript>keep4<!-- comment -->keep5</body>",
    "blocks": "<body><div>d1<div>d2</div>between<section>s</section></div>tail<blockquote>q</blockquote><pre>  pre\n  formatted </pre>x</body>",
    "whitespace": "<body>  a  \n\n  <p>   </p>  b\t\tc  <span> </span> d</body>",
    "entities": "<body><p>x &amp; y &lt;z&gt; &nbsp;&copy; &#8364; &unknown; &#x1F600;</p>t&amp;t</body>",
    "links_imgs": "<body><a href='u'>link <img alt='alt text' src='i.png'> text</a> after <img src='x'>end</body>",
    "unclosed": "<body><p>one<p>two<li>stray<b>bold<i>both</p>after<table><tr><td>cell",
    "br_in_heading_li": "<h1>a<br>b</h1>t<ul><li>c<br>d</li></ul><hr>e",
    "empty": "",
    "only_tags": "<html><head><title>T</title></head><body><br><hr><br></body></html>",
    "dup": "<p>same</p><p>same</p>same<br>same",
    "deep": "<div>" * 60 + "core" + "</div>tail" * 60,
}

for name, html in DOCS.items():
    try:
        for res in hx.read_html(io.BytesIO(html.encode("utf-8")), "dir/page.html"):
            print("==", name)
            print("  full", repr(res.get_full_text()))
            print("  units", [u.get_text() for u in res.iterate_units()])
            print("  tables", [t.get_table() for t in res.iterate_tables()])
    except Exception as exc:  # noqa: BLE001
        print("==", name, "EXC", type(exc).__name__, exc)
    try:
        print("  html_to_text", repr(hx.html_to_text(html)))
    except Exception as exc:  # noqa: BLE001
        print("  html_to_text EXC", type(exc).__name__, exc)

# direct calls on hand-made nodes (tail present / absent / empty, include_tail on and off)
ext = hx._HtmlTextExtractor.__new__(hx._HtmlTextExtractor)
for tag in ("span", "p", "h2", "li", "br", "hr", "script", "table", ""):
    for tail in (None, "", " TAIL "):
        node = {"tag": tag, "attrs": {}, "text": "txt", "children": [{"tag": "b", "attrs": {}, "text": "kid", "children": [], "tail": "kidtail"}]}
        if tail is not None:
            node["tail"] = tail
        for include_tail in (False, True):
            for depth in (0, 2):
                try:
                    out = ext._process_node(node, depth, include_tail)
                    print("node", repr(tag), repr(tail), include_tail, depth, repr(out))
                except Exception as exc:  # noqa: BLE001
                    print("node", repr(tag), repr(tail), include_tail, depth, "EXC", type(exc).__name__)
