"""Differential script for C20 (built-in AES == FIPS-197 AES, ECB/CBC, stream wrapper)."""
import hashlib
import logging
import os
import random
import sys

sys.path.insert(0, os.getcwd())
logging.disable(logging.CRITICAL)

from sharepoint2text.parsing.extractors.pdf import _pypdf_aes_fallback as aes

digest = hashlib.sha256()
count = 0


def emit(label, value, show=True):
    global count
    count += 1
    if isinstance(value, (bytes, bytearray, memoryview)):
        value = bytes(value).hex()
    text = f"{label} = {value!r}"
    digest.update(text.encode("utf-8") + b"\n")
    if show:
        print(text if len(text) < 300 else text[:300] + "...")


def attempt(label, fn, *args, show=True):
    try:
        emit(label, fn(*args), show)
    except Exception as exc:  # noqa: BLE001
        emit(label, f"EXC {type(exc).__name__}: {exc}", show)


def h(values):
    return hashlib.sha1(repr(list(values)).encode()).hexdigest()


# 1. byte level tables and GF helpers, exhaustively
emit("sbox", h(aes._SBOX))
emit("inv_sbox", h(aes._INV_SBOX))
for name in ("_MUL2", "_MUL3", "_MUL9", "_MUL11", "_MUL13", "_MUL14"):
    emit(name, h(getattr(aes, name)))
emit("xtime", h(aes._xtime(a) for a in range(-2, 300)))
emit("gf_mul", h(aes._gf_mul(a, b) for a in range(256) for b in (0, 1, 2, 3, 9, 11, 13, 14, 0x53, 0xCA, 255, 256, 511)))
emit("rcon", (aes._RCON, aes._build_rcon(3), aes._rcon(10)))

# 2. state transformations: every position, GF(2) basis of each column
for fn in ("_shift_rows", "_inv_shift_rows", "_sub_bytes", "_inv_sub_bytes", "_mix_columns", "_inv_mix_columns"):
    state = list(range(16))
    getattr(aes, fn)(state)
    emit(fn + " identity", state)
    out = []
    for pos in range(16):
        for bit in range(8):
            state = [0] * 16
            state[pos] = 1 << bit
            getattr(aes, fn)(state)
            out.append(tuple(state))
    emit(fn + " basis", h(out))
state = list(range(16, 32))
aes._add_round_key(state, bytes(range(16)))
emit("add_round_key", state)
emit("rot_word", aes._rot_word([1, 2, 3, 4]))
emit("sub_word", aes._sub_word([0, 1, 0x53, 255]))

# 3. key schedule and known answers (FIPS-197 appendix A/C, SP 800-38A)
KEYS = {
    128: bytes.fromhex("000102030405060708090a0b0c0d0e0f"),
    192: bytes.fromhex("000102030405060708090a0b0c0d0e0f1011121314151617"),
    256: bytes.fromhex("000102030405060708090a0b0c0d0e0f101112131415161718191a1b1c1d1e1f"),
    "a128": bytes.fromhex("2b7e151628aed2a6abf7158809cf4f3c"),
    "a192": bytes.fromhex("8e73b0f7da0e6452c810f32b809079e562f8ead2522c6b7b"),
    "a256": bytes.fromhex("603deb1015ca71be2b73aef0857d77811f352c073b6108d72d9810a30914dff4"),
}
PT = bytes.fromhex("00112233445566778899aabbccddeeff")
SP_PT = bytes.fromhex(
    "6bc1bee22e409f96e93d7e117393172aae2d8a571e03ac9c9eb76fac45af8e51"
    "30c81c46a35ce411e5fbc1191a0a52eff69f2445df4f9b17ad2b417be66c3710"
)
IV = bytes.fromhex("000102030405060708090a0b0c0d0e0f")
for name, key in KEYS.items():
    rk = aes._expand_key(key)
    emit(f"expand {name}", [k.hex() for k in rk])
    emit(f"expand {name} types", (type(rk).__name__, sorted({type(k).__name__ for k in rk}), len(rk)))
    emit(f"block enc {name}", aes._aes_encrypt_block(PT, rk))
    emit(f"block dec {name}", aes._aes_decrypt_block(aes._aes_encrypt_block(PT, rk), rk))
    emit(f"ecb {name}", aes.aes_ecb_encrypt(key, SP_PT))
    emit(f"ecb-dec {name}", aes.aes_ecb_decrypt(key, aes.aes_ecb_encrypt(key, SP_PT)) == SP_PT)
    emit(f"cbc {name}", aes.aes_cbc_encrypt(key, IV, SP_PT))
    emit(f"cbc-dec {name}", aes.aes_cbc_decrypt(key, IV, aes.aes_cbc_encrypt(key, IV, SP_PT)) == SP_PT)
    emit(f"ecb bytearray/memoryview {name}", (aes.aes_ecb_encrypt(key, bytearray(PT)), aes.aes_ecb_decrypt(key, memoryview(PT))))
    emit(f"cache order after {name}", [k.hex()[:8] for k in aes._ROUND_KEY_CACHE])
emit("cache identity", aes._get_round_keys(KEYS[256]) is aes._get_round_keys(KEYS[256]))
emit("empty", (aes.aes_ecb_encrypt(KEYS[128], b""), aes.aes_ecb_decrypt(KEYS[128], b""), aes.aes_cbc_encrypt(KEYS[128], IV, b""), aes.aes_cbc_decrypt(KEYS[128], IV, b"")))

# 4. rejected inputs
for klen in (0, 1, 15, 17, 23, 25, 31, 33, 48):
    attempt(f"expand bad key {klen}", aes._expand_key, bytes(klen))
    attempt(f"ecb enc bad key {klen}", aes.aes_ecb_encrypt, bytes(klen), PT)
    attempt(f"ecb dec bad key {klen}", aes.aes_ecb_decrypt, bytes(klen), PT)
    attempt(f"cbc enc bad key {klen}", aes.aes_cbc_encrypt, bytes(klen), IV, PT)
for dlen in (1, 15, 17, 31):
    attempt(f"ecb enc bad data {dlen}", aes.aes_ecb_encrypt, KEYS[128], bytes(dlen))
    attempt(f"ecb dec bad data {dlen}", aes.aes_ecb_decrypt, KEYS[128], bytes(dlen))
    attempt(f"ecb enc bad data+key {dlen}", aes.aes_ecb_encrypt, b"k", bytes(dlen))
    attempt(f"ecb dec bad data+key {dlen}", aes.aes_ecb_decrypt, b"k", bytes(dlen))
    attempt(f"cbc enc bad data {dlen}", aes.aes_cbc_encrypt, KEYS[128], IV, bytes(dlen))
    attempt(f"cbc dec bad data {dlen}", aes.aes_cbc_decrypt, KEYS[128], IV, bytes(dlen))
    attempt(f"cbc bad iv {dlen}", aes.aes_cbc_encrypt, KEYS[128], bytes(dlen), PT)
    attempt(f"cbc dec bad iv+data {dlen}", aes.aes_cbc_decrypt, KEYS[128], bytes(dlen), bytes(dlen))
    attempt(f"block bad {dlen}", aes._aes_encrypt_block, bytes(dlen), aes._expand_key(KEYS[128]))
    attempt(f"block dec bad {dlen}", aes._aes_decrypt_block, bytes(dlen), aes._expand_key(KEYS[128]))
attempt("ecb None data", aes.aes_ecb_encrypt, KEYS[128], None)
attempt("ecb None key", aes.aes_ecb_decrypt, None, PT)
attempt("ecb str key", aes.aes_ecb_encrypt, "k" * 16, PT)
attempt("expand str key", aes._expand_key, "k" * 16)
attempt("expand list key", aes._expand_key, list(range(16)))

# 5. random triples
rng = random.Random(197)
for n in range(60):
    key = bytes(rng.randrange(256) for _ in range(rng.choice((16, 24, 32))))
    iv = bytes(rng.randrange(256) for _ in range(16))
    msg = bytes(rng.randrange(256) for _ in range(16 * rng.randrange(0, 5)))
    c1, c2 = aes.aes_ecb_encrypt(key, msg), aes.aes_cbc_encrypt(key, iv, msg)
    emit(f"rand {n}", (c1.hex(), c2.hex(), aes.aes_ecb_decrypt(key, c1) == msg, aes.aes_cbc_decrypt(key, iv, c2) == msg,
                       aes.aes_ecb_decrypt(key, msg).hex(), aes.aes_cbc_decrypt(key, iv, msg).hex()), show=n < 3)

# 6. padding helpers and the CryptAES stream wrapper
for n in range(0, 40):
    data = bytes(range(1, n + 1))
    attempt(f"pad {n}", aes._pkcs7_pad, data, 16, show=n in (0, 15, 16))
    attempt(f"unpad {n}", aes._pkcs7_unpad, data, 16, show=n in (0, 1, 16))
for tail in (b"\x00", b"\x11", b"\x02\x02", b"\x03\x02", b"\x10" * 16, b"\x01"):
    attempt(f"unpad tail {tail.hex()}", aes._pkcs7_unpad, b"abc" + tail, 16)
emit("chunks", [bytes(c).hex() for c in aes._chunks(bytes(range(40)), 16)])


class FakeSecrets:
    calls = 0

    @classmethod
    def token_bytes(cls, n):
        cls.calls += 1
        return bytes((cls.calls * 7 + i) % 256 for i in range(n))


aes.secrets = FakeSecrets
emit("patch", aes.patch_pypdf_fallback_aes())
emit("patch again", aes.patch_pypdf_fallback_aes())
import pypdf._crypt_providers as providers
import pypdf._crypt_providers._fallback as fb
import pypdf._encryption as enc

emit("bindings", [
    (m.__name__, all(getattr(m, n) is getattr(aes, n) for n in ("aes_ecb_encrypt", "aes_ecb_decrypt", "aes_cbc_encrypt", "aes_cbc_decrypt")))
    for m in (fb, providers, enc)
] + [providers.CryptAES is fb.CryptAES, enc.CryptAES is fb.CryptAES])
emit("method names", sorted((k, getattr(v, "__name__", "?")) for k, v in vars(fb.CryptAES).items() if k in ("__init__", "encrypt", "decrypt")))
for name, key in KEYS.items():
    crypt = fb.CryptAES(key)
    emit(f"wrapper key {name}", crypt.key)
    for n in range(0, 65):
        msg = bytes((n * 3 + i) % 256 for i in range(n))
        ct = crypt.encrypt(msg)
        emit(f"wrap {name} {n}", (ct.hex(), len(ct), crypt.decrypt(ct) == msg), show=n in (0, 16))
    for raw in (b"", b"short", bytes(16), bytes(17), bytes(32), bytes(range(48)), bytes(range(50))):
        attempt(f"unwrap {name} {len(raw)}", crypt.decrypt, raw)
attempt("wrapper bad key", fb.CryptAES(b"k").encrypt, b"data")
emit("token calls", FakeSecrets.calls)
print("cases", count)
print("sha256", digest.hexdigest())
