"""Differential script: ODP image extraction (frames -> iterate_images)."""
import hashlib
import io
import os
import struct
import sys
import zipfile
import zlib

sys.path.insert(0, os.getcwd())

from sharepoint2text.parsing.extractors.open_office.odp_extractor import read_odp

NSDECL = (
    'xmlns:office="urn:oasis:names:tc:opendocument:xmlns:office:1.0" '
    'xmlns:text="urn:oasis:names:tc:opendocument:xmlns:text:1.0" '
    'xmlns:table="urn:oasis:names:tc:opendocument:xmlns:table:1.0" '
    'xmlns:draw="urn:oasis:names:tc:opendocument:xmlns:drawing:1.0" '
    'xmlns:presentation="urn:oasis:names:tc:opendocument:xmlns:presentation:1.0" '
    'xmlns:svg="urn:oasis:names:tc:opendocument:xmlns:svg-compatible:1.0" '
    'xmlns:xlink="http://www.w3.org/1999/xlink"'
)


def png(w, h, seed=0):
    def chunk(t, d):
        return struct.pack(">I", len(d)) + t + d + struct.pack(">I", zlib.crc32(t + d) & 0xFFFFFFFF)

    raw = b"".join(b"\x00" + bytes((seed + x + y) % 256 for x in range(w)) for y in range(h))
    return b"\x89PNG\r\n\x1a\n" + chunk(b"IHDR", struct.pack(">IIBBBBB", w, h, 8, 0, 0, 0, 0)) + chunk(b"IDAT", zlib.compress(raw)) + chunk(b"IEND", b"")


def gif(w, h):
    return b"GIF89a" + struct.pack("<HH", w, h) + b"\x00\x00\x00;"


def frame(href=None, name=None, title=None, desc=None, y="1cm", x="1cm", size=True, extra="", image=True):
    attrs = f' svg:x="{x}" svg:y="{y}"'
    if name is not None:
        attrs += f' draw:name="{name}"'
    if size:
        attrs += ' svg:width="2cm" svg:height="3cm"'
    inner = ""
    if image:
        inner += "<draw:image" + (f' xlink:href="{href}"' if href is not None else "") + "/>"
    if title is not None:
        inner += f"<svg:title>{title}</svg:title>"
    if desc is not None:
        inner += f"<svg:desc>{desc}</svg:desc>"
    return f"<draw:frame{attrs}>{inner}{extra}</draw:frame>"


def page(*frames, name="page"):
    return f'<draw:page draw:name="{name}">' + "".join(frames) + "</draw:page>"


def odp(pages, media):
    xml = (
        f'<?xml version="1.0" encoding="UTF-8"?><office:document-content {NSDECL}>'
        f"<office:body><office:presentation>{''.join(pages)}</office:presentation></office:body></office:document-content>"
    )
    buf = io.BytesIO()
    with zipfile.ZipFile(buf, "w") as z:
        z.writestr("mimetype", "application/vnd.oasis.opendocument.presentation")
        z.writestr("content.xml", xml)
        for name, data in media.items():
            z.writestr(name, data)
    buf.seek(0)
    return buf


MEDIA = {
    "Pictures/a.png": png(3, 2, 1),
    "Pictures/b.gif": gif(5, 6),
    "Pictures/sub/c.png": png(4, 4, 9),
    "Pictures/noext": png(1, 1, 5),
    "media/d.PNG": png(2, 2, 8),
}

PAGES = [
    page(
        frame("Pictures/a.png", name="A", title="Title A", desc="Desc A", y="3cm"),
        frame("Pictures/b.gif", name="B", title="Only title", y="2cm"),
        frame("Pictures/a.png", desc="Only desc (shared image)", y="1cm"),
    ),
    page(
        frame("Pictures/sub/c.png", title="", desc="", y="1cm"),
        frame("Pictures/missing.png", name="M", title="t", desc="d", y="2cm"),
        frame("http://example.com/ext.png", name="E", title="ext t", desc="ext d", y="3cm"),
        frame("https://example.com/ext2.png", y="4cm", size=False),
        frame("", name="emptyhref", title="x", y="5cm"),
        frame(None, name="nohref", desc="x", y="6cm"),
        frame(image=False, name="noimage", title="t", desc="d", y="7cm", extra="<draw:text-box><text:p>text only</text:p></draw:text-box>"),
    ),
    page(
        frame("Pictures/noext", title="  ", desc="\n", y="1cm"),
        frame("media/d.PNG", title="T &amp; t", desc="äöü 中文", y="2cm"),
        frame("./Pictures/a.png", title="dot relative", y="3cm"),
        frame("../Pictures/a.png", title="parent relative", y="4cm"),
        frame("/Pictures/a.png", title="absolute", y="5cm"),
        "<draw:g>" + frame("Pictures/b.gif", name="grouped", title="<svg:x/>tail", desc="d", y="0cm") + "</draw:g>",
        frame("Pictures/a.png", title="two titles</svg:title><svg:title>second", desc="first desc</svg:desc><svg:desc>second desc", y="9cm"),
    ),
    page(),
]


def main():
    out = []
    try:
        for doc in read_odp(odp(PAGES, MEDIA), path="deck.odp"):
            for img in doc.iterate_images():
                data = img.get_bytes().read()
                out.append(("image", hashlib.sha256(data).hexdigest()[:16], len(data), img.get_content_type(), repr(img.get_metadata()), img.get_caption(), img.get_description()))
            for slide in doc.slides:
                for i in slide.images:
                    out.append(("raw", slide.slide_number, i.href, i.name, i.content_type, i.size_bytes, i.width, i.height, i.image_index, i.caption, i.description, i.unit_name, i.error))
            out.append(("units", [[hashlib.sha256(i.get_bytes().read()).hexdigest()[:8] for i in u.get_images()] for u in doc.iterate_units()]))
            out.append(("text", doc.get_full_text()))
    except Exception as e:  # noqa: BLE001
        out.append(("EXC", type(e).__name__, str(e)))
    text = "\n".join(repr(o) for o in out)
    print(text)
    print("sha256", hashlib.sha256(text.encode("utf-8")).hexdigest())


if __name__ == "__main__":
    main()
