"""Differential script: DOCX table extraction (read_docx -> iterate_tables)."""
import hashlib
import io
import os
import sys
import zipfile

sys.path.insert(0, os.getcwd())

from sharepoint2text.parsing.extractors.ms_modern.docx_extractor import read_docx

W = "http://schemas.openxmlformats.org/wordprocessingml/2006/main"
CT = (
    '<?xml version="1.0" encoding="UTF-8"?>'
    '<Types xmlns="http://schemas.openxmlformats.org/package/2006/content-types">'
    '<Default Extension="xml" ContentType="application/xml"/>'
    '<Override PartName="/word/document.xml" ContentType="application/vnd.openxmlformats-officedocument.wordprocessingml.document.main+xml"/>'
    "</Types>"
)


def p(text):
    return f"<w:p><w:r><w:t>{text}</w:t></w:r></w:p>"


def tc(*paras, span=None, inner=""):
    pr = f'<w:tcPr><w:gridSpan w:val="{span}"/></w:tcPr>' if span is not None else ""
    return f"<w:tc>{pr}{''.join(p(t) for t in paras)}{inner}</w:tc>"


def tr(*cells, before=None, after=None):
    pr = ""
    if before is not None or after is not None:
        pr = "<w:trPr>"
        if before is not None:
            pr += f'<w:gridBefore w:val="{before}"/>'
        if after is not None:
            pr += f'<w:gridAfter w:val="{after}"/>'
        pr += "</w:trPr>"
    return f"<w:tr>{pr}{''.join(cells)}</w:tr>"


def tbl(*rows):
    return f"<w:tbl>{''.join(rows)}</w:tbl>"


def docx(body):
    xml = (
        '<?xml version="1.0" encoding="UTF-8"?>'
        f'<w:document xmlns:w="{W}"><w:body>{body}</w:body></w:document>'
    )
    buf = io.BytesIO()
    with zipfile.ZipFile(buf, "w") as z:
        z.writestr("[Content_Types].xml", CT)
        z.writestr("word/document.xml", xml)
    buf.seek(0)
    return buf


def grid(r, c, tag="c"):
    return tbl(*[tr(*[tc(f"{tag}{i}.{j}") for j in range(c)]) for i in range(r)])


CASES = {
    "no_table": p("only text"),
    "1x1": grid(1, 1),
    "3x4": grid(3, 4),
    "empty_cells": tbl(tr(tc(""), tc()), tr(tc("x"), tc(""))),
    "multi_paragraph_cell": tbl(tr(tc("a", "b", "c"), tc("d"))),
    "ragged": tbl(tr(tc("a")), tr(tc("b"), tc("c"), tc("d")), tr()),
    "adjacent": grid(2, 2, "x") + grid(1, 3, "y") + p("t") + grid(2, 1, "z"),
    "anchors": p("p0") + p("p1") + grid(1, 1) + p("p2") + grid(1, 2),
    "table_first": grid(1, 1) + p("after"),
    "nested": tbl(tr(tc("outer", inner=grid(2, 2, "n") + p("tail")), tc("o2"))),
    "gridspan": tbl(tr(tc("m", span=3), tc("n")), tr(tc("a"), tc("b"), tc("c"), tc("d"))),
    "gridspan_bad": tbl(tr(tc("m", span="x"), tc("n", span=-4), tc("o", span=100), tc("q", span=0))),
    "grid_before_after": tbl(tr(tc("a"), before=2, after=1), tr(tc("b"), tc("c"), after=70)),
    "sdt_wrapped": "<w:sdt><w:sdtContent>" + tbl("<w:sdt><w:sdtContent>" + tr("<w:sdt><w:sdtContent>" + tc("in sdt") + "</w:sdtContent></w:sdt>", tc("plain")) + "</w:sdtContent></w:sdt>") + "</w:sdtContent></w:sdt>",
    "sdt_paragraph_in_cell": tbl(tr("<w:tc><w:sdt><w:sdtContent>" + p("wrapped") + "</w:sdtContent></w:sdt>" + p("direct") + "</w:tc>")),
    "table_without_rows": tbl() + grid(1, 1),
    "unicode": tbl(tr(tc("äöü 中文"), tc("a &amp; b &lt; c"))),
}


def main():
    out = []
    for name, body in CASES.items():
        try:
            docs = list(read_docx(docx(body), path=f"{name}.docx"))
            for d in docs:
                tables = list(d.iterate_tables())
                out.append(
                    (
                        name,
                        [t.get_table() for t in tables],
                        [tuple(vars(t.get_dim()).values()) if hasattr(t.get_dim(), "__dict__") else repr(t.get_dim()) for t in tables],
                        d.get_full_text(),
                    )
                )
        except Exception as e:  # noqa: BLE001
            out.append((name, "EXC", type(e).__name__, str(e)))
    text = "\n".join(repr(o) for o in out)
    print(text)
    print("sha256", hashlib.sha256(text.encode("utf-8")).hexdigest())


if __name__ == "__main__":
    main()
