"""Differential script for encryption detection (C08).

Builds OLE compound files, ODF/EPUB/ZIP containers and PDFs in memory
(encrypted and plain twins), runs the detectors and the extractors on them
and prints: detector verdict, stream position afterwards, number of results
yielded before an exception, exception class.  The protected fixtures of the
test-suite are run as well.
"""
import hashlib
import io
import json
import os
import struct
import subprocess
import sys
import zipfile

sys.path.insert(0, os.getcwd())

import logging  # noqa: E402

# keep library / pypdf warnings off stderr (the run is compared byte by byte)
logging.getLogger().addHandler(logging.NullHandler())

# --------------------------------------------------------------------------
# minimal compound-file (OLE2) writer: v3, 512-byte sectors, no mini stream
# (every stream is padded to >= 4096 bytes)
# --------------------------------------------------------------------------
FREESECT, ENDOFCHAIN, FATSECT, NOSTREAM = 0xFFFFFFFF, 0xFFFFFFFE, 0xFFFFFFFD, 0xFFFFFFFF


def ole(streams):
    streams = [(n, d + b"\x00" * (max(4096, -(-len(d) // 512) * 512) - len(d))) for n, d in streams]
    streams.sort(key=lambda s: (len(s[0]), s[0].upper()))
    n_dir = -(-(1 + len(streams)) // 4)
    n_data = sum(len(d) // 512 for _, d in streams)
    n_fat = 1
    while n_fat * 128 < n_fat + n_dir + n_data:
        n_fat += 1
    fat = [FREESECT] * (n_fat * 128)
    for i in range(n_fat):
        fat[i] = FATSECT
    dir_start = n_fat
    for i in range(n_dir):
        fat[dir_start + i] = dir_start + i + 1 if i + 1 < n_dir else ENDOFCHAIN
    pos = dir_start + n_dir
    starts = []
    for _, d in streams:
        k = len(d) // 512
        starts.append(pos)
        for i in range(k):
            fat[pos + i] = pos + i + 1 if i + 1 < k else ENDOFCHAIN
        pos += k

    def entry(name, typ, left, right, child, start, size):
        raw = name.encode("utf-16-le") + b"\x00\x00"
        return (
            raw.ljust(64, b"\x00")
            + struct.pack("<HBB", len(raw), typ, 1)
            + struct.pack("<III", left, right, child)
            + b"\x00" * 16
            + struct.pack("<I", 0)
            + b"\x00" * 16
            + struct.pack("<IQ", start, size)
        )

    entries = [entry("Root Entry", 5, NOSTREAM, NOSTREAM, 1 if streams else NOSTREAM, ENDOFCHAIN, 0)]
    for i, (n, d) in enumerate(streams):
        right = i + 2 if i + 1 < len(streams) else NOSTREAM
        entries.append(entry(n, 2, NOSTREAM, right, NOSTREAM, starts[i], len(d)))
    while len(entries) % 4:
        entries.append(b"\x00" * 64 + struct.pack("<HBB", 0, 0, 0) + struct.pack("<III", NOSTREAM, NOSTREAM, NOSTREAM) + b"\x00" * 48)
    header = (
        b"\xd0\xcf\x11\xe0\xa1\xb1\x1a\xe1"
        + b"\x00" * 16
        + struct.pack("<HHHHH", 0x3E, 3, 0xFFFE, 9, 6)
        + b"\x00" * 6
        + struct.pack("<IIIIIIIII", 0, n_fat, dir_start, 0, 4096, ENDOFCHAIN, 0, ENDOFCHAIN, 0)
        + b"".join(struct.pack("<I", i if i < n_fat else FREESECT) for i in range(109))
    )
    assert len(header) == 512
    body = b"".join(struct.pack("<I", x) for x in fat) + b"".join(entries) + b"".join(d for _, d in streams)
    return header + body


def rec(rid, data=b""):
    return struct.pack("<HH", rid, len(data)) + data


BOF = rec(0x0809, struct.pack("<HHHHII", 0x0600, 0x0005, 0x0DBB, 0x07CC, 0, 6))
FILEPASS = rec(0x002F, b"\x01\x00\x01\x00\x01\x00" + b"\x11" * 48)
EOFREC = rec(0x000A)


def current_user(token):
    return struct.pack("<HHI", 0, 0x0FF6, 20) + struct.pack("<I", 0x14) + token + b"\x00" * 8


def fib(flags):
    data = bytearray(1024)
    struct.pack_into("<H", data, 0, 0xA5EC)
    struct.pack_into("<H", data, 2, 0x00C1)
    struct.pack_into("<H", data, 0x0A, flags)
    return bytes(data)


# --------------------------------------------------------------------------
# ZIP based containers
# --------------------------------------------------------------------------
def zip_bytes(members, flag_encrypted=()):
    buf = io.BytesIO()
    with zipfile.ZipFile(buf, "w", zipfile.ZIP_DEFLATED) as zf:
        for name, data in members:
            info = zipfile.ZipInfo(name, date_time=(2020, 1, 1, 0, 0, 0))
            info.compress_type = zipfile.ZIP_STORED if name == "mimetype" else zipfile.ZIP_DEFLATED
            zf.writestr(info, data)
    raw = bytearray(buf.getvalue())
    for name in flag_encrypted:
        encoded = name.encode()
        # set general purpose bit 0 in the local header and the central directory
        idx = raw.find(b"PK\x03\x04")
        while idx != -1:
            nlen = struct.unpack_from("<H", raw, idx + 26)[0]
            if bytes(raw[idx + 30 : idx + 30 + nlen]) == encoded:
                raw[idx + 6] |= 1
            idx = raw.find(b"PK\x03\x04", idx + 4)
        idx = raw.find(b"PK\x01\x02")
        while idx != -1:
            nlen = struct.unpack_from("<H", raw, idx + 28)[0]
            if bytes(raw[idx + 46 : idx + 46 + nlen]) == encoded:
                raw[idx + 8] |= 1
            idx = raw.find(b"PK\x01\x02", idx + 4)
    return bytes(raw)


MANIFEST_NS = 'xmlns:manifest="urn:oasis:names:tc:opendocument:xmlns:manifest:1.0"'
ODF_NS = (
    'xmlns:office="urn:oasis:names:tc:opendocument:xmlns:office:1.0" '
    'xmlns:text="urn:oasis:names:tc:opendocument:xmlns:text:1.0" '
    'xmlns:style="urn:oasis:names:tc:opendocument:xmlns:style:1.0"'
)


def odt(manifest_extra="", with_manifest=True):
    content = (
        '<?xml version="1.0"?><office:document-content %s><office:body><office:text>'
        "<text:p>hello odf</text:p></office:text></office:body></office:document-content>" % ODF_NS
    )
    members = [("mimetype", "application/vnd.oasis.opendocument.text"), ("content.xml", content)]
    if with_manifest:
        members.append(
            (
                "META-INF/manifest.xml",
                '<?xml version="1.0"?><manifest:manifest %s><manifest:file-entry manifest:full-path="/" '
                'manifest:media-type="application/vnd.oasis.opendocument.text"/>%s</manifest:manifest>' % (MANIFEST_NS, manifest_extra),
            )
        )
    return zip_bytes(members)


ENC_ENTRY = (
    '<manifest:file-entry manifest:full-path="content.xml" manifest:media-type="text/xml" manifest:size="10">'
    '<manifest:encryption-data manifest:checksum-type="SHA1/1K" manifest:checksum="x">'
    '<manifest:algorithm manifest:algorithm-name="Blowfish CFB" manifest:initialisation-vector="x"/>'
    "</manifest:encryption-data></manifest:file-entry>"
)


def epub(extra=()):
    container = (
        '<?xml version="1.0"?><container version="1.0" xmlns="urn:oasis:names:tc:opendocument:xmlns:container">'
        '<rootfiles><rootfile full-path="OEBPS/content.opf" media-type="application/oebps-package+xml"/></rootfiles></container>'
    )
    opf = (
        '<?xml version="1.0"?><package xmlns="http://www.idpf.org/2007/opf" version="3.0" unique-identifier="id">'
        '<metadata xmlns:dc="http://purl.org/dc/elements/1.1/"><dc:title>Book</dc:title><dc:identifier id="id">x</dc:identifier>'
        "<dc:language>en</dc:language></metadata><manifest>"
        '<item id="c1" href="c1.xhtml" media-type="application/xhtml+xml"/></manifest><spine><itemref idref="c1"/></spine></package>'
    )
    chapter = '<?xml version="1.0"?><html xmlns="http://www.w3.org/1999/xhtml"><head><title>C</title></head><body><p>chapter text</p></body></html>'
    members = [
        ("mimetype", "application/epub+zip"),
        ("META-INF/container.xml", container),
        ("OEBPS/content.opf", opf),
        ("OEBPS/c1.xhtml", chapter),
    ]
    members.extend(extra)
    return zip_bytes(members)


def encryption_xml(algorithms):
    items = "".join(
        '<enc:EncryptedData xmlns:enc="http://www.w3.org/2001/04/xmlenc#">%s'
        '<enc:CipherData><enc:CipherReference URI="OEBPS/c1.xhtml"/></enc:CipherData></enc:EncryptedData>'
        % ('<enc:EncryptionMethod Algorithm="%s"/>' % a if a is not None else "")
        for a in algorithms
    )
    return '<?xml version="1.0"?><encryption xmlns="urn:oasis:names:tc:opendocument:xmlns:container">%s</encryption>' % items


# --------------------------------------------------------------------------
# PDFs are generated in a child process (needs the AES fallback installed,
# which must not be pre-installed in the process under test)
# --------------------------------------------------------------------------
PDF_SPECS = [
    ("plain", None, None),
    ("rc4-40-empty", "RC4-40", ""),
    ("rc4-128-empty", "RC4-128", ""),
    ("rc4-128-secret", "RC4-128", "secret"),
    ("aes-128-empty", "AES-128", ""),
    ("aes-128-secret", "AES-128", "secret"),
    ("aes-256-empty", "AES-256", ""),
    ("aes-256-secret", "AES-256", "secret"),
    ("aes-256r5-empty", "AES-256-R5", ""),
]


def make_pdfs():
    from pypdf import PdfWriter
    from pypdf.generic import DictionaryObject, NameObject, StreamObject

    from sharepoint2text.parsing.extractors.pdf._pypdf_aes_fallback import patch_pypdf_fallback_aes

    patch_pypdf_fallback_aes()
    out = {}
    for label, alg, user_pw in PDF_SPECS:
        writer = PdfWriter()
        page = writer.add_blank_page(300, 200)
        stream = StreamObject()
        stream._data = b"BT /F1 12 Tf 20 100 Td (Hello encrypted world) Tj ET"
        font = DictionaryObject(
            {NameObject("/Type"): NameObject("/Font"), NameObject("/Subtype"): NameObject("/Type1"), NameObject("/BaseFont"): NameObject("/Helvetica")}
        )
        page[NameObject("/Resources")] = DictionaryObject({NameObject("/Font"): DictionaryObject({NameObject("/F1"): font})})
        page[NameObject("/Contents")] = writer._add_object(stream)
        if alg:
            writer.encrypt(user_password=user_pw, owner_password="owner", algorithm=alg)
        buf = io.BytesIO()
        writer.write(buf)
        out[label] = buf.getvalue().hex()
    return out


def corpus(pdfs):
    items = []
    word_plain = ole([("WordDocument", fib(0x0000)), ("1Table", b"\x00" * 16)])
    items += [
        ("ole-empty.docx", ole([])),
        ("ole-encinfo.docx", ole([("EncryptionInfo", b"\x04\x00\x04\x00"), ("EncryptedPackage", b"\x00" * 64)])),
        ("ole-encpackage-only.xlsx", ole([("EncryptedPackage", b"\x00" * 64)])),
        ("ole-dataspaces-only.pptx", ole([("DataSpaces", b"x")])),
        ("ole-encinfo-lower.docx", ole([("encryptioninfo", b"x")])),
        ("ole-unrelated.docx", ole([("Workbook", BOF + EOFREC)])),
        ("not-ole.docx", b"PK\x03\x04 not really a zip"),
        ("empty.docx", b""),
        ("short-magic.xlsx", b"\xd0\xcf\x11\xe0\xa1\xb1\x1a\xe1"),
        ("xls-plain.xls", ole([("Workbook", BOF + EOFREC)])),
        ("xls-filepass-second.xls", ole([("Workbook", BOF + FILEPASS + EOFREC)])),
        ("xls-filepass-first.xls", ole([("Workbook", FILEPASS + BOF)])),
        ("xls-filepass-late.xls", ole([("Workbook", BOF + rec(0x00E1, b"\x00" * 300) * 20 + FILEPASS + EOFREC)])),
        ("xls-filepass-inside-payload.xls", ole([("Workbook", BOF + rec(0x0099, struct.pack("<HH", 0x002F, 0)) + EOFREC)])),
        ("xls-filepass-after-overlong.xls", ole([("Workbook", BOF + struct.pack("<HH", 0x0099, 0xFFFF) + FILEPASS)])),
        ("xls-filepass-at-tail.xls", ole([("Workbook", (BOF + b"\x00" * 4096)[: 4096 - 4] + struct.pack("<HH", 0x002F, 0))])),
        ("xls-book-stream.xls", ole([("Book", BOF + FILEPASS)])),
        ("xls-workbook-wins.xls", ole([("Workbook", BOF + EOFREC), ("Book", BOF + FILEPASS)])),
        ("xls-no-book.xls", ole([("Other", b"x")])),
        ("xls-not-ole.xls", b"\x09\x08\x10\x00\x00\x06\x05\x00"),
        ("ppt-plain.ppt", ole([("PowerPoint Document", b"\x00" * 32), ("Current User", current_user(b"\x5f\xc0\x91\xe3"))])),
        ("ppt-token.ppt", ole([("PowerPoint Document", b"\x00" * 32), ("Current User", current_user(b"\xdf\xc4\xd1\xf3"))])),
        ("ppt-encsummary.ppt", ole([("PowerPoint Document", b"\x00" * 32), ("EncryptedSummary", b"x")])),
        ("ppt-encsummaryinfo.ppt", ole([("EncryptedSummaryInformation", b"x")])),
        ("ppt-encinfo.ppt", ole([("EncryptionInfo", b"x"), ("Current User", current_user(b"\x5f\xc0\x91\xe3"))])),
        ("ppt-short-current-user.ppt", ole([("Current User", b"\x00" * 8)])),
        ("ppt-not-ole.ppt", b"nothing"),
        ("doc-flag-set.doc", ole([("WordDocument", fib(0x0100)), ("1Table", b"\x00" * 16)])),
        ("doc-flag-clear.doc", word_plain),
        ("doc-other-flags.doc", ole([("WordDocument", fib(0xFEFF)), ("1Table", b"\x00" * 16)])),
        ("odt-plain.odt", odt()),
        ("odt-encrypted.odt", odt(ENC_ENTRY)),
        ("odt-comment-mentions.odt", odt("<!-- no manifest:algorithm here -->")),
        ("odt-encrypted-attr.ods", odt('<manifest:file-entry manifest:full-path="x" manifest:encrypted="true"/>')),
        ("odt-no-manifest.odt", odt(with_manifest=False)),
        ("odt-not-zip.odt", b"plain bytes, no zip"),
        ("odt-empty.odp", b""),
        ("epub-plain.epub", epub()),
        ("epub-drm.epub", epub([("META-INF/encryption.xml", encryption_xml(["http://www.w3.org/2001/04/xmlenc#aes128-cbc"]))])),
        ("epub-font-only.epub", epub([("META-INF/encryption.xml", encryption_xml(["http://www.idpf.org/2008/embedding", "http://ns.adobe.com/pdf/enc#RC"]))])),
        ("epub-font-and-drm.epub", epub([("META-INF/encryption.xml", encryption_xml(["http://www.idpf.org/2008/embedding", "urn:other"]))])),
        ("epub-no-method.epub", epub([("META-INF/encryption.xml", encryption_xml([None]))])),
        ("epub-empty-encryption.epub", epub([("META-INF/encryption.xml", encryption_xml([]))])),
        ("epub-malformed-encryption.epub", epub([("META-INF/encryption.xml", "<encryption><broken")])),
        ("epub-malformed-plus-rights.epub", epub([("META-INF/encryption.xml", "<broken"), ("META-INF/rights.xml", "<rights/>")])),
        ("epub-rights.epub", epub([("META-INF/rights.xml", "<rights/>")])),
        ("zip-plain.zip", zip_bytes([("a.txt", "alpha"), ("b.txt", "beta")])),
        ("zip-flag-first.zip", zip_bytes([("a.txt", "alpha"), ("b.txt", "beta")], flag_encrypted=["a.txt"])),
        ("zip-flag-second.zip", zip_bytes([("a.txt", "alpha"), ("b.txt", "beta")], flag_encrypted=["b.txt"])),
        ("zip-flag-unsupported-member.zip", zip_bytes([("a.txt", "alpha"), ("b.bin", "beta")], flag_encrypted=["b.bin"])),
    ]
    for label, _, _ in PDF_SPECS:
        items.append(("pdf-%s.pdf" % label, bytes.fromhex(pdfs[label])))
    return items


def sha(obj):
    return hashlib.sha256(json.dumps(obj, sort_keys=True, default=repr).encode()).hexdigest()[:12]


def run_detectors(data):
    from sharepoint2text.parsing.extractors.util import encryption

    out = []
    for fn_name in ("is_ooxml_encrypted", "is_odf_encrypted", "is_xls_encrypted", "is_ppt_encrypted"):
        buf = io.BytesIO(data)
        buf.seek(min(7, len(data)))
        try:
            verdict = getattr(encryption, fn_name)(buf)
        except Exception as exc:  # noqa: BLE001
            verdict = "EXC:" + type(exc).__name__
        out.append("%s=%s@%s%s" % (fn_name[3:-10], verdict, buf.tell() if not buf.closed else "closed", "" if buf.closed or buf.getvalue() == data else "!modified"))
    return out


def run_extractor(name, data, via_read_file=False):
    import sharepoint2text

    count = 0
    texts = []
    try:
        extractor = sharepoint2text.get_extractor(name)
        for result in extractor(io.BytesIO(data), "/nonexistent-c08/" + name):
            count += 1
            texts.append(sha(result.get_full_text()))
        return "yielded=%d texts=%s" % (count, texts)
    except Exception as exc:  # noqa: BLE001
        return "yielded=%d EXC:%s:%s" % (count, type(exc).__name__, str(exc)[:70])


def main():
    if len(sys.argv) > 1 and sys.argv[1] == "--make-pdfs":
        print(json.dumps(make_pdfs()))
        return
    if len(sys.argv) > 2 and sys.argv[1] == "--fresh-pdf":
        # fresh interpreter, AES fallback not installed yet: the first reader
        # that is opened is an AES PDF (DependencyError path of _open_pdf_reader)
        import pypdf._crypt_providers as providers

        data = bytes.fromhex(sys.stdin.read().strip())
        import pypdf._crypt_providers._fallback as fb

        print("   aes impl before:", providers.crypt_provider[0], fb.aes_cbc_decrypt.__module__.rsplit(".", 1)[-1])
        print("   extract:", run_extractor(sys.argv[2], data))
        print("   aes impl after:", providers.crypt_provider[0], fb.aes_cbc_decrypt.__module__.rsplit(".", 1)[-1])
        return
    proc = subprocess.run([sys.executable, os.path.abspath(__file__), "--make-pdfs"], capture_output=True, text=True, cwd=os.getcwd())
    if proc.returncode != 0:
        print("pdf generation failed", proc.stderr[-500:])
        return
    pdfs = json.loads(proc.stdout.strip().splitlines()[-1])
    for name, data in corpus(pdfs):
        print(name, len(data) if not name.startswith("pdf-") else "-")
        print("   detect:", " ".join(run_detectors(data)))
        print("   extract:", run_extractor(name, data))
    for label in ("aes-256-empty", "aes-256-secret", "aes-256r5-empty", "aes-128-secret", "rc4-40-empty", "plain"):
        fresh = subprocess.run(
            [sys.executable, os.path.abspath(__file__), "--fresh-pdf", "pdf-%s.pdf" % label],
            input=pdfs[label],
            capture_output=True,
            text=True,
            cwd=os.getcwd(),
        )
        print("fresh-process", label, "rc=%d" % fresh.returncode)
        print(fresh.stdout.rstrip())
    # the empty-password PDFs extract the same text as the plain one
    # (digests above); now the fixtures of the test-suite
    root = os.path.join("sharepoint2text", "tests", "resources")
    fixtures = []
    for base, _, files in sorted(os.walk(root)):
        for f in sorted(files):
            if "password_protected" in base or "encrypt" in f.lower() or "protected" in f.lower():
                fixtures.append(os.path.join(base, f))
    for path in fixtures:
        with open(path, "rb") as fh:
            data = fh.read()
        name = os.path.basename(path)
        print("fixture", name)
        print("   detect:", " ".join(run_detectors(data)))
        print("   extract:", run_extractor(name, data))
    # a few unprotected fixtures: never rejected as encrypted
    plain = []
    for base, _, files in sorted(os.walk(root)):
        for f in sorted(files):
            if "password_protected" not in base and f.lower().endswith((".xls", ".ppt", ".doc", ".pdf", ".epub", ".odt", ".xlsx")):
                plain.append(os.path.join(base, f))
    for path in plain[:25]:
        with open(path, "rb") as fh:
            data = fh.read()
        name = os.path.basename(path)
        print("plain-fixture", name)
        print("   detect:", " ".join(run_detectors(data)))
        print("   extract:", run_extractor(name, data))


main()
