"""Differential script: mbox body selection and charset decoding (get_body_content)."""
import base64
import email
import hashlib
import io
import os
import quopri
import sys
from email.message import EmailMessage
from email.mime.multipart import MIMEMultipart
from email.mime.text import MIMEText

sys.path.insert(0, os.getcwd())

from sharepoint2text.parsing.extractors.mail import mbox_email_extractor as mb  # noqa: E402

HEAD = b"From: A <a@example.com>\r\nTo: b@example.com\r\nSubject: s\r\nDate: Mon, 01 Jan 2024 10:00:00 +0000\r\nMessage-ID: <1@x>\r\n"


def raw(content_type, body, cte=None, extra=b""):
    h = HEAD + b"MIME-Version: 1.0\r\nContent-Type: " + content_type.encode() + b"\r\n"
    if cte:
        h += b"Content-Transfer-Encoding: " + cte.encode() + b"\r\n"
    return h + extra + b"\r\n" + body


def multipart(subtype, parts, boundary="BOUND"):
    body = b""
    for p in parts:
        body += b"--" + boundary.encode() + b"\r\n" + p + b"\r\n"
    body += b"--" + boundary.encode() + b"--\r\n"
    return f'multipart/{subtype}; boundary="{boundary}"', body


def part(content_type, body, cte=None, disposition=None):
    h = b"Content-Type: " + content_type.encode() + b"\r\n"
    if cte:
        h += b"Content-Transfer-Encoding: " + cte.encode() + b"\r\n"
    if disposition:
        h += b"Content-Disposition: " + disposition.encode() + b"\r\n"
    return h + b"\r\n" + body


def b64(b):
    return base64.encodebytes(b).replace(b"\n", b"\r\n")


def build_cases():
    cases = {}
    cases["plain_ascii"] = raw("text/plain", b"hello\r\nworld\r\n")
    cases["plain_no_charset_utf8_bytes"] = raw("text/plain", "grüße".encode("utf-8"), "8bit")
    cases["plain_latin1"] = raw('text/plain; charset="iso-8859-1"', "grüße".encode("latin-1"), "8bit")
    cases["plain_latin1_declared_utf8"] = raw("text/plain; charset=utf-8", "grüße".encode("latin-1"), "8bit")
    cases["plain_unknown_charset"] = raw("text/plain; charset=x-unknown-42", "grüße".encode("utf-8"), "8bit")
    cases["plain_charset_empty"] = raw('text/plain; charset=""', b"abc")
    cases["plain_utf7"] = raw("text/plain; charset=utf-7", b"Hi Mom -+Jjo--!")
    cases["plain_utf7_lone_surrogate"] = raw("text/plain; charset=utf-7", b"+2AA-")
    cases["plain_utf16_b64"] = raw("text/plain; charset=utf-16", b64("äöü €".encode("utf-16")), "base64")
    cases["plain_qp_koi8"] = raw("text/plain; charset=koi8-r", quopri.encodestring("привет".encode("koi8-r")), "quoted-printable")
    cases["plain_shift_jis_bad_bytes"] = raw("text/plain; charset=shift_jis", b"\x82\xa0\xff\xfe abc", "8bit")
    cases["plain_rot13_codec"] = raw("text/plain; charset=rot13", b"uryyb")
    cases["plain_hex_codec"] = raw("text/plain; charset=hex", b"6162zz")
    cases["plain_undefined_codec"] = raw("text/plain; charset=undefined", b"abc")
    cases["plain_empty_body"] = raw("text/plain", b"")
    cases["plain_b64_garbage"] = raw("text/plain", b"!!!not base64!!!", "base64")
    cases["html_single"] = raw("text/html; charset=utf-8", "<p>grüße</p>".encode(), "8bit")
    cases["other_single_type"] = raw("application/x-thing", b"opaque bytes \xff\xfe", "8bit")
    cases["no_content_type"] = HEAD + b"\r\njust a body\r\n"
    ct, body = multipart("alternative", [part('text/plain; charset="utf-8"', "plain ü".encode(), "8bit"), part("text/html; charset=iso-8859-15", "<b>html €</b>".encode("iso-8859-15"), "8bit")])
    cases["alternative"] = raw(ct, body)
    ct, body = multipart("mixed", [
        part("text/plain", b"first"), part("image/png", b64(b"\x89PNG"), "base64", 'inline; filename="i.png"'),
        part("text/plain; charset=bogus", "second ü".encode(), "8bit"), part("text/plain", b"attached text", None, 'attachment; filename="a.txt"'),
        part("text/html", b"<i>one</i>"), part("text/html; charset=utf-16", b64("<i>two</i>".encode("utf-16")), "base64"), part("text/plain", b""),
    ])
    cases["mixed_several_text_parts"] = raw(ct, body)
    ict, ibody = multipart("alternative", [part("text/plain", b"inner plain"), part("text/html", b"<p>inner html</p>")], "INNER")
    rct, rbody = multipart("related", [b"Content-Type: " + ict.encode() + b"\r\n\r\n" + ibody, part("image/gif", b64(b"GIF89a"), "base64", "inline")], "REL")
    ct, body = multipart("mixed", [b"Content-Type: " + rct.encode() + b"\r\n\r\n" + rbody, part("application/pdf", b64(b"%PDF-1.4"), "base64", 'attachment; filename="d.pdf"')])
    cases["nested_related_alternative"] = raw(ct, body)
    ct, body = multipart("mixed", [part("text/plain", b"ATTACHMENT in upper case?", None, "ATTACHMENT"), part("text/plain", b"kept")])
    cases["disposition_case"] = raw(ct, body)
    ct, body = multipart("mixed", [])
    cases["multipart_without_parts"] = raw(ct, body)
    cases["multipart_declared_but_flat"] = raw('multipart/mixed; boundary="nope"', b"no boundary here\r\n")
    inner = raw("text/plain", b"forwarded body")
    ct, body = multipart("mixed", [part("text/plain", b"see below"), b"Content-Type: message/rfc822\r\n\r\n" + inner])
    cases["message_rfc822_part"] = raw(ct, body)

    # messages written by the standard library
    m = EmailMessage()
    m["From"] = "Jörg <j@example.com>"
    m["To"] = "x@example.com"
    m["Subject"] = "stdlib ünïcode"
    m["Date"] = "Tue, 02 Jan 2024 11:00:00 +0100"
    m.set_content("plain body with ü and a long line " + "x" * 200)
    m.add_alternative("<html><body><p>html ü</p></body></html>", subtype="html")
    m.add_attachment(b"\x00\x01\x02binary", maintype="application", subtype="octet-stream", filename="b.bin")
    m.add_attachment("text attachment ü", filename="t.txt")
    cases["stdlib_email_message"] = m.as_bytes()
    mm = MIMEMultipart("mixed")
    mm["From"] = "a@example.com"
    mm["Subject"] = "legacy api"
    mm.attach(MIMEText("日本語のテキスト", "plain", "iso-2022-jp"))
    mm.attach(MIMEText("<p>ÄÖÜ</p>", "html", "windows-1252"))
    cases["stdlib_mime_classes"] = mm.as_bytes()
    return cases


def show(content):
    return (
        content.subject, repr(content.from_email), [repr(a) for a in content.to_emails], content.metadata.date, content.metadata.message_id,
        content.body_plain, content.body_html,
        [(a.filename, a.mime_type, a.is_supported_mime_type, hashlib.sha256(a.data.getvalue()).hexdigest()[:12]) for a in content.attachments],
    )


def main():
    out = []
    cases = build_cases()
    for name, data in cases.items():
        msg = email.message_from_bytes(data)
        try:
            out.append(("body", name, mb.get_body_content(msg)))
        except Exception as e:  # noqa: BLE001
            out.append(("body", name, "EXC", type(e).__name__, str(e)))
    def mbox(items):
        return b"".join(b"From sender@example.com Mon Jan  1 00:00:00 2024\n" + data.replace(b"\r\n", b"\n") + b"\n\n" for data in items)

    box = mbox(d for n, d in cases.items() if n != "plain_undefined_codec")
    bad = mbox([cases["plain_ascii"], cases["plain_undefined_codec"], cases["html_single"]])
    for label, blob in (("lf", box), ("crlf", box.replace(b"\n", b"\r\n")), ("one message fails", bad), ("empty", b"")):
        try:
            results = list(mb.read_mbox_format_mail(io.BytesIO(blob), path="box.mbox"))
            out.append(("mbox", label, len(results)))
            for r in results:
                out.append(("msg", label, show(r)))
        except Exception as e:  # noqa: BLE001
            out.append(("mbox", label, "EXC", type(e).__name__, str(e)))
    text = "\n".join(repr(o) for o in out)
    print(text)
    print("sha256", hashlib.sha256(text.encode("utf-8", "backslashreplace")).hexdigest())


if __name__ == "__main__":
    main()
