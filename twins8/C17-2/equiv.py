"""Differential script for C17 (removed markup in HTML-family inputs)."""
import hashlib
import io
import json
import logging
import os
import sys
import zipfile

sys.path.insert(0, os.getcwd())
logging.disable(logging.CRITICAL)

from sharepoint2text.parsing.extractors import epub_extractor, html_extractor
from sharepoint2text.parsing.extractors.epub_extractor import read_epub
from sharepoint2text.parsing.extractors.html_extractor import html_to_text, read_html
from sharepoint2text.parsing.extractors.mail.msg_email_extractor import _html_to_text
from sharepoint2text.parsing.extractors.mhtml_extractor import read_mhtml

BODIES = [
    "",
    "plain text only",
    "<p>before</p><script>var a = '<p>hidden</p>';</script><p>after</p>",
    "<p>A</p><noscript><img src='x.gif'></noscript><p>B</p>",
    "<p>A</p><noscript><img src='x.gif'/><br><input name=q><param name=p><source src=s></noscript><p>B</p>",
    "<div>A<style>p{color:red}</style>B<!-- comment HIDDEN -->C</div>",
    "<p>A</p><object><object>HID1</object>HID2</object><p>B</p>",
    "<p>A</p><object><iframe>HID1</iframe>HID2</object><p>B</p>",
    "<p>A</p><iframe><p>HID</div></span></iframe><p>B</p>",
    "<p>A</p><noscript><b>HID</noscript><p>B</b></p>",
    "<p>A</p><embed src='x'><p>B</p><embed/>C",
    "<p>A</p><applet>HID<param name=a value=b>HID2</applet>B</applet>C",
    "<p>A</p><script>HID",
    "<p>A</p></script><p>B</p></noscript>C",
    "<p>A<![CDATA[ cdata HID ]]>B</p><!-- unterminated HID",
    "<P>A</P><SCRIPT>HID</SCRIPT><NoScript>HID<IMG></NOSCRIPT><P>B</P>",
    "<html lang='en'><head><title>T &amp; t</title><meta charset='utf-8'>"
    "<meta name='description' content='d'><style>HID</style></head>"
    "<body><h1>H<script>HID</script>1</h1><ul><li>one<noscript>HID</noscript></li>"
    "<li>two<ul><li>nested</li></ul></li></ul><a href='u'>link<style>HID</style>text</a>"
    "<table><caption>cap</caption><tr><th>h1</th><th>h2</th></tr>"
    "<tr><td>c<script>HID</script>1</td><td>c2<table><tr><td>in</td></tr></table></td></tr></table>"
    "tail<br>x<hr>y AT&T</body></html>",
    "<p>A</p><style><style>HID</style>HID2</style><p>B</p>",
    "<p>A</p><object data=x><embed src=y>HID</object><p>B</p>",
    "<p>x</p>trailing &amp",
    "<p>x</p><noscript>HID</noscript>trailing &am",
    "<br>lead<img alt=i>tail<wbr>more<input>end",
    "<div><span>a</div>b</span>c<p>d<p>e",
    "<p>​zero﻿ width</p><iframe src=a></iframe>Z",
]


def tree_of(html):
    builder = html_extractor._HtmlTreeBuilder()
    builder.feed(html)
    return {
        "tree": builder.get_tree(),
        "skip_depth": builder.skip_depth,
        "skip_tag": builder._skip_tag,
        "stack": [n["tag"] for n in builder.stack],
        "last_closed": builder.last_closed["tag"] if builder.last_closed else None,
        "rawdata": builder.rawdata,
    }


def html_doc(data, reader):
    try:
        out = []
        for doc in reader(io.BytesIO(data), path="dir/x.html"):
            out.append(
                {
                    "content": doc.content,
                    "tables": doc.tables,
                    "headings": doc.headings,
                    "links": doc.links,
                    "meta": repr(doc.metadata),
                    "full": doc.get_full_text(),
                }
            )
        return out
    except Exception as exc:  # noqa: BLE001
        return type(exc).__name__ + ":" + str(exc)


def mhtml_wrap(body):
    return (
        "MIME-Version: 1.0\r\n"
        'Content-Type: multipart/related; boundary="BOUND"; type="text/html"\r\n'
        "\r\n--BOUND\r\n"
        "Content-Type: text/html; charset=utf-8\r\n"
        "Content-Transfer-Encoding: 8bit\r\n"
        "Content-Location: http://x/\r\n\r\n"
        + body
        + "\r\n--BOUND--\r\n"
    ).encode("utf-8")


def xhtml_state(html):
    parser = epub_extractor._XhtmlTextExtractor()
    try:
        parser.feed(html)
    except Exception as exc:  # noqa: BLE001
        return type(exc).__name__
    return {
        "text": parser.get_text(),
        "title": parser.get_title(),
        "tables": parser.get_tables(),
        "parts": parser.text_parts,
        "skip_depth": parser.skip_depth,
        "skip_tag": parser._skip_tag,
        "flags": [parser.in_block, parser._in_table, parser._in_cell, parser._in_title],
        "pending": [parser._current_table, parser._current_row, parser._current_cell],
    }


def epub_of(bodies):
    buf = io.BytesIO()
    with zipfile.ZipFile(buf, "w") as zf:
        zf.writestr("mimetype", "application/epub+zip")
        zf.writestr(
            "META-INF/container.xml",
            '<?xml version="1.0"?><container version="1.0" '
            'xmlns="urn:oasis:names:tc:opendocument:xmlns:container"><rootfiles>'
            '<rootfile full-path="OEBPS/content.opf" '
            'media-type="application/oebps-package+xml"/></rootfiles></container>',
        )
        items = "".join(
            f'<item id="c{i}" href="c{i}.xhtml" media-type="application/xhtml+xml"/>'
            for i in range(len(bodies))
        )
        refs = "".join(f'<itemref idref="c{i}"/>' for i in range(len(bodies)))
        zf.writestr(
            "OEBPS/content.opf",
            '<?xml version="1.0"?><package xmlns="http://www.idpf.org/2007/opf" '
            'version="3.0"><metadata xmlns:dc="http://purl.org/dc/elements/1.1/">'
            "<dc:title>Book</dc:title></metadata>"
            f"<manifest>{items}</manifest><spine>{refs}</spine></package>",
        )
        for i, body in enumerate(bodies):
            zf.writestr(
                f"OEBPS/c{i}.xhtml",
                "<html><head><title>ch%d</title></head><body>%s</body></html>" % (i, body),
            )
    return buf.getvalue()


def epub_doc(bodies):
    try:
        out = []
        for doc in read_epub(io.BytesIO(epub_of(bodies)), path="b.epub"):
            out.append(
                {
                    "chapters": [(c.chapter_number, c.href, c.title, c.text, c.tables) for c in doc.chapters],
                    "full": doc.get_full_text(),
                }
            )
        return out
    except Exception as exc:  # noqa: BLE001
        return type(exc).__name__ + ":" + str(exc)


def main():
    digest = hashlib.sha256()
    for i, body in enumerate(BODIES):
        wrapped = "<html><body>" + body + "</body></html>"
        record = {
            "tree_raw": tree_of(body),
            "tree_wrapped": tree_of(wrapped),
            "html_raw": html_doc(body.encode("utf-8"), read_html),
            "html_wrapped": html_doc(wrapped.encode("utf-8"), read_html),
            "html_bom16": html_doc(b"\xff\xfe" + wrapped.encode("utf-16-le"), read_html),
            "to_text": html_to_text(body),
            "msg_to_text": _html_to_text(wrapped),
            "mhtml": html_doc(mhtml_wrap(wrapped), read_mhtml),
            "xhtml_raw": xhtml_state(body),
            "xhtml_wrapped": xhtml_state(wrapped),
        }
        line = json.dumps(record, sort_keys=True, ensure_ascii=True)
        digest.update(line.encode("ascii"))
        print(i, line)
    book = json.dumps(epub_doc(BODIES), sort_keys=True, ensure_ascii=True)
    digest.update(book.encode("ascii"))
    print("epub", book)
    print("html_to_text(None-like)", html_to_text("<p>x"), repr(html_to_text(" <b> ")))
    print("sha256", digest.hexdigest())


if __name__ == "__main__":
    main()
