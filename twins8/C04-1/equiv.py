import dataclasses
import io
import os
import sys
import zipfile
from xml.etree import ElementTree as ET

sys.path.insert(0, os.getcwd())

from sharepoint2text.parsing.extractors.open_office import _shared  # noqa: E402
from sharepoint2text.parsing.extractors.open_office import odt_extractor  # noqa: E402

NS = odt_extractor.NS
DECL = " ".join(f'xmlns:{k}="{v}"' for k, v in NS.items())


def doc(meta_inner, wrap=True):
    inner = f"<office:meta>{meta_inner}</office:meta>" if wrap else meta_inner
    return f'<?xml version="1.0" encoding="UTF-8"?><office:document-meta {DECL}>{inner}</office:document-meta>'


ALL = (
    "<dc:title>Title é中\U0001F600</dc:title><dc:description>Desc\nline2</dc:description>"
    "<dc:subject>Subj</dc:subject><dc:creator>Creator</dc:creator><dc:date>2024-01-02T03:04:05</dc:date>"
    "<dc:language>de-DE</dc:language><meta:keyword>k1</meta:keyword><meta:keyword>k2</meta:keyword>"
    "<meta:initial-creator>Init</meta:initial-creator><meta:creation-date>2020-01-01</meta:creation-date>"
    "<meta:editing-cycles>7</meta:editing-cycles><meta:editing-duration>PT1H</meta:editing-duration>"
    "<meta:generator>Gen/1.0</meta:generator>"
)
CASES = {
    "all": doc(ALL),
    "none": doc(""),
    "no_meta_elem": doc("", wrap=False),
    "empty_elements": doc("<dc:title/><dc:description></dc:description><dc:subject/><dc:creator/><dc:date/><dc:language/>"),
    "whitespace_text": doc("<dc:title>  </dc:title><dc:creator>\n</dc:creator><dc:subject> s </dc:subject>"),
    "duplicates_first_wins": doc("<dc:title>first</dc:title><dc:title>second</dc:title><dc:creator/><dc:creator>later</dc:creator>"),
    "child_markup": doc("<dc:title>head<text:span>inner</text:span>tail</dc:title><dc:description><text:span>only child</text:span></dc:description>"),
    "reordered": doc("<meta:generator>G</meta:generator><dc:language>en</dc:language><dc:date>d</dc:date><dc:creator>c</dc:creator><dc:subject>s</dc:subject><dc:description>x</dc:description><dc:title>t</dc:title>"),
    "nested_not_direct": doc("<meta:user-defined><dc:title>hidden</dc:title></meta:user-defined><dc:subject>direct</dc:subject>"),
    "bad_cycles": doc("<dc:title>t</dc:title><meta:editing-cycles>abc</meta:editing-cycles>"),
    "entities": doc("<dc:title>a &amp; b &lt;c&gt; &#65;</dc:title><dc:creator>&#x1F600;</dc:creator>"),
    "nested_meta": f'<?xml version="1.0"?><x {DECL}><y><office:meta><dc:title>deep</dc:title></office:meta></y><office:meta><dc:title>second meta</dc:title></office:meta></x>',
}


def show(md):
    d = dataclasses.asdict(md)
    return repr(sorted(d.items()))


print("None root:", show(_shared.extract_odf_metadata(None, NS)))
for name, xml in CASES.items():
    root = ET.fromstring(xml.encode("utf-8"))
    try:
        print(name, show(_shared.extract_odf_metadata(root, NS)))
    except Exception as exc:  # noqa: BLE001
        print(name, "EXC", type(exc).__name__, exc)

# namespace map without the dc / meta prefixes: ElementTree raises for an unknown prefix
for ns in ({"office": NS["office"]}, {"office": NS["office"], "dc": NS["dc"]}, {}):
    root = ET.fromstring(CASES["all"].encode("utf-8"))
    try:
        print(sorted(ns), show(_shared.extract_odf_metadata(root, ns)))
    except Exception as exc:  # noqa: BLE001
        print(sorted(ns), "EXC", type(exc).__name__, exc)


def make_odt(meta_xml):
    content = (
        f'<?xml version="1.0"?><office:document-content {DECL}><office:body><office:text>'
        "<text:p>Hello body</text:p></office:text></office:body></office:document-content>"
    )
    buf = io.BytesIO()
    with zipfile.ZipFile(buf, "w") as zf:
        zf.writestr("mimetype", "application/vnd.oasis.opendocument.text")
        zf.writestr("content.xml", content)
        if meta_xml is not None:
            zf.writestr("meta.xml", meta_xml)
    buf.seek(0)
    return buf


for name in ("all", "empty_elements", "duplicates_first_wins", None):
    for path in (None, "dir/sub/file.odt"):
        try:
            for res in odt_extractor.read_odt(make_odt(CASES[name] if name else None), path):
                md = res.get_metadata()
                d = dataclasses.asdict(md)
                d.pop("file_path", None)
                d.pop("folder_path", None)
                print("read_odt", name, path, repr(sorted(d.items())), repr(res.get_full_text()))
        except Exception as exc:  # noqa: BLE001
            print("read_odt", name, path, "EXC", type(exc).__name__, exc)
