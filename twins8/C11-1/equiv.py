import io, os, re, sys, logging, tempfile, shutil

sys.path.insert(0, os.getcwd())


class _Capture(logging.Handler):
    def __init__(self):
        super().__init__(level=logging.WARNING)
        self.lines = []

    def emit(self, record):
        self.lines.append(f"{record.levelname}:{record.name}:{record.getMessage()}")


CAPTURE = _Capture()
_root_logger = logging.getLogger()
_root_logger.handlers[:] = [CAPTURE]
_root_logger.setLevel(logging.WARNING)


def drain_log():
    out, CAPTURE.lines = CAPTURE.lines, []
    return out

import itertools
import zipfile

from sharepoint2text.parsing.exceptions import ExtractionZipBombError
from sharepoint2text.parsing.extractors.util.zip_bomb import (
    DEFAULT_ZIP_BOMB_LIMITS,
    ZipBombLimits,
    open_zipfile,
    validate_zip_bytesio,
    validate_zipfile,
)


class FakeZip:
    def __init__(self, infos, fail=None):
        self._infos, self._fail = infos, fail

    def infolist(self):
        if self._fail is not None:
            raise self._fail
        return self._infos


def entry(name, file_size, compress_size):
    info = zipfile.ZipInfo(name)
    info.file_size, info.compress_size = file_size, compress_size
    return info


class Bare:
    """Entry object without size attributes / without is_dir."""

    def __init__(self, filename, **kw):
        self.filename = filename
        self.__dict__.update(kw)


def verdict(call):
    try:
        call()
        return "accepted"
    except ExtractionZipBombError as exc:
        return f"ZipBomb: {exc} | cause={type(exc.__cause__).__name__}"
    except Exception as exc:  # noqa: BLE001
        return f"{type(exc).__name__}: {exc}"


def make_zip(members, compression=zipfile.ZIP_DEFLATED):
    buf = io.BytesIO()
    with zipfile.ZipFile(buf, "w", compression) as zf:
        for name, data in members:
            zf.writestr(zipfile.ZipInfo(name, (2020, 1, 1, 0, 0, 0)), data, compression)
    return buf.getvalue()


def forge_sizes(blob, name, file_size=None, compress_size=None):
    """Rewrite the sizes of one member in the central directory only."""
    raw = bytearray(blob)
    pos = raw.find(b"PK\x01\x02")
    while pos != -1:
        nlen = int.from_bytes(raw[pos + 28:pos + 30], "little")
        if bytes(raw[pos + 46:pos + 46 + nlen]) == name.encode():
            if compress_size is not None:
                raw[pos + 20:pos + 24] = compress_size.to_bytes(4, "little")
            if file_size is not None:
                raw[pos + 24:pos + 28] = file_size.to_bytes(4, "little")
        pos = raw.find(b"PK\x01\x02", pos + 4)
    return bytes(raw)

LIMITS = ZipBombLimits(max_entries=3, max_total_uncompressed_bytes=1000, max_single_uncompressed_bytes=600,
                       max_total_compression_ratio=20.0, max_entry_compression_ratio=50.0)

print("== single entry lattice")
for source in (None, "", "probe"):
    for fs, cs in itertools.product((0, 1, 599, 600, 601, 1000, 1001), (0, 1, 11, 12, 13, 30, 600)):
        zf = FakeZip([entry("a", fs, cs)])
        print(source, fs, cs, "->", verdict(lambda: validate_zipfile(zf, limits=LIMITS, source=source)))

print("== entry ratio boundary (50) and total ratio boundary (20)")
for fs, cs in ((500, 10), (501, 10), (499, 10), (50, 1), (51, 1), (200, 10), (201, 10), (199, 10), (20, 1), (21, 1)):
    zf = FakeZip([entry("a", fs, cs)])
    print(fs, cs, "->", verdict(lambda: validate_zipfile(zf, limits=LIMITS, source="r")))

print("== several entries: count, totals, order of the clauses")
COMBOS = [
    [],
    [("d/", 0, 0)] * 5,
    [("a", 1, 1)] * 3, [("a", 1, 1)] * 4, [("d/", 0, 0), ("a", 1, 1), ("b", 1, 1), ("c", 1, 1)],
    [("a", 500, 100), ("b", 500, 100)], [("a", 500, 100), ("b", 501, 100)], [("a", 500, 100), ("b", 499, 100)],
    [("a", 600, 100), ("b", 400, 1)], [("a", 601, 0), ("b", 400, 1)], [("a", 400, 0), ("b", 601, 1)],
    [("a", 300, 15), ("b", 300, 15)], [("a", 300, 15), ("b", 300, 14)], [("a", 300, 15), ("b", 301, 15)],
    [("a", 0, 0), ("b", 0, 5)], [("a", 0, 0), ("b", 10, 0)], [("d/", 700, 0), ("a", 10, 10)],
    [("d/", 10, 0), ("e/", 99999, 1), ("a", 600, 600)], [("a", 999, 999), ("b", 1, 1), ("c", 1, 1)],
    [("a", 400, 8), ("b", 400, 100)], [("a", 400, 7), ("b", 400, 100)],
]
for combo in COMBOS:
    for source in (None, "ctx"):
        zf = FakeZip([entry(*e) for e in combo])
        print(combo if len(combo) < 5 else (combo[0], len(combo)), source, "->",
              verdict(lambda: validate_zipfile(zf, limits=LIMITS, source=source)))

print("== odd entry objects and failing containers")
odd = [
    [Bare("x")], [Bare("x/")], [Bare("x", file_size=None, compress_size=None)], [Bare("x", file_size=700)],
    [Bare("x", file_size=10, compress_size=None)], [Bare("x", file_size="10", compress_size="2")],
    [Bare("x", file_size=10.9, compress_size=1.9)], [Bare("x", file_size=-5, compress_size=1)],
    [Bare("x", file_size=10, compress_size=-1)], [Bare("x", file_size="ten", compress_size=1)],
    [Bare("x/", file_size=700, is_dir=lambda: False)], [Bare("x", file_size=700, is_dir=lambda: True)],
    [Bare("x/", file_size=700, is_dir=True)], [Bare("x", file_size=True, compress_size=True)],
]
for infos in odd:
    zf = FakeZip(infos)
    print(sorted((k, str(v)[:8]) for k, v in vars(infos[0]).items()), "->",
          verdict(lambda: validate_zipfile(zf, limits=LIMITS, source="odd")))
for fail in (zipfile.BadZipFile("bad"), ValueError("closed"), RuntimeError("boom")):
    for source in (None, "f"):
        zf = FakeZip([], fail=fail)
        print("infolist raises", type(fail).__name__, source, "->", verdict(lambda: validate_zipfile(zf, source=source)))

print("== defaults")
print(DEFAULT_ZIP_BOMB_LIMITS)
GIB = 1024 ** 3
for fs, cs in ((GIB, GIB), (GIB + 1, GIB), (GIB, GIB // 500), (GIB, GIB // 500 - 1), (500, 1), (501, 1), (200, 1), (201, 1)):
    zf = FakeZip([entry("a", fs, cs)])
    print(fs, cs, "->", verdict(lambda: validate_zipfile(zf)))
for n in (49999, 50000, 50001):
    zf = FakeZip([entry("a", 0, 0)] * n)
    print(n, "entries ->", verdict(lambda: validate_zipfile(zf, source="many")))
zf = FakeZip([entry("a", GIB, GIB)] * 4 + [entry("b", 1, 1)])
print("4 GiB + 1 ->", verdict(lambda: validate_zipfile(zf)))
zf = FakeZip([entry("a", GIB, GIB)] * 4)
print("4 GiB ->", verdict(lambda: validate_zipfile(zf)))

print("== real containers through the sanctioned openers")
good = make_zip([("d/", b""), ("a.txt", b"hello " * 50), ("b.txt", b"x")])
bomb = make_zip([("a.txt", b"\x00" * 400000)])
forged = forge_sizes(good, "a.txt", file_size=2 * GIB)
zero = forge_sizes(good, "a.txt", compress_size=0)
for label, blob in (("good", good), ("bomb", bomb), ("forged", forged), ("zero", zero), ("not a zip", b"nope")):
    for source in (None, "opener"):
        def opened():
            stream = io.BytesIO(blob)
            stream.seek(3)
            zf = open_zipfile(stream, source=source)
            try:
                return zf.namelist()
            finally:
                zf.close()

        stream = io.BytesIO(blob)
        stream.seek(3)
        print(label, source, "open_zipfile ->", verdict(opened))
        print(label, source, "validate_zip_bytesio ->",
              verdict(lambda: validate_zip_bytesio(stream, source=source)), "pos", stream.tell())
