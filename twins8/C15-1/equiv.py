"""Differential script: the temporary pypdf char-map patch (install / restore / lock)."""
import hashlib
import io
import logging
import os
import sys
import threading

sys.path.insert(0, os.getcwd())
logging.disable(logging.CRITICAL)

from sharepoint2text.parsing.extractors.pdf import pdf_extractor as pe  # noqa: E402


def minimal_pdf(lines):
    content = "BT /F1 12 Tf 72 720 Td " + " ".join(f"({t}) Tj 0 -14 Td" for t in lines) + " ET"
    objs = [
        "<< /Type /Catalog /Pages 2 0 R >>",
        "<< /Type /Pages /Kids [3 0 R] /Count 1 >>",
        "<< /Type /Page /Parent 2 0 R /MediaBox [0 0 612 792] /Contents 4 0 R /Resources << /Font << /F1 5 0 R >> >> >>",
        f"<< /Length {len(content)} >>\nstream\n{content}\nendstream",
        "<< /Type /Font /Subtype /Type1 /BaseFont /Helvetica >>",
    ]
    out = b"%PDF-1.4\n"
    offsets = []
    for i, o in enumerate(objs, start=1):
        offsets.append(len(out))
        out += f"{i} 0 obj\n{o}\nendobj\n".encode("latin-1")
    xref = len(out)
    out += f"xref\n0 {len(objs) + 1}\n".encode() + b"0000000000 65535 f \n"
    for off in offsets:
        out += f"{off:010d} 00000 n \n".encode()
    out += f"trailer\n<< /Size {len(objs) + 1} /Root 1 0 R >>\nstartxref\n{xref}\n%%EOF\n".encode()
    return out


_TARGETS = list(pe._get_pypdf_char_map_patcher()[0])


def targets():
    return _TARGETS


def snapshot():
    return [getattr(m, n) for m, n in targets()]


def same(a, b):
    return [x is y for x, y in zip(a, b)]


def main():
    out = []
    base = snapshot()
    out.append(("targets", [(m.__name__, n) for m, n in targets()]))

    # plain use
    with pe._patched_build_char_map():
        inside = snapshot()
        out.append(("inside differs", [x is not y for x, y in zip(inside, base)], [getattr(f, "__name__", "?") for f in inside]))
    out.append(("restored after plain use", same(snapshot(), base)))

    # nested use in one thread (the lock is re-entrant), restored level by level
    with pe._patched_build_char_map():
        level1 = snapshot()
        with pe._patched_build_char_map():
            level2 = snapshot()
            out.append(("nested differs", [x is not y for x, y in zip(level2, level1)]))
        out.append(("restored to level 1", same(snapshot(), level1)))
    out.append(("restored after nesting", same(snapshot(), base)))

    # an exception inside the block
    try:
        with pe._patched_build_char_map():
            raise KeyError("boom")
    except Exception as e:  # noqa: BLE001
        out.append(("exception passes", type(e).__name__, str(e)))
    out.append(("restored after exception", same(snapshot(), base)))

    # the wrapper factory fails for the second target: the first one is put back
    real_patcher = pe._get_pypdf_char_map_patcher

    def failing_patcher():
        patch_targets, make_wrapper = real_patcher()
        calls = []

        def factory(original):
            calls.append(original)
            if len(calls) >= len(patch_targets):
                raise RuntimeError("factory failed")
            return make_wrapper(original)

        return patch_targets, factory

    pe._get_pypdf_char_map_patcher = failing_patcher
    try:
        with pe._patched_build_char_map():
            out.append(("not reached",))
    except Exception as e:  # noqa: BLE001
        out.append(("factory failure", type(e).__name__, str(e)))
    finally:
        pe._get_pypdf_char_map_patcher = real_patcher
    out.append(("restored after factory failure", same(snapshot(), base)))

    # unsupported pypdf: the block still runs, nothing is patched
    def unsupported():
        raise AttributeError("no such function")

    pe._get_pypdf_char_map_patcher = unsupported
    try:
        with pe._patched_build_char_map():
            out.append(("unsupported: body runs, untouched", same(snapshot(), base)))
    finally:
        pe._get_pypdf_char_map_patcher = real_patcher
    out.append(("lock free afterwards", pe._PYPDF_PATCH_LOCK.acquire(blocking=False)))
    pe._PYPDF_PATCH_LOCK.release()

    # documents: good, failing, good again; sequentially and from 8 threads
    good = minimal_pdf(["Hello 123", "second line 456"])
    inputs = [("good", good), ("garbage", b"not a pdf at all"), ("truncated", good[:200]), ("good2", minimal_pdf(["x"]))]

    def extract(data):
        try:
            return [d.get_full_text() for d in pe.read_pdf(io.BytesIO(data), path="f.pdf")]
        except Exception as e:  # noqa: BLE001
            return ("EXC", type(e).__name__)

    for name, data in inputs:
        out.append(("sequential", name, extract(data), same(snapshot(), base)))

    results = {}
    errors = []

    def worker(k):
        try:
            acc = []
            for _ in range(15):
                for name, data in inputs:
                    acc.append((name, extract(data)))
                with pe._patched_build_char_map():
                    pass
            results[k] = acc
        except Exception as e:  # noqa: BLE001
            errors.append(type(e).__name__)

    threads = [threading.Thread(target=worker, args=(k,)) for k in range(8)]
    for t in threads:
        t.start()
    for t in threads:
        t.join()
    out.append(("threads errors", errors))
    out.append(("threads all equal", len({repr(v) for v in results.values()}), repr(results[0][:4])))
    out.append(("restored after threads", same(snapshot(), base)))
    out.append(("sequential again", extract(good)))

    text = "\n".join(repr(o) for o in out)
    print(text)
    print("sha256", hashlib.sha256(text.encode("utf-8")).hexdigest())


if __name__ == "__main__":
    main()
