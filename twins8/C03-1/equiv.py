import io
import os
import sys
import zipfile

sys.path.insert(0, os.getcwd())

from sharepoint2text.parsing.extractors.ms_modern import pptx_extractor as px  # noqa: E402

P = "http://schemas.openxmlformats.org/presentationml/2006/main"
A = "http://schemas.openxmlformats.org/drawingml/2006/main"
R = "http://schemas.openxmlformats.org/officeDocument/2006/relationships"
RT = "http://schemas.openxmlformats.org/officeDocument/2006/relationships/"


def slide_xml(text):
    body = ""
    if text is not None:
        body = (
            "<p:sp><p:nvSpPr><p:cNvPr id='2' name='TextBox 1'/><p:cNvSpPr txBox='1'/><p:nvPr/></p:nvSpPr>"
            f"<p:spPr/><p:txBody><a:bodyPr/><a:p><a:r><a:t>{text}</a:t></a:r></a:p></p:txBody></p:sp>"
        )
    return (
        f"<?xml version='1.0'?><p:sld xmlns:p='{P}' xmlns:a='{A}' xmlns:r='{R}'>"
        f"<p:cSld><p:spTree><p:nvGrpSpPr><p:cNvPr id='1' name=''/><p:cNvGrpSpPr/><p:nvPr/></p:nvGrpSpPr><p:grpSpPr/>{body}</p:spTree></p:cSld></p:sld>"
    )


def pres_xml(rids, with_list=True, extra_lists=""):
    ids = "".join(
        f"<p:sldId id='{256 + i}'" + (f" r:id='{rid}'" if rid is not None else "") + "/>"
        for i, rid in enumerate(rids)
    )
    lst = f"<p:sldIdLst>{ids}</p:sldIdLst>" if with_list else ""
    return (
        f"<?xml version='1.0'?><p:presentation xmlns:p='{P}' xmlns:r='{R}'>"
        f"<p:sldMasterIdLst><p:sldMasterId id='2147483648' r:id='rIdM'/></p:sldMasterIdLst>{lst}{extra_lists}</p:presentation>"
    )


def rels_xml(rels):
    items = "".join(
        f"<Relationship Id='{rid}' Type='{typ}' Target='{target}'/>" for rid, typ, target in rels
    )
    return (
        "<?xml version='1.0'?><Relationships xmlns='http://schemas.openxmlformats.org/package/2006/relationships'>"
        f"{items}</Relationships>"
    )


def build(rids, rels, slides, pres=True, relsfile=True, **kw):
    buf = io.BytesIO()
    with zipfile.ZipFile(buf, "w") as zf:
        zf.writestr(
            "[Content_Types].xml",
            "<?xml version='1.0'?><Types xmlns='http://schemas.openxmlformats.org/package/2006/content-types'/>",
        )
        if pres:
            zf.writestr("ppt/presentation.xml", pres_xml(rids, **kw))
        if relsfile:
            zf.writestr("ppt/_rels/presentation.xml.rels", rels_xml(rels))
        for name, text in slides.items():
            zf.writestr(name, slide_xml(text))
    buf.seek(0)
    return buf


S = RT + "slide"
SLIDES3 = {"ppt/slides/slide1.xml": "ONE", "ppt/slides/slide2.xml": "TWO", "ppt/slides/slide3.xml": "THREE"}
CASES = {
    "in_order": (["rId1", "rId2", "rId3"], [("rId1", S, "slides/slide1.xml"), ("rId2", S, "slides/slide2.xml"), ("rId3", S, "slides/slide3.xml")], SLIDES3, {}),
    "permuted": (["rId3", "rId1", "rId2"], [("rId1", S, "slides/slide1.xml"), ("rId2", S, "slides/slide2.xml"), ("rId3", S, "slides/slide3.xml")], SLIDES3, {}),
    "absolute_and_parent": (["a", "b", "c"], [("a", S, "/ppt/slides/slide2.xml"), ("b", S, "../slides/slide1.xml"), ("c", S, "//ppt/slides/slide3.xml")], SLIDES3, {}),
    "plain_and_dotdot_inside": (["a", "b", "c"], [("a", S, "slide9.xml"), ("b", S, "x/../slides/slide1.xml"), ("c", S, "../../slides/slide3.xml")], dict(SLIDES3, **{"ppt/slide9.xml": "NINE"}), {}),
    "master_type_contains_slide": (["rIdM", "rId1"], [("rIdM", RT + "slideMaster", "slideMasters/slideMaster1.xml"), ("rId1", S, "slides/slide1.xml")], SLIDES3, {}),
    "uppercase_type": (["rId1", "rId2"], [("rId1", RT.upper() + "SLIDE", "slides/slide1.xml"), ("rId2", RT + "theme", "slides/slide2.xml")], SLIDES3, {}),
    "missing_rel_and_rid": (["rId1", None, "rIdX", "", "rId3"], [("rId1", S, "slides/slide1.xml"), ("rId3", S, "slides/slide3.xml")], SLIDES3, {}),
    "empty_id_or_target": (["", "rId2", "rId3"], [("", S, "slides/slide1.xml"), ("rId2", S, ""), ("rId3", S, "slides/slide3.xml")], SLIDES3, {}),
    "duplicate_rel_ids_last_wins": (["rId1", "rId1"], [("rId1", S, "slides/slide1.xml"), ("rId1", S, "slides/slide2.xml")], SLIDES3, {}),
    "same_slide_twice": (["rId1", "rId2", "rId1"], [("rId1", S, "slides/slide1.xml"), ("rId2", S, "slides/slide2.xml")], SLIDES3, {}),
    "target_not_in_zip": (["rId1", "rId2"], [("rId1", S, "slides/slide7.xml"), ("rId2", S, "slides/slide2.xml")], SLIDES3, {}),
    "no_list": (["rId1"], [("rId1", S, "slides/slide1.xml")], SLIDES3, {"with_list": False}),
    "two_lists_first_wins": (["rId2"], [("rId1", S, "slides/slide1.xml"), ("rId2", S, "slides/slide2.xml")], SLIDES3, {"extra_lists": f"<p:sldIdLst><p:sldId id='300' r:id='rId1'/></p:sldIdLst>"}),
    "empty_list": ([], [("rId1", S, "slides/slide1.xml")], SLIDES3, {}),
    "no_presentation": (["rId1"], [("rId1", S, "slides/slide1.xml")], SLIDES3, {"pres": False}),
    "no_rels": (["rId1"], [], SLIDES3, {"relsfile": False}),
    "empty_and_text_slides": (["rId1", "rId2", "rId3"], [("rId1", S, "slides/slide1.xml"), ("rId2", S, "slides/slide2.xml"), ("rId3", S, "slides/slide3.xml")], {"ppt/slides/slide1.xml": None, "ppt/slides/slide2.xml": " ", "ppt/slides/slide3.xml": "LAST"}, {}),
}

for name, (rids, rels, slides, kw) in CASES.items():
    print("==", name)
    try:
        ctx = px._PptxContext(build(rids, rels, slides, **kw))
        print("  order", ctx.slide_order, ctx._compute_slide_order())
        ctx.close()
    except Exception as exc:  # noqa: BLE001
        print("  ctx EXC", type(exc).__name__, exc)
    try:
        for res in px.read_pptx(build(rids, rels, slides, **kw), "deck.pptx"):
            units = list(res.iterate_units())
            print("  numbers", [u.get_metadata().unit_number for u in units])
            print("  texts", [u.get_text() for u in units])
            print("  full", repr(res.get_full_text()))
    except Exception as exc:  # noqa: BLE001
        print("  read EXC", type(exc).__name__, exc)

