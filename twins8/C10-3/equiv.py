import io, os, re, sys, logging, tempfile, shutil

sys.path.insert(0, os.getcwd())


class _Capture(logging.Handler):
    def __init__(self):
        super().__init__(level=logging.WARNING)
        self.lines = []

    def emit(self, record):
        self.lines.append(f"{record.levelname}:{record.name}:{record.getMessage()}")


CAPTURE = _Capture()
_root_logger = logging.getLogger()
_root_logger.handlers[:] = [CAPTURE]
_root_logger.setLevel(logging.WARNING)


def drain_log():
    out, CAPTURE.lines = CAPTURE.lines, []
    return out

# ---- minimal independent 7z writer (in memory) ------------------------------
import lzma as _lzma, struct as _struct, zlib as _zlib


def _num(v):
    for extra in range(8):
        if v < (1 << (8 * extra + 7 - extra)):
            first = ((0xFF << (8 - extra)) & 0xFF) | (v >> (8 * extra))
            return bytes([first]) + (v & ((1 << (8 * extra)) - 1)).to_bytes(extra, "little")
    return b"\xff" + v.to_bytes(8, "little")


def _bits(flags):
    out = bytearray()
    cur, mask = 0, 0x80
    for f in flags:
        if f:
            cur |= mask
        mask >>= 1
        if mask == 0:
            out.append(cur)
            cur, mask = 0, 0x80
    if mask != 0x80:
        out.append(cur)
    return bytes(out)


def _pack(method, data):
    if method == "copy":
        return data, b"\x01\x00"
    if method == "lzma":
        raw = _lzma.compress(data, format=_lzma.FORMAT_ALONE,
                             filters=[{"id": _lzma.FILTER_LZMA1, "preset": 6}])
        return raw[13:], b"\x23\x03\x01\x01" + _num(5) + raw[:5]
    if method == "lzma2":
        raw = _lzma.compress(data, format=_lzma.FORMAT_RAW,
                             filters=[{"id": _lzma.FILTER_LZMA2, "dict_size": 1 << 20}])
        return raw, b"\x21\x21" + _num(1) + bytes([18])
    raise ValueError(method)


def make_7z(entries, method="copy", solid=True, tamper=None, attrs=None, attr_ext=True,
            substreams=True, counts=None):
    """entries: list of (name, data) ; data None = directory, b'' = empty file.

    solid: True = one folder, False = one folder per file, n = folders of n files."""
    with_data = [(n, d) for n, d in entries if d]
    chunk = (len(with_data) or 1) if solid is True else (1 if solid is False else solid)
    groups = [with_data[i:i + chunk] for i in range(0, len(with_data), chunk)]
    packed, folders, unpack = [], [], []
    for g in groups:
        blob = b"".join(d for _, d in g)
        p, coder = _pack(method, blob)
        packed.append(p)
        folders.append(b"\x01" + coder)
        unpack.append(len(blob))
    if tamper:
        packed = tamper(packed)
    h = bytearray(b"\x01")
    if groups:
        h += b"\x04"
        h += b"\x06" + _num(0) + _num(len(packed)) + b"\x09" + b"".join(_num(len(p)) for p in packed) + b"\x00"
        h += b"\x07\x0b" + _num(len(folders)) + b"\x00" + b"".join(folders)
        h += b"\x0c" + b"".join(_num(u) for u in unpack) + b"\x00"
        if substreams:
            h += b"\x08\x0d" + b"".join(_num(c) for c in (counts or [len(g) for g in groups]))
            if counts:
                flat = [len(d) for _, d in with_data] + [1] * sum(counts)
                sizes = b"".join(_num(flat.pop(0)) for c in counts for _ in range(max(c - 1, 0)))
            else:
                sizes = b"".join(_num(len(d)) for g in groups for _, d in g[:-1])
            if sizes:
                h += b"\x09" + sizes
            h += b"\x00"
        h += b"\x00"
    h += b"\x05" + _num(len(entries))
    empty_stream = [not d for _, d in entries]
    if any(empty_stream):
        v = _bits(empty_stream)
        h += b"\x0e" + _num(len(v)) + v
        ef = _bits([d is not None for _, d in entries if not d])
        h += b"\x0f" + _num(len(ef)) + ef
    names = b"\x00" + b"".join(n.encode("utf-16-le") + b"\x00\x00" for n, _ in entries)
    h += b"\x11" + _num(len(names)) + names
    if attrs is not None:
        a = b"\x01" + (b"\x00" if attr_ext else b"") + b"".join(_struct.pack("<I", x) for x in attrs)
        h += b"\x15" + _num(len(a)) + a
    h += b"\x00\x00"
    body = b"".join(packed)
    start = _struct.pack("<QQI", len(body), len(h), _zlib.crc32(bytes(h)) & 0xFFFFFFFF)
    return (b"7z\xbc\xaf\x27\x1c\x00\x04" + _struct.pack("<I", _zlib.crc32(start) & 0xFFFFFFFF)
            + start + body + bytes(h))
# -----------------------------------------------------------------------------
import bz2
import gzip
import lzma
import tarfile
import zipfile

from sharepoint2text.parsing.extractors.archive_extractor import (
    _detect_archive_type_optimized,
    read_archive,
)


def make_tar(members, mode="w"):
    buf = io.BytesIO()
    with tarfile.open(fileobj=buf, mode=mode, format=tarfile.USTAR_FORMAT) as tf:
        for name, data in members:
            info = tarfile.TarInfo(name)
            info.size = len(data)
            info.mtime = 0
            tf.addfile(info, io.BytesIO(data))
    return buf.getvalue()


def make_zip(members, compression=zipfile.ZIP_STORED):
    buf = io.BytesIO()
    with zipfile.ZipFile(buf, "w", compression) as zf:
        for name, data in members:
            zf.writestr(zipfile.ZipInfo(name, (2020, 1, 1, 0, 0, 0)), data)
    return buf.getvalue()


def rows(results):
    return [(r.get_metadata().filename, r.get_metadata().file_path, r.get_full_text()[:30]) for r in results]


def probe(label, blob, start=0):
    stream = io.BytesIO(blob)
    stream.seek(start)
    kind = _detect_archive_type_optimized(stream)
    print("detect", label, len(blob), "->", kind, "pos", stream.tell())


def run(label, blob, path):
    try:
        out = rows(read_archive(io.BytesIO(blob), path))
    except Exception as exc:  # noqa: BLE001
        out = (type(exc).__name__, str(exc), type(exc.__cause__).__name__)
    print("read", label, path, "->", repr(out))
    for line in drain_log():
        print("   log", line)


DOCS = [("a.txt", b"alpha"), ("dir/b.md", b"# beta"), ("c.csv", b"k,v\n1,2\n")]

print("== synthetic headers")
ustar = b"\x00" * 257 + b"ustar"
for label, blob in [
    ("empty", b""), ("one byte", b"P"), ("PK only", b"PK"), ("PK34", b"PK\x03\x04"), ("PK56", b"PK\x05\x06"),
    ("PK78 spanned", b"PK\x07\x08"), ("PK34 long", b"PK\x03\x04" + b"\x00" * 600),
    ("7z", b"7z\xbc\xaf\x27\x1c"), ("7z short", b"7z\xbc\xaf\x27"), ("7z long", b"7z\xbc\xaf\x27\x1c" + b"\x00" * 300),
    ("gz", b"\x1f\x8b"), ("gz byte", b"\x1f"), ("BZ", b"BZ"), ("BZh", b"BZh91AY"), ("xz", b"\xfd7zXZ\x00"),
    ("xz short", b"\xfd7zXZ"), ("text", b"hello world"), ("nul", b"\x00" * 512),
    ("ustar 261", ustar[:261]), ("ustar 262", ustar), ("ustar 263", ustar + b"\x00"), ("ustar 512", ustar + b"\x00" * 250),
    ("ustar space", b"\x00" * 257 + b"ustar  \x00"), ("ustar at 256", b"\x00" * 256 + b"ustar" + b"\x00" * 300),
    ("ustar at 258", b"\x00" * 258 + b"ustar" + b"\x00" * 300), ("USTAR upper", b"\x00" * 257 + b"USTAR"),
    ("PK name + ustar", b"PK\x03\x04" + b"\x00" * 253 + b"ustar\x0000"),
    ("BZ name + ustar", b"BZ2020.txt" + b"\x00" * 247 + b"ustar\x0000"),
    ("7z name + ustar", b"7z\xbc\xaf\x27\x1c" + b"\x00" * 251 + b"ustar"),
    ("gz name + ustar, cut", (b"\x1f\x8b" + b"\x00" * 255 + b"ustar")[:261]),
    ("ustar beyond probe", b"\x00" * 600 + b"ustar"),
]:
    probe(label, blob)
    probe(label + " (from end)", blob, len(blob))

print("== real archives")
tar_plain = make_tar(DOCS)
zip_stored = make_zip(DOCS)
zip_deflated = make_zip(DOCS, zipfile.ZIP_DEFLATED)
CASES = [
    ("tar", tar_plain), ("tar.gz", make_tar(DOCS, "w:gz")), ("tar.bz2", make_tar(DOCS, "w:bz2")),
    ("tar.xz", make_tar(DOCS, "w:xz")), ("zip stored", zip_stored), ("zip deflated", zip_deflated),
    ("zip empty", make_zip([])), ("7z solid lzma2", make_7z(DOCS, "lzma2", True)),
    ("7z per file copy", make_7z(DOCS, "copy", False)),
    ("tar, first member BZ2020.txt", make_tar([("BZ2020.txt", b"bz named"), ("z.txt", b"z")])),
    ("tar, first member PK", make_tar([("PK\x03\x04.txt", b"pk named")])),
    ("tar, first member 7z", make_tar([("7z¼.txt", b"seven")])),
    ("gzip of text, no tar", gzip.compress(b"just text")), ("bz2 of text", bz2.compress(b"just text")),
    ("xz of text", lzma.compress(b"just text")), ("gz of zip", gzip.compress(zip_stored)),
    ("tar cut to 200", tar_plain[:200]), ("zip with junk prefix", b"junk" + zip_stored),
    ("7z magic only", b"7z\xbc\xaf\x27\x1c" + b"\x00" * 40), ("plain text", b"hello"), ("empty", b""),
]
for label, blob in CASES:
    probe(label, blob)
    for path in ("arch.bin", "arch.zip", None):
        run(label, blob, path)
