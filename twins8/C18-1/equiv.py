"""Differential script for C18 (SharePoint listing: complete, exact, fault-contained)."""
import hashlib
import io
import json
import logging
import os
import sys
from datetime import datetime, timedelta, timezone
from urllib.error import HTTPError, URLError
from urllib.parse import quote, unquote

sys.path.insert(0, os.getcwd())
logging.disable(logging.CRITICAL)

from sharepoint2text.sharepoint_io import client as C
from sharepoint2text.sharepoint_io.client import (
    EntraIDAppCredentials,
    FileFilter,
    SharePointFileMetadata,
    SharePointRestClient,
    _parse_iso_datetime,
)

BASE = "https://graph.microsoft.com/v1.0"
EXPAND = "?$expand=listItem($expand=fields)"


def F(name, fid, created=None, modified=None, **extra):
    item = {"name": name, "id": fid, "webUrl": "https://sp/" + quote(name), "file": {"mimeType": "x/" + fid}}
    if created is not None:
        item["createdDateTime"] = created
    if modified is not None:
        item["lastModifiedDateTime"] = modified
    item.update(extra)
    return item


def D(name, fid, children, **extra):
    item = {"name": name, "id": fid, "folder": {"childCount": len(children)}, "_children": children}
    item.update(extra)
    return item


LIBRARY = [
    F("root.txt", "f1", "2024-01-01T00:00:00Z", "2024-02-01T10:00:00.5Z", size=3),
    D(
        "Reports",
        "d1",
        [
            F("a.PDF", "f2", "2024-03-01T00:00:00Z", "2024-03-02T00:00:00Z",
              listItem={"fields": {"Title": "t", "Custom": 7, "@odata.etag": "x", "id": "9"}}),
            F("b.docx", "f3", "2024-03-01T00:00:00.1234567Z", "2024-03-05T12:00:00+02:00"),
            D("2024 Q1 & more", "d2", [
                F("deep #1.pdf", "f4", "2024-04-01T00:00:00Z", "2024-04-01T00:00:00Z"),
                D("empty", "d3", []),
                F("nodates.pdf", "f5"),
                F("baddate.pdf", "f6", "yesterday", "2024-13-01T00:00:00Z"),
            ]),
            "not-a-dict",
            {"name": "neither", "id": "n1"},
            {"name": "both", "id": "n2", "file": {}, "folder": {}, "_children": [F("inboth.txt", "f7")]},
        ],
    ),
    D("Ärchive", "d4", [F("z.pdf", "f8", "2023-12-31T23:59:59Z", "2024-01-01T00:00:00Z", file="weird")]),
    D("noid", None, [F("unreachable.txt", "f9")]),
    F("last.PdF", "f10", "2024-03-01T00:00:00Z", "2024-03-01T00:00:00Z", **{"@microsoft.graph.downloadUrl": "https://dl/10"}),
]


def index_library(items, by_id, by_path, prefix=""):
    for item in items:
        if isinstance(item, dict) and "_children" in item:
            path = prefix + "/" + item["name"] if prefix else item["name"]
            if item.get("id"):
                by_id[item["id"]] = item
            by_path[path] = item
            index_library(item["_children"], by_id, by_path, path)


BY_ID, BY_PATH = {}, {}
index_library(LIBRARY, BY_ID, BY_PATH)


def public(item):
    if isinstance(item, dict):
        return {k: v for k, v in item.items() if k != "_children"}
    return item


class FakeResponse:
    def __init__(self, log, status, body, read_error=None, no_status_attr=False):
        self._log, self._body, self._read_error = log, body, read_error
        if not no_status_attr:
            self.status = status
        self._code = status
        self.closed = 0
        log["opened"].append(self)

    def getcode(self):
        return self._code

    def read(self):
        if self._read_error:
            raise self._read_error
        return self._body

    def close(self):
        self.closed += 1


class FakeHTTPError(HTTPError):
    def __init__(self, log, url, code, body):
        super().__init__(url, code, "msg", {}, io.BytesIO(body))
        self.closed_count = 0
        log["http_errors"].append(self)

    def close(self):
        self.closed_count += 1
        super().close()


class Transport:
    def __init__(self, page_size, fault=None):
        self.page_size = page_size
        self.fault = fault  # (index, kind)
        self.log = {"urls": [], "opened": [], "http_errors": []}

    def __call__(self, request, timeout=None):
        url = request.full_url
        index = len(self.log["urls"])
        self.log["urls"].append((request.get_method(), url, sorted(request.header_items()), timeout))
        if self.fault and self.fault[0] == index:
            kind = self.fault[1]
            self.fault = None  # a retry is healthy
            if kind == "http404":
                raise FakeHTTPError(self.log, url, 404, b'{"error":"nf"}')
            if kind == "http401":
                raise FakeHTTPError(self.log, url, 401, b"")
            if kind == "http503":
                raise FakeHTTPError(self.log, url, 503, b"\xff busy")
            if kind == "urlerror":
                raise URLError("no route")
            if kind == "oserror":
                raise TimeoutError("timed out")
            if kind == "badjson":
                return FakeResponse(self.log, 200, b"{not json")
            if kind == "listjson":
                return FakeResponse(self.log, 200, b"[1, 2]")
            if kind == "status500":
                return FakeResponse(self.log, 500, b"oops")
            if kind == "status_none":
                return FakeResponse(self.log, None, b"{}", no_status_attr=True)
            if kind == "readfail":
                return FakeResponse(self.log, 200, b"", read_error=ConnectionResetError("reset"))
            if kind == "none_response":
                return None
        return FakeResponse(self.log, 200, json.dumps(self.answer(url)).encode("utf-8"))

    def answer(self, url):
        if "login.microsoftonline.com" in url:
            return {"access_token": "tok"}
        assert url.startswith(BASE), url
        rest = url[len(BASE):]
        if rest == "/sites/contoso.sharepoint.com:/sites/Team":
            return {"id": "site1"}
        for head in ("/sites/site1/drive", "/sites/site1/drives/drv9"):
            if rest.startswith(head + "/") or rest == head:
                rest = rest[len(head):]
                break
        else:
            raise AssertionError(url)
        if rest.startswith("/root:/"):
            path = unquote(rest[len("/root:/"):])
            folder = BY_PATH.get(path)
            if folder is None:
                raise FakeHTTPError(self.log, url, 404, b"nf")
            return public(folder)
        skip = 0
        if "&$skiptoken=" in rest:
            rest, token = rest.split("&$skiptoken=")
            skip = int(token)
        assert rest.endswith("/children" + EXPAND), rest
        rest = rest[: -len("/children" + EXPAND)]
        if rest == "/root":
            children = LIBRARY
        else:
            assert rest.startswith("/items/"), rest
            children = BY_ID[rest[len("/items/"):]]["_children"]
        page = children[skip : skip + self.page_size]
        data = {"value": [public(c) for c in page]}
        if skip + self.page_size < len(children):
            data["@odata.nextLink"] = url.split("&$skiptoken=")[0] + "&$skiptoken=%d" % (skip + self.page_size)
        if not children:
            data = {}  # optional field missing
        return data


def make_client(transport):
    creds = EntraIDAppCredentials(tenant_id="t", client_id="c", client_secret="s")
    return SharePointRestClient("https://contoso.sharepoint.com/sites/Team/", creds, request_func=transport, timeout=7.5)


def closes(log):
    return [r.closed for r in log["opened"]], [e.closed_count for e in log["http_errors"]]


def outcome(fn, transport):
    try:
        result = fn()
        result = [repr(m) for m in result]
        status = "ok"
    except Exception as exc:  # noqa: BLE001
        result = {
            "class": type(exc).__name__,
            "mro": [c.__name__ for c in type(exc).__mro__[:4]],
            "msg": str(exc),
            "status_code": getattr(exc, "status_code", "-"),
            "url": getattr(exc, "url", "-"),
            "body": getattr(exc, "body", "-"),
            "cause": type(exc.__cause__).__name__ if exc.__cause__ else None,
        }
        status = "raised"
    return {"status": status, "result": result, "n_requests": len(transport.log["urls"]), "closes": closes(transport.log)}


UTC = timezone.utc
FILTERS = {
    "none": FileFilter(),
    "ext_pdf": FileFilter(extensions=[".pdf"]),
    "ext_mixed": FileFilter(extensions=[".DOCX", ".txt"]),
    "created_window": FileFilter(created_after=datetime(2024, 3, 1, tzinfo=UTC), created_before=datetime(2024, 4, 1, tzinfo=UTC)),
    "created_naive_after": FileFilter(created_after=datetime(2024, 3, 1, 0, 0, 0, 123456)),
    "created_before_only": FileFilter(created_before=datetime(2024, 1, 1, 0, 0, 0, tzinfo=UTC)),
    "modified_window": FileFilter(modified_after=datetime(2024, 3, 2, tzinfo=UTC), modified_before=datetime(2024, 3, 5, 10, 0, tzinfo=UTC)),
    "modified_tz": FileFilter(modified_after=datetime(2024, 3, 5, 12, 0, tzinfo=timezone(timedelta(hours=2)))),
    "modified_before_excl": FileFilter(modified_before=datetime(2024, 3, 1, tzinfo=UTC)),
    "both_dates": FileFilter(created_after=datetime(2024, 1, 1, tzinfo=UTC), modified_before=datetime(2024, 4, 1, tzinfo=UTC)),
    "patterns": FileFilter(path_patterns=["Reports/*.pdf", "*.txt"]),
    "patterns_deep": FileFilter(path_patterns=["Reports/2024*/*#*"], extensions=[".pdf"]),
    "folders": FileFilter(folder_paths=["Reports", "/Reports/2024 Q1 & more/", "Missing", "Ärchive"]),
    "folders_ext": FileFilter(folder_paths=["Reports/2024 Q1 & more"], extensions=[".pdf"], created_after=datetime(2024, 1, 1, tzinfo=UTC)),
    "file_as_folder": FileFilter(folder_paths=["root.txt"]),
}


def main():
    digest = hashlib.sha256()

    def emit(label, value):
        line = json.dumps(value, sort_keys=True, ensure_ascii=True, default=repr)
        digest.update((label + line).encode("ascii"))
        print(label, hashlib.sha1(line.encode("ascii")).hexdigest()[:12], line[:700])

    # 1. ISO parsing and the predicate on hand-made metadata
    for text in ["2024-01-15T10:30:00Z", "2024-01-15T10:30:00.123Z", "2024-01-15T10:30:00.1234567891+02:00",
                 "2024-01-15T10:30:00.5-05:00", "2024-01-15T10:30:00", "2024-01-15", "", "garbage", "2024-01-15T10:30:00.Z",
                 "2024-01-15T10:30:00.12", None, 5]:
        emit("iso %r" % (text,), repr(_parse_iso_datetime(text)))
    metas = [
        SharePointFileMetadata(name="A.Pdf", id="1", web_url="u", created="2024-03-01T00:00:00Z", last_modified="2024-04-01T00:00:00Z", parent_path="Reports"),
        SharePointFileMetadata(name="b.txt", id="2", web_url="u", created=None, last_modified="", parent_path=None),
        SharePointFileMetadata(name="c.pdf", id="3", web_url="u", created="bad", last_modified="2024-03-05T10:00:00Z", parent_path="Reports/2024 Q1 & more"),
        SharePointFileMetadata(name="", id="4", web_url="u", created="2024-03-31T23:59:59.999999Z", last_modified="2024-03-02T00:00:00Z", parent_path=""),
    ]
    for name, flt in FILTERS.items():
        emit("matches " + name, [flt.matches(m) for m in metas])

    # 2. complete listings for several page sizes
    for page_size in (1, 2, 3, 100):
        t = Transport(page_size)
        cl = make_client(t)
        emit("all ps=%d" % page_size, outcome(cl.list_all_files, t))
        emit("all-noroot ps=%d" % page_size, outcome(lambda: cl.list_all_files(include_root_files=False), t))
        emit("urls ps=%d" % page_size, t.log["urls"])
        for name, flt in FILTERS.items():
            t = Transport(page_size)
            cl = make_client(t)
            emit("filtered %s ps=%d" % (name, page_size), outcome(lambda: list(cl.list_files_filtered(flt)), t))
        t = Transport(page_size)
        cl = make_client(t)
        emit("drive ps=%d" % page_size, outcome(lambda: list(cl.list_files_filtered(FILTERS["folders"], drive_id="drv9")), t))
        emit("since ps=%d" % page_size, outcome(lambda: list(cl.list_files_modified_since(datetime(2024, 3, 1), extensions=[".pdf"])), t))
        emit("created-since ps=%d" % page_size, outcome(lambda: list(cl.list_files_created_since(datetime(2024, 3, 1, tzinfo=UTC), folder_paths=["Reports"])), t))
        emit("in-folder ps=%d" % page_size, outcome(lambda: cl.list_files_in_folder("Reports/2024 Q1 & more", drive_id=None), t))

    # 3. every fault kind at every request index, then a healthy retry on the same client
    kinds = ["http404", "http401", "http503", "urlerror", "oserror", "badjson", "listjson", "status500", "status_none", "readfail", "none_response"]
    for page_size in (2,):
        probe = Transport(page_size)
        make_client(probe).list_all_files()
        n_all = len(probe.log["urls"])
        for kind in kinds:
            for k in range(n_all):
                t = Transport(page_size, fault=(k, kind))
                cl = make_client(t)
                first = outcome(cl.list_all_files, t)
                state = (cl._access_token, cl._site_id)
                retry = outcome(cl.list_all_files, t)
                emit("fault all %s@%d" % (kind, k), {"first": first, "state": state, "retry": retry})
        flt = FILTERS["folders"]
        probe = Transport(page_size)
        list(make_client(probe).list_files_filtered(flt))
        n_flt = len(probe.log["urls"])
        for kind in ("http404", "http503", "urlerror", "badjson", "status500"):
            for k in range(n_flt):
                t = Transport(page_size, fault=(k, kind))
                cl = make_client(t)
                first = outcome(lambda: list(cl.list_files_filtered(flt)), t)
                retry = outcome(lambda: list(cl.list_files_filtered(flt)), t)
                emit("fault filtered %s@%d" % (kind, k), {"first": first, "retry": retry})
    print("sha256", digest.hexdigest())


if __name__ == "__main__":
    main()
