"""Differential script for the serialisation code (C05).

Builds type-directed instances of every registered dataclass plus hand-made
edge cases, serialises them with and without binary payloads, round-trips
them through json and from_json and prints a deterministic digest.
"""
import dataclasses
import datetime
import hashlib
import io
import json
import os
import sys
import typing

sys.path.insert(0, os.getcwd())

from sharepoint2text.parsing.extractors import data_types, serialization  # noqa: E402
from sharepoint2text.parsing.extractors.serialization import (  # noqa: E402
    _deserialize_dataclass,
    _deserialize_value,
    _get_type_registry,
    _serialize_for_json,
    deserialize_extraction,
    serialize_extraction,
)

MARKERS = ["_type", "_bytes", "_bytesio", "plain"]


def make(tp, depth=0, salt=0):
    """Populate a value from a type hint (deterministic)."""
    if tp is typing.Any:
        return [MARKERS[salt % 4], {"_type": "TableDim", "rows": 1}, 3, None][salt % 4]
    origin = typing.get_origin(tp)
    args = typing.get_args(tp)
    if origin is typing.Union or str(origin) == "<class 'types.UnionType'>":
        non_none = [a for a in args if a is not type(None)]
        return make(non_none[0], depth, salt)
    if origin in (list, typing.List):
        return [make(args[0] if args else typing.Any, depth + 1, salt + i) for i in range(2)]
    if origin in (dict, typing.Dict):
        vt = args[1] if len(args) > 1 else typing.Any
        return {MARKERS[(salt + i) % 4]: make(vt, depth + 1, salt + i) for i in range(3)}
    if origin is tuple:
        return tuple(make(a, depth + 1, salt) for a in args if a is not Ellipsis)
    if origin is not None:
        return None
    if tp is str:
        return MARKERS[salt % 4] + str(salt)
    if tp is bool:
        return bool(salt % 2)
    if tp is int:
        return salt + 1
    if tp is float:
        return salt + 0.5
    if tp is bytes:
        return b"\x00\xffbytes" + bytes([salt % 256])
    if tp is bytearray:
        return bytearray(b"ba" + bytes([salt % 256]))
    if tp is io.BytesIO:
        buf = io.BytesIO(b"bytesio-\x00\x01" + bytes([salt % 256]))
        buf.seek(3)
        return buf
    if tp is dict:
        return {"_type": "x", "k": salt}
    if tp is list:
        return [salt, "_bytes"]
    if isinstance(tp, type) and dataclasses.is_dataclass(tp):
        if depth > 3:
            return None
        return build(tp, depth + 1, salt)
    return None


def build(cls, depth=0, salt=0):
    hints = typing.get_type_hints(cls)
    kwargs = {}
    for i, f in enumerate(dataclasses.fields(cls)):
        if not f.init:
            continue
        kwargs[f.name] = make(hints.get(f.name, typing.Any), depth, salt + i)
    return cls(**kwargs)


def digest(obj):
    text = json.dumps(obj, sort_keys=False, default=lambda o: "<<%s>>" % type(o).__name__)
    return hashlib.sha256(text.encode()).hexdigest()[:16]


def attempt(label, fn):
    try:
        out = fn()
        print(label, "OK", out)
    except Exception as exc:  # noqa: BLE001
        print(label, "EXC", type(exc).__name__, str(exc)[:120])


def roundtrip(instance):
    full = serialize_extraction(instance, include_binary=True)
    lean = serialize_extraction(instance, include_binary=False)
    wire = json.loads(json.dumps(full))
    back = deserialize_extraction(wire)
    again = serialize_extraction(back, include_binary=True)
    return (
        type(back).__name__,
        list(full.keys())[:3],
        digest(full),
        digest(lean),
        digest(again),
        again == full,
    )


registry = _get_type_registry()
print("registry", len(registry), digest(sorted(registry)))
for name in sorted(registry):
    cls = registry[name]
    for salt in (0, 1):
        attempt("rt %s/%d" % (name, salt), lambda: roundtrip(build(cls, 0, salt)))

# Hand-made values for the serialiser
TD = data_types.TableDim
pos_buf = io.BytesIO(b"0123456789")
pos_buf.seek(7)
cases = [
    ("none", None),
    ("scalar", 5),
    ("bytes", b"ab\x00"),
    ("bytearray", bytearray(b"xyz")),
    ("bytesio", pos_buf),
    ("tuple", (1, b"x", (2, 3))),
    ("set1", {b"only"}),
    ("intkeys", {1: b"a", (2, 3): [io.BytesIO(b"q")], None: {"_type": 1}}),
    ("class-not-instance", TD),
    ("list-of-dc", [TD(rows=1, columns=2), TD(rows=3, columns=4)]),
    ("timedelta", {"cell": datetime.timedelta(seconds=5)}),
    ("marker-dict", {"_type": "TableDim", "_bytes": "AAAA", "_bytesio": "AAAA"}),
    ("nested", {"a": [{"b": (bytearray(b"1"), {"c": io.BytesIO(b"2")})}]}),
]
for label, value in cases:
    for flag in (True, False):
        attempt(
            "ser %s/%s" % (label, flag),
            lambda: repr(_serialize_for_json(value, include_binary=flag))[:300],
        )
        attempt(
            "top %s/%s" % (label, flag),
            lambda: repr(serialize_extraction(value, include_binary=flag))[:300],
        )
print("pos after", pos_buf.tell())

# Hand-made values for the deserialiser
L = typing.List
D = typing.Dict
O = typing.Optional
dcases = [
    ("none", None, int),
    ("opt-bytes-str", "QUJD", O[bytes]),
    ("bytes-marker", {"_bytes": "QUJD"}, bytes),
    ("bytes-int", 7, bytes),
    ("bytearray-str", "QUJD", bytearray),
    ("bytesio-str", "QUJD", io.BytesIO),
    ("bytesio-marker", {"_bytesio": "QUJD"}, O[io.BytesIO]),
    ("bytesio-int", 7, io.BytesIO),
    ("dict-markers", {"_type": "TableDim", "_bytes": "QUJD"}, D[str, typing.Any]),
    ("dict-bare", {"_bytes": "QUJD", "x": {"_bytes": "QUJD"}}, dict),
    ("dict-nested-any", {"h": {"_bytes": "QUJD"}}, D[str, typing.Any]),
    ("dict-of-bytes", {"a": "QUJD", "_bytesio": "QUJE"}, D[str, bytes]),
    ("dict-not-dict", [1, 2], D[str, int]),
    ("list-of-dict", [{"_type": "q"}, {"_bytes": "QUJD"}], L[D[str, typing.Any]]),
    ("list-of-any", [{"_type": "TableDim", "rows": 2, "columns": 3}, {"_bytes": "QUJD"}], L[typing.Any]),
    ("list-bare", [{"_bytes": "QUJD"}], list),
    ("list-not-list", "abc", L[int]),
    ("list-marker", {"_bytes": "QUJD"}, L[int]),
    ("dc-expected", {"rows": 4, "columns": 5}, TD),
    ("dc-expected-nondict", "zz", TD),
    ("dc-type-wins", {"_type": "TableDim", "rows": 4, "columns": 5}, data_types.DocxRun),
    ("dc-unknown-type", {"_type": "Nope", "rows": 9, "columns": 9}, TD),
    ("any-unknown-type", {"_type": "Nope", "rows": 9}, typing.Any),
    ("any-empty-type", {"_type": "", "rows": 9}, typing.Any),
    ("union3", {"_bytes": "QUJD"}, typing.Union[int, str, None]),
    ("bad-b64", {"_bytes": "!"}, bytes),
    ("extra-keys", {"_type": "TableDim", "rows": 1, "columns": 2, "junk": 3}, typing.Any),
    ("missing-keys", {"_type": "TableData"}, typing.Any),
]


def show(v):
    if isinstance(v, io.BytesIO):
        return "BytesIO(%r)@%d" % (v.getvalue(), v.tell())
    if isinstance(v, dict):
        return "{%s}" % ", ".join("%r: %s" % (k, show(x)) for k, x in v.items())
    if isinstance(v, list):
        return "[%s]" % ", ".join(show(x) for x in v)
    return repr(v)


for label, value, tp in dcases:
    attempt("des %s" % label, lambda: show(_deserialize_value(value, tp)))

# ImageMetadata compatibility shim and class resolution
img_cases = [
    {"_type": "ImageMetadata", "unit_index": 3, "image_index": 4},
    {"_type": "ImageMetadata", "unit_index": 3, "unit_number": 8, "image_index": 4},
    {"_type": "ImageMetadata", "image_index": 4, "image_number": 1},
    {"unit_index": 5},
]
for i, data in enumerate(img_cases):
    before = dict(data)
    attempt("img %d" % i, lambda: show(_deserialize_dataclass(data, data_types.ImageMetadata)))
    print("img %d input untouched" % i, data == before)
attempt("dd no class", lambda: show(_deserialize_dataclass({"rows": 1})))
attempt("dd empty type", lambda: show(_deserialize_dataclass({"_type": None, "rows": 1, "columns": 1}, TD)))
attempt("dd unhashable type", lambda: show(_deserialize_dataclass({"_type": ["x"]}, TD)))
attempt("de not dict", lambda: deserialize_extraction([1]))
attempt("de no type", lambda: deserialize_extraction({"a": 1}))
attempt("de unknown", lambda: show(deserialize_extraction({"_type": "Nope"})))
