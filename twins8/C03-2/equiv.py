import os
import struct
import sys

sys.path.insert(0, os.getcwd())

from sharepoint2text.parsing.extractors.data_types import PptContent  # noqa: E402
from sharepoint2text.parsing.extractors.ms_legacy import ppt_extractor as pe  # noqa: E402


def rec(rec_type, payload=b"", container=False, instance=0):
    ver = 0x0F if container else 0x00
    return struct.pack("<HHI", (instance << 4) | ver, rec_type, len(payload)) + payload


def chars(text):
    return rec(pe.RT_TEXT_CHARS_ATOM, text.encode("utf-16-le"))


def bytes_atom(text):
    return rec(pe.RT_TEXT_BYTES_ATOM, text.encode("latin-1"))


def cstring(text):
    return rec(pe.RT_CSTRING, text.encode("utf-16-le"))


def header(text_type):
    return rec(pe.RT_TEXT_HEADER_ATOM, struct.pack("<I", text_type))


def persist():
    return rec(pe.RT_SLIDE_PERSIST_ATOM, b"\x00" * 20)


def slide_list(*parts, instance=0):
    return rec(pe.RT_SLIDE_LIST_WITH_TEXT, b"".join(parts), container=True, instance=instance)


def slide(*parts):
    return rec(pe.RT_SLIDE_CONTAINER, b"".join(parts), container=True)


def notes(*parts):
    return rec(pe.RT_NOTES_CONTAINER, b"".join(parts), container=True)


def master(*parts):
    return rec(pe.RT_MAIN_MASTER_CONTAINER, b"".join(parts), container=True)


STREAMS = {
    "empty": b"",
    "garbage": bytes(range(256)) * 3,
    "slide_list_3": slide_list(persist(), header(0), chars("Title one"), header(1), bytes_atom("Body one"), persist(), header(0), chars("Title two"), persist(), header(4), chars("Other three")),
    "slide_list_with_empty_slide": slide_list(persist(), header(0), chars("A"), persist(), persist(), header(1), chars("C")),
    "persist_only_then_cstring_fallback": slide_list(persist(), persist()) + cstring("Raw title") + cstring("Raw second"),
    "persist_only_no_text": slide_list(persist(), persist(), persist()),
    "cstring_only_fallback": cstring("Only raw") + cstring("\x01\x02") + cstring("Click to edit Master title style") + cstring("Second raw"),
    "containers_only": slide(header(0), chars("S1 title"), header(1), chars("S1 body")) + slide(header(0), chars("S2 title")),
    "containers_with_notes": slide(header(0), chars("S1")) + notes(header(2), chars("N1"), chars("N1b")) + slide(header(0), chars("S2")) + notes(header(2), chars("N2")) + notes(header(2), chars("N3 extra")),
    "list_plus_notes_plus_master": slide_list(persist(), header(0), chars("L1"), persist(), header(2), chars("Note in list"))
    + notes(header(2), chars("Note in list"), chars("New note")) + master(header(0), chars("Master text")),
    "master_only": master(header(0), chars("Master only text")),
    "notes_instance_list": slide_list(persist(), header(2), chars("notes list"), instance=2) + cstring("fallback text"),
    "whitespace_texts": slide_list(persist(), chars("   "), persist(), chars("\r\r")),
    "truncated": slide_list(persist(), header(0), chars("Cut title"))[:-5],
    "two_lists": slide_list(persist(), chars("first list")) + slide_list(persist(), chars("second list")),
    "dup_text": slide_list(persist(), chars("same"), chars("same"), persist(), chars("same")),
}


def show_slide(s):
    return (s.slide_number, s.title, s.body_text, s.other_text, [(b.text, b.text_type) for b in s.all_text], s.notes)


for name, data in STREAMS.items():
    content = PptContent()
    try:
        ret = pe._parse_ppt_document(data, content)
        print("==", name, "ret", ret)
        print("  all_text", content.all_text, "same-object-as-slide-list", any(content.all_text is s.other_text for s in content.slides))
        print("  master", content.master_text)
        for s in content.slides:
            print("  slide", show_slide(s))
        units = list(content.iterate_units())
        print("  numbers", [u.get_metadata().unit_number for u in units])
        print("  texts", [u.get_text() for u in units])
        print("  full", repr(content.get_full_text()))
    except Exception as exc:  # noqa: BLE001
        print("==", name, "EXC", type(exc).__name__, exc)

# pre-populated content: the fallback must not fire / must number after existing slides
for name in ("cstring_only_fallback", "persist_only_then_cstring_fallback"):
    content = PptContent()
    content.all_text.append("already there")
    pe._parse_ppt_document(STREAMS[name], content)
    print("prefilled all_text", name, [show_slide(s) for s in content.slides], content.all_text)
    content = PptContent()
    content.slides.append(pe.PptSlideContent(slide_number=7))
    pe._parse_ppt_document(STREAMS[name], content)
    print("prefilled slides", name, [show_slide(s) for s in content.slides], content.all_text)
