"""T03: oversize 7z member is filtered from processing but still written to temp dir."""
import io, os, sys, logging, tempfile
sys.path.insert(0, os.path.dirname(os.path.abspath(__file__)))
import sz
from sharepoint2text.parsing.extractors import archive_extractor as ae
logging.disable(logging.CRITICAL)

seen = {}
class RecTD(tempfile.TemporaryDirectory):
    def cleanup(self):
        for root, _d, files in os.walk(self.name):
            for f in files:
                p = os.path.join(root, f)
                seen[os.path.relpath(p, self.name)] = os.path.getsize(p)
        super().cleanup()

small = b"small file\n"
big = b"B" * 5000 + b"\n"
folder, blob = sz.copy_folder(small, big)
data = sz.build_7z([folder], [dict(name="small.txt"), dict(name="big.txt")], [blob])

default = ae._config.max_memory_size
orig_td = tempfile.TemporaryDirectory
ae.configure_archive_extraction(max_memory_size=1000)
tempfile.TemporaryDirectory = RecTD
try:
    res = [r.get_metadata().file_path for r in ae.read_archive(io.BytesIO(data), path="lim.7z")]
finally:
    tempfile.TemporaryDirectory = orig_td
    ae.configure_archive_extraction(max_memory_size=default)
assert ae._config.max_memory_size == default
if "big.txt" in seen and "lim.7z!/big.txt" not in res:
    print("REPRODUCED: with max_memory_size=1000, big.txt (5001 B) was skipped from results %r but still written to the temp dir: %r" % (res, seen))
else:
    print("NOT-REPRODUCED: temp dir files=%r results=%r" % (seen, res))
