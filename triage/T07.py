"""T07: _FONT_CACHE keyed by font bytes only, value depends on glyph ids."""
import glob, sys
from sharepoint2text.parsing.extractors.pdf import pdf_extractor as pe

fonts = sorted(glob.glob("/usr/share/fonts/truetype/dejavu/DejaVuSans.ttf")) or sorted(glob.glob("/usr/share/fonts/**/*.ttf", recursive=True))
if not fonts:
    print("NOT-REPRODUCED: no TTF on this machine"); sys.exit(0)
font = open(fonts[0], "rb").read()
A = [20, 21, 22]
B = [30, 31, 32, 33]

pe._FONT_CACHE.clear()
fresh_B = pe._ttf_get_glyph_features(font, B)          # B asked first (cold cache)
pe._FONT_CACHE.clear()
first_A = pe._ttf_get_glyph_features(font, A)          # A asked first ...
B_after_A = pe._ttf_get_glyph_features(font, B)        # ... then B with the same font bytes
pe._FONT_CACHE.clear()
if fresh_B is None or first_A is None:
    print("NOT-REPRODUCED: font %s not parsed (%r, %r)" % (fonts[0], fresh_B, first_A))
elif B_after_A != fresh_B and B_after_A is first_A:
    print("REPRODUCED: %s: glyph ids %r give feature keys %r on a cold cache but %r (the answer for %r) when %r was requested first"
          % (fonts[0].split("/")[-1], B, sorted(fresh_B[1]), sorted(B_after_A[1]), A, A))
else:
    print("NOT-REPRODUCED: fresh_B keys=%r, B_after_A keys=%r" % (sorted(fresh_B[1]), sorted(B_after_A[1])))
