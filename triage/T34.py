"""T34 (C12): the mbox separator pattern needs quadratic time on a long line that starts with 'From '.

`^From \\S+.*\\d{4}\\r?\\n` lets \\S+ and .* share a long run of non-blank characters: on b'From ' + b'a' * n + b'\\n' the matcher tries
every division before it fails (0.2 s for n = 5 000, 2.2 s for 20 000, hours for a 1 MB line such as a base64 blob following the
word From). Run with cwd = a checkout; exit 1 when doubling n more than triples the time.
"""
import os
import sys
import time

sys.path.insert(0, os.getcwd())
from sharepoint2text.parsing.extractors.mail.mbox_email_extractor import MBOX_FROM_PATTERN  # noqa: E402

times = []
for n in (4000, 8000, 16000):
    t = time.perf_counter()
    MBOX_FROM_PATTERN.search(b"From " + b"a" * n + b"\n")
    times.append(time.perf_counter() - t)
    print(n, f"{times[-1]:.4f}s")
sys.exit(1 if times[2] > 0.05 and times[2] > 3 * times[1] else 0)
