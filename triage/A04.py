"""A04: 7z FilesInfo num_files drives three [x] * num_files allocations before any per-file data."""
import io, os, sys, logging, struct, zlib, tracemalloc
sys.path.insert(0, os.path.dirname(os.path.abspath(__file__)))
import sz
from sharepoint2text.parsing.extractors.archive_extractor import read_archive
from sharepoint2text.parsing.extractors.util.sevenzip import SevenZipFile, Bad7zFile

logging.disable(logging.CRITICAL)
NUM_FILES = 30_000_000


def wrap(header: bytes) -> bytes:
    start = struct.pack("<QQI", 0, len(header), zlib.crc32(header) & 0xFFFFFFFF)
    return sz.MAGIC + bytes([0, 4]) + struct.pack("<I", zlib.crc32(start) & 0xFFFFFFFF) + start + header


# HEADER, FILES_INFO, num_files -- and the header ends there (truncated: no property, no PROP_END).
# (With a PROP_END the parser goes on to build 30M FileInfo objects, which is far worse; the
#  truncated form isolates the three up-front list allocations.)
data = wrap(bytes([0x01, 0x05]) + sz.num(NUM_FILES))


def run(fn):
    tracemalloc.start()
    outcome = "returned"
    try:
        fn()
    except BaseException as e:  # noqa
        outcome = "%s: %s" % (type(e).__name__, e)
    _, peak = tracemalloc.get_traced_memory()
    tracemalloc.stop()
    return peak, outcome


def via_szf():
    with SevenZipFile(io.BytesIO(data), "r") as z:
        z.list()


peak1, out1 = run(via_szf)
peak2, out2 = run(lambda: list(read_archive(io.BytesIO(data), path="a.7z")))
if max(peak1, peak2) >= 3 * 8 * NUM_FILES * 0.9:
    print("REPRODUCED: %d -> peak memory %.1f MB in SevenZipFile (%s), %.1f MB in read_archive (%s) "
          "for declared num_files=%d" % (len(data), peak1 / 1e6, out1, peak2 / 1e6, out2, NUM_FILES))
else:
    print("NOT-REPRODUCED: peak %.1f MB (SevenZipFile: %s) / %.1f MB (read_archive: %s)"
          % (peak1 / 1e6, out1, peak2 / 1e6, out2))
