"""C13 DOCX: a table inside a text box is not returned by iterate_tables()."""
import io, sys
sys.path.insert(0, "/verif/triage"); sys.path.insert(0, "/repo")
from docxmk import *
from sharepoint2text.parsing.extractors.ms_modern.docx_extractor import read_docx
box = textbox("x").replace(p("x"), tbl(tr(tc(p("IN_BOX_A")), tc(p("IN_BOX_B")))), 1)
r = next(iter(read_docx(io.BytesIO(build(p("before") + box + tbl(tr(tc(p("BODY_TABLE")))))), "x.docx")))
print("tables:", [t.get_table() for t in r.iterate_tables()])
print("full text:", repr(r.get_full_text()))
