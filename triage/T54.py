"""T54 — HTML tables whose optional end tags are omitted (C13).

HTML Living Standard 13.1.2.4: the end tags of td, th, tr (and li, p, dt, dd, option, thead, tbody, tfoot) may be omitted; minifiers and
hand-written pages do. Before the repair _HtmlTreeBuilder closed an element only on an end tag that named the innermost open element, so
every <td> nested in the one before it: a 2 x 2 table came back as one cell, and the text after the table as part of that cell.

exit 0 = grid has its shape, 1 = defect present.  Run: cd <tree> && /venv/bin/python /verif/triage/T54.py
"""
import io
import os
import sys

sys.path.insert(0, os.getcwd())
from sharepoint2text.parsing.extractors.html_extractor import read_html  # noqa: E402

bad = 0
cases = [
    (b"<html><body><table><tr><td>a<td>b<tr><td>c<td>d</table><p>after</body></html>", [[["a", "b"], ["c", "d"]]], "after"),
    (b"<table><thead><tr><th>h1<th>h2<tbody><tr><td>1<td>2<tr><td>3<td>4</table>", [[["h1", "h2"], ["1", "2"], ["3", "4"]]], None),
    # explicit end tags and a stray one: unchanged behaviour
    (b"<table><tr><td>a</td><td>b</td></tr><tr><td>c</p></td><td>d</td></tr></table>", [[["a", "b"], ["c", "d"]]], None),
]
for html, want, after in cases:
    r = next(read_html(io.BytesIO(html)))
    got = [t.get_table() for t in r.iterate_tables()]
    text = r.get_full_text()
    ok = got == want and (after is None or (text.endswith(after) and all(after not in c for t in got for row in t for c in row)))
    print("ok " if ok else "BAD", html[:60], "->", got, repr(text[-20:]))
    bad += not ok
sys.exit(1 if bad else 0)
