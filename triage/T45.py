r"""C02 -- RTF: the fallback character that follows every \uN escape is part of the escape, not text.

Word writes non-Latin text as ၕ\'cf (Unicode value + what an ANSI-only reader should show); \ucN says how many fallback
characters follow (default 1, TextEdit writes \uc0).  Before the fix only a literal '?' was recognised as fallback: Cyrillic,
Greek, CJK text came out with every character doubled by its code-page byte ('ПÏрð'), and '舑-' gave '–-'.
Run from the repository root; exits 1 when text that is in no run appears."""
import io
import os
import sys

sys.path.insert(0, os.getcwd())
import logging

logging.disable(logging.CRITICAL)
from sharepoint2text.parsing.extractors.ms_legacy.rtf_extractor import read_rtf

B = "\\"
U = B + "u"
CASES = [
    ("Word, Cyrillic with \\'xx fallbacks", "{" + B + "rtf1" + B + "ansi" + B + "ansicpg1251 " + U + "1055" + B + "'cf" + U + "1088" + B + "'f0" + U + "1080" + B + "'e8 x}", "При x"),
    ("fallback is a plain character", "{" + B + "rtf1" + B + "ansi dash" + U + "8211- ok}", "dash– ok"),
    ("fallback '?'", "{" + B + "rtf1" + B + "ansi dash" + U + "8211? ok}", "dash– ok"),
    ("table cell (regex stripper)", "{" + B + "rtf1" + B + "ansi " + B + "trowd" + B + "cellx1000 " + U + "1055" + B + "'cf" + U + "1088" + B + "'f0" + B + "cell" + B + "row}", "Пр"),
]
bad = 0
for name, src, want in CASES:
    r = next(iter(read_rtf(io.BytesIO(src.encode("ascii")), "a.rtf")))
    got = r.get_full_text()
    tabs = [c for t in r.tables for row in t.data for c in row] if hasattr(r, "tables") else []
    ok = want in got or want in tabs
    print(f"{name:40} {got!r} {tabs!r} {'ok' if ok else 'EXPECTED ' + repr(want)}")
    bad += not ok
sys.exit(1 if bad else 0)
