"""T26 (C08): a PDF encrypted with the empty user password does not extract the same content as its unencrypted original
once it is 10 MiB or larger: read_pdf leaves out every image of an encrypted PDF when pypdf runs on its pure-Python crypt
provider (`cryptography` is not installed) and the file size reaches _AES_FALLBACK_IMAGE_SKIP_THRESHOLD_BYTES.

The input is built here: one page with one 1900x1900 RGB image (about 10.3 MiB of incompressible pixel data), written once
plain and once encrypted with RC4-128, empty user password (pypdf writes that without `cryptography`).

Run with cwd = a checkout; exit 1 when the two extractions differ. Takes a few seconds (pure-Python RC4 while writing).
"""
import io
import logging
import os
import random
import sys
import zlib

sys.path.insert(0, os.getcwd())
logging.disable(logging.CRITICAL)
from pypdf import PdfReader, PdfWriter  # noqa: E402

from sharepoint2text.parsing.extractors.pdf.pdf_extractor import read_pdf  # noqa: E402

W = H = 1900
rnd = random.Random(7)
pixels = rnd.randbytes(W * H * 3)
img = zlib.compress(pixels, 1)
objs = [
    b"<< /Type /Catalog /Pages 2 0 R >>",
    b"<< /Type /Pages /Kids [3 0 R] /Count 1 >>",
    b"<< /Type /Page /Parent 2 0 R /MediaBox [0 0 612 792] /Resources << /XObject << /Im1 5 0 R >> /Font << /F1 6 0 R >> >> /Contents 4 0 R >>",
    None,
    b"<< /Type /XObject /Subtype /Image /Width %d /Height %d /ColorSpace /DeviceRGB /BitsPerComponent 8 /Filter /FlateDecode /Length %d >>\nstream\n" % (W, H, len(img)) + img + b"\nendstream",
    b"<< /Type /Font /Subtype /Type1 /BaseFont /Helvetica >>",
]
content = b"BT /F1 12 Tf 72 720 Td (Visible page text) Tj ET q 200 0 0 200 72 400 cm /Im1 Do Q"
objs[3] = b"<< /Length %d >>\nstream\n" % len(content) + content + b"\nendstream"
out = bytearray(b"%PDF-1.4\n")
offs = []
for i, o in enumerate(objs, 1):
    offs.append(len(out))
    out += b"%d 0 obj\n" % i + o + b"\nendobj\n"
xref = len(out)
out += b"xref\n0 %d\n0000000000 65535 f \n" % (len(objs) + 1) + b"".join(b"%010d 00000 n \n" % o for o in offs)
out += b"trailer\n<< /Size %d /Root 1 0 R >>\nstartxref\n%d\n%%%%EOF\n" % (len(objs) + 1, xref)
plain = bytes(out)

w = PdfWriter(clone_from=PdfReader(io.BytesIO(plain)))
w.encrypt(user_password="", owner_password="owner", algorithm="RC4-128")
buf = io.BytesIO()
w.write(buf)
enc = buf.getvalue()
print(f"plain {len(plain)} bytes, encrypted {len(enc)} bytes (threshold 10485760)")


def summary(data):
    r = list(read_pdf(io.BytesIO(data), "x.pdf"))[0]
    return [(p.text.strip(), [(i.width, i.height, len(i.data)) for i in p.images]) for p in r.pages]


a, b = summary(plain), summary(enc)
print("unencrypted:", a)
print("empty user password:", b)
sys.exit(1 if a != b else 0)
