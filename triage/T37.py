"""T37 (C04): text of an mbox message that cannot be encoded as UTF-8.

Some codecs decode to lone surrogates (utf-7 '+2D0-' is U+D83D on its own; unicode_escape '\\ud83d'). The mbox reader decoded bodies
and RFC 2047 words with the declared charset and errors='replace' and returned the result as it was, so get_full_text().encode('utf-8')
raised (and the CLI failed on such a mailbox).  Run with cwd = a checkout; exit 1 when a result text is not UTF-8 encodable.
"""
import io
import logging
import os
import sys

sys.path.insert(0, os.getcwd())
logging.disable(logging.CRITICAL)
from sharepoint2text.parsing.extractors.mail.mbox_email_extractor import read_mbox_format_mail  # noqa: E402

M = (b"From a@x Mon Jan  1 10:00:00 2024\r\nFrom: a@x.org\r\nSubject: =?utf-7?Q?x+2D0-y?=\r\nDate: Mon, 1 Jan 2024 10:00:00 +0000\r\n"
     b"Content-Type: text/plain; charset=utf-7\r\n\r\nhello +2D0- world\r\n")
r = list(read_mbox_format_mail(io.BytesIO(M), "m.mbox"))[0]
bad = 0
for name, t in (("body", r.get_full_text()), ("subject", r.subject)):
    try:
        t.encode("utf-8")
        print("ok ", name, repr(t))
    except UnicodeEncodeError as exc:
        bad += 1
        print("BAD", name, repr(t), exc)
sys.exit(1 if bad else 0)
