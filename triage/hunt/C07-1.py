"""C07: the routing decision depends only on the lower-cased trailing extension; every documented
extension reaches the documented extractor, and attachment dispatch uses the same routing as
read_file.  EmailContent.iterate_supported_attachments() first asks the *declared MIME type* of the
part and never gets to get_extractor(filename) when the sender labelled the part generically."""
import io
import os
import sys
import zipfile
from email.message import EmailMessage

sys.path.insert(0, os.getcwd())

TEXT = "Signed contract, final version"


def build_docx() -> bytes:
    w = "http://schemas.openxmlformats.org/wordprocessingml/2006/main"
    buf = io.BytesIO()
    with zipfile.ZipFile(buf, "w") as zf:
        zf.writestr("[Content_Types].xml",
                    '<?xml version="1.0"?><Types xmlns="http://schemas.openxmlformats.org/package/2006/content-types">'
                    '<Default Extension="rels" ContentType="application/vnd.openxmlformats-package.relationships+xml"/>'
                    '<Default Extension="xml" ContentType="application/xml"/>'
                    '<Override PartName="/word/document.xml" ContentType="application/vnd.openxmlformats-officedocument.wordprocessingml.document.main+xml"/></Types>')
        zf.writestr("_rels/.rels",
                    '<?xml version="1.0"?><Relationships xmlns="http://schemas.openxmlformats.org/package/2006/relationships">'
                    '<Relationship Id="rId1" Type="http://schemas.openxmlformats.org/officeDocument/2006/relationships/officeDocument" Target="word/document.xml"/></Relationships>')
        zf.writestr("word/document.xml",
                    f'<?xml version="1.0"?><w:document xmlns:w="{w}"><w:body><w:p><w:r><w:t>{TEXT}</w:t></w:r></w:p></w:body></w:document>')
    return buf.getvalue()


def build_eml(docx: bytes, maintype: str, subtype: str) -> bytes:
    msg = EmailMessage()
    msg["From"] = "alice@example.org"
    msg["To"] = "bob@example.org"
    msg["Subject"] = "contract"
    msg["Date"] = "Mon, 01 Jan 2024 10:00:00 +0000"
    msg.set_content("see attachment")
    msg.add_attachment(docx, maintype=maintype, subtype=subtype, filename="Contract.DOCX")
    return msg.as_bytes()


def main() -> int:
    import logging

    logging.disable(logging.CRITICAL)
    from sharepoint2text.parsing.extractors.mail.eml_email_extractor import read_eml_format_mail
    from sharepoint2text.parsing.extractors.mail.mbox_email_extractor import read_mbox_format_mail
    from sharepoint2text.parsing.router import get_extractor, is_supported_file

    docx = build_docx()
    name = "Contract.DOCX"
    print(f"is_supported_file({name!r}) = {is_supported_file(name)}; "
          f"get_extractor -> {get_extractor(name).__name__}")
    direct = [r.get_full_text() for r in get_extractor(name)(io.BytesIO(docx), name)]
    print(f"same bytes through the router: {direct}")

    bad = 0
    labels = {
        "declared as wordprocessingml.document": ("application", "vnd.openxmlformats-officedocument.wordprocessingml.document"),
        "declared as application/octet-stream": ("application", "octet-stream"),
    }
    for label, (maintype, subtype) in labels.items():
        eml = build_eml(docx, maintype, subtype)
        for kind, reader, data in (
            ("eml", read_eml_format_mail, eml),
            ("mbox", read_mbox_format_mail, b"From alice@example.org Mon Jan  1 10:00:00 2024\n" + eml + b"\n"),
        ):
            mail = list(reader(io.BytesIO(data), f"mail.{kind}"))[0]
            names = [(a.filename, a.mime_type) for a in mail.attachments]
            texts = [r.get_full_text() for r in mail.iterate_supported_attachments()]
            print(f"{kind}, {label}: attachments={names} extracted={texts}")
            if texts != direct:
                bad += 1
    print("expected: the .docx attachment reaches read_docx whatever generic MIME label the mail client "
          "put on the part - the extension decides, exactly as for read_file and archive members")
    return 1 if bad else 0


if __name__ == "__main__":
    sys.exit(main())
