"""C10: a corrupt member affects only itself.

A 7z archive with one folder per file (7z a -ms=off) where ONE bit of ONE
member's compressed stream is damaged.  When the damaged LZMA/LZMA2 stream simply
ends early (no LZMAError, fewer bytes than declared), extractall() raises
"exceeds decompressed data bounds" from _extract_files_from_folder, which is
outside the per-folder try/except -> the whole archive is refused and the two
intact members are lost as well.
"""
import io
import logging
import lzma
import os
import random
import struct
import sys
import zlib

sys.path.insert(0, os.getcwd())
logging.disable(logging.CRITICAL)
from sharepoint2text.parsing.extractors.archive_extractor import read_archive  # noqa: E402


# ---------------------------------------------------------------- tiny 7z writer
def num(v):
    first, mask = 0, 0x80
    for i in range(8):
        if v < (1 << (7 * (i + 1))):
            return bytes([first | (v >> (8 * i))]) + (v & ((1 << (8 * i)) - 1)).to_bytes(i, "little")
        first |= mask
        mask >>= 1
    return b"\xff" + v.to_bytes(8, "little")


def enc_lzma2(data):
    f = [{"id": lzma.FILTER_LZMA2, "dict_size": 1 << 20}]
    return lzma.compress(data, format=lzma.FORMAT_RAW, filters=f), b"\x21", bytes([18])


def enc_lzma(data):
    f = [{"id": lzma.FILTER_LZMA1, "dict_size": 1 << 20, "lc": 3, "lp": 0, "pb": 2}]
    return lzma.compress(data, format=lzma.FORMAT_RAW, filters=f), b"\x03\x01\x01", bytes([0x5D]) + struct.pack("<I", 1 << 20)


def build_7z(files, enc):
    """One folder (one pack stream) per file, plain header."""
    packed = [enc(d) for _, d in files]
    n = len(files)
    h = bytearray(b"\x01\x04")
    h += b"\x06" + num(0) + num(n) + b"\x09" + b"".join(num(len(p[0])) for p in packed) + b"\x00"
    h += b"\x07\x0b" + num(n) + b"\x00"
    for _, cid, props in packed:
        h += num(1) + bytes([len(cid) | 0x20]) + cid + num(len(props)) + props
    h += b"\x0c" + b"".join(num(len(d)) for _, d in files) + b"\x00"
    h += b"\x08\x0a\x01" + b"".join(struct.pack("<I", zlib.crc32(d)) for _, d in files) + b"\x00"
    h += b"\x00"
    names = b"\x00" + b"".join(nm.encode("utf-16-le") + b"\x00\x00" for nm, _ in files)
    h += b"\x05" + num(n) + b"\x11" + num(len(names)) + names + b"\x00\x00"
    body = b"".join(p[0] for p in packed)
    start = struct.pack("<QQI", len(body), len(h), zlib.crc32(bytes(h)))
    blob = b"7z\xbc\xaf\x27\x1c\x00\x04" + struct.pack("<I", zlib.crc32(start)) + start + body + bytes(h)
    return blob, [len(p[0]) for p in packed]


# ---------------------------------------------------------------------- the demo
def names_of(blob):
    try:
        return [r.get_metadata().filename for r in read_archive(io.BytesIO(blob), path="docs.7z")]
    except Exception as exc:  # noqa: BLE001
        return "%s: %s" % (type(exc).__name__, exc)


def main() -> int:
    rnd = random.Random(1)
    text = lambda tag: ("".join(rnd.choice("abcdefghij klmnop\n") for _ in range(3000)) + tag).encode()  # noqa: E731
    files = [("a.txt", text("A")), ("b.txt", text("B")), ("c.txt", text("C"))]
    bad = False

    # 1. LZMA2: the first control byte of b.txt's stream becomes 0x00
    blob, packs = build_7z(files, enc_lzma2)
    assert names_of(blob) == ["a.txt", "b.txt", "c.txt"]
    damaged = bytearray(blob)
    damaged[32 + packs[0]] = 0x00
    got = names_of(bytes(damaged))
    print("LZMA2, first byte of b.txt's pack stream zeroed ->", got)
    if got != ["a.txt", "c.txt"] and got != ["a.txt", "b.txt", "c.txt"]:
        bad = True

    # 2. LZMA: every single-bit flip inside b.txt's stream, one at a time
    blob, packs = build_7z(files, enc_lzma)
    assert names_of(blob) == ["a.txt", "b.txt", "c.txt"]
    start, size = 32 + packs[0], packs[1]
    whole, first_example = 0, None
    for pos in range(start + size - 300, start + size):
        for bit in range(8):
            damaged = bytearray(blob)
            damaged[pos] ^= 1 << bit
            got = names_of(bytes(damaged))
            if isinstance(got, str):
                whole += 1
                first_example = first_example or (pos - start, bit, got)
    print("LZMA, single-bit flips in the last 300 bytes of b.txt's stream: %d of %d refuse the WHOLE archive" % (whole, 300 * 8))
    if first_example:
        print("   e.g. byte %d bit %d -> %s" % first_example)
        bad = True

    print("property demands: a.txt and c.txt are still returned (a corrupt member affects only itself)")
    return 1 if bad else 0


if __name__ == "__main__":
    sys.exit(main())
