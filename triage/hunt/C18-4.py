"""C18: list_all_files returns every matching file and nothing that does not match.

list_all_files has one selection parameter, include_root_files (default True).  It is accepted and
silently ignored: with include_root_files=False the files lying directly in the library root are
returned all the same.
"""
import json
import os
import sys

sys.path.insert(0, os.getcwd())

from sharepoint2text.sharepoint_io.client import (  # noqa: E402
    EntraIDAppCredentials,
    SharePointRestClient,
)


class Resp:
    def __init__(self, payload):
        self.status = 200
        self._body = json.dumps(payload).encode()

    def read(self):
        return self._body

    def close(self):
        pass


TREE = {
    "root": [("readme.txt", None), ("budget.xlsx", None), ("Reports", "F1")],
    "F1": [("q1.pdf", None), ("2024", "F2")],
    "F2": [("q2.pdf", None)],
}


def graph(request, timeout=None):
    url = request.full_url
    if "login.microsoftonline.com" in url:
        return Resp({"access_token": "tok"})
    if "/drive/" not in url:
        return Resp({"id": "SITE"})
    key = "root" if "/root/children" in url else url.split("/items/")[1].split("/")[0]
    value = []
    for i, (name, fid) in enumerate(TREE[key]):
        item = {"id": fid or f"{key}-{i}", "name": name, "webUrl": "u"}
        item["folder" if fid else "file"] = {}
        value.append(item)
    return Resp({"value": value})


def main() -> int:
    client = SharePointRestClient(
        "https://contoso.sharepoint.com/sites/demo",
        EntraIDAppCredentials("t", "c", "s"),
        request_func=graph,
    )
    everything = sorted(f.get_full_path() for f in client.list_all_files())
    without_root = sorted(f.get_full_path() for f in client.list_all_files(include_root_files=False))
    want = ["Reports/2024/q2.pdf", "Reports/q1.pdf"]
    print("list_all_files()                        :", everything)
    print("list_all_files(include_root_files=False):", without_root)
    print("property demands (nothing that does not match):", want)
    return 0 if without_root == want else 1


if __name__ == "__main__":
    sys.exit(main())
