"""C12: extraction cost is bounded by the (uncompressed) input size, irrespective
of repeat counts.

ODS stores runs of identical cells / rows once, with
table:number-columns-repeated / table:number-rows-repeated.  _extract_sheet()
caps the expansion only for EMPTY cells and rows; a repeated cell that has a
value is materialised repeat-count times (twice: raw_rows and rows_data) and once
more as text.  A 1.3 kB ODS - column A filled with "0" down to the last row, which
is what LibreOffice writes for a filled column - costs hundreds of MB.
"""
import io
import os
import subprocess
import sys
import zipfile

WORKER = r"""
import io, os, resource, sys, time
sys.path.insert(0, os.getcwd())
resource.setrlimit(resource.RLIMIT_AS, (3 << 30, 3 << 30))
from sharepoint2text.parsing.extractors.open_office.ods_extractor import read_ods
data = sys.stdin.buffer.read()
list(read_ods(io.BytesIO(open(sys.argv[1], "rb").read())))  # warm-up: imports, tiny file
base = resource.getrusage(resource.RUSAGE_SELF).ru_maxrss
t0 = time.perf_counter()
res = list(read_ods(io.BytesIO(data)))
dt = time.perf_counter() - t0
peak = resource.getrusage(resource.RUSAGE_SELF).ru_maxrss
print(max(0, peak - base) * 1024, dt, len(res[0].sheets[0].data))
"""

CONTENT = """<?xml version="1.0" encoding="UTF-8"?>
<office:document-content xmlns:office="urn:oasis:names:tc:opendocument:xmlns:office:1.0"
 xmlns:table="urn:oasis:names:tc:opendocument:xmlns:table:1.0"
 xmlns:text="urn:oasis:names:tc:opendocument:xmlns:text:1.0" office:version="1.2">
<office:body><office:spreadsheet><table:table table:name="Sheet1">
<table:table-column table:number-columns-repeated="1024"/>
<table:table-row table:number-rows-repeated="%d">
<table:table-cell office:value-type="float" office:value="0" table:number-columns-repeated="%d"><text:p>0</text:p></table:table-cell>
</table:table-row>
</table:table></office:spreadsheet></office:body></office:document-content>
"""
MANIFEST = """<?xml version="1.0" encoding="UTF-8"?>
<manifest:manifest xmlns:manifest="urn:oasis:names:tc:opendocument:xmlns:manifest:1.0">
<manifest:file-entry manifest:full-path="/" manifest:media-type="application/vnd.oasis.opendocument.spreadsheet"/>
<manifest:file-entry manifest:full-path="content.xml" manifest:media-type="text/xml"/>
</manifest:manifest>"""


def make_ods(rows, cols):
    content = (CONTENT % (rows, cols)).encode()
    buf = io.BytesIO()
    with zipfile.ZipFile(buf, "w", zipfile.ZIP_DEFLATED) as zf:
        zf.writestr("mimetype", "application/vnd.oasis.opendocument.spreadsheet", compress_type=zipfile.ZIP_STORED)
        zf.writestr("content.xml", content)
        zf.writestr("META-INF/manifest.xml", MANIFEST)
    return buf.getvalue(), len(content) + len(MANIFEST) + 46


def measure(blob, tiny_path):
    out = subprocess.run([sys.executable, "-c", WORKER, tiny_path], input=blob, capture_output=True, timeout=60)
    if out.returncode != 0:
        return None, None, out.stderr.decode()[-300:]
    mem, dt, nrows = out.stdout.split()
    return int(mem), float(dt), int(nrows)


def main() -> int:
    tiny_path = "/tmp/hunt-c12-1-tiny.ods"
    with open(tiny_path, "wb") as fh:
        fh.write(make_ods(1, 1)[0])
    bad = False
    bound = 1000  # generous "fixed multiple" of the uncompressed input size
    print("%-34s %10s %12s %14s %8s" % ("input", "file", "uncompressed", "extra memory", "time"))
    for label, rows, cols in (
        ("1 cell", 1, 1),
        ("column A filled: rows x 262144", 262144, 1),
        ("column A filled: rows x 524288", 524288, 1),
        ("column A filled: rows x 1048576", 1048576, 1),
        ("block 20000 rows x 100 cols", 20000, 100),
    ):
        blob, raw = make_ods(rows, cols)
        mem, dt, info = measure(blob, tiny_path)
        if mem is None:
            print(label, "worker failed:", info)
            bad = True
            continue
        factor = mem / raw
        print("%-34s %8d B %10d B %11.1f MB %7.2fs   memory = %.0f x input" % (label, len(blob), raw, mem / 1e6, dt, factor))
        if factor > bound:
            bad = True
    os.unlink(tiny_path)
    print("property demands: peak additional memory within a fixed multiple of the uncompressed input (checked against %d x)," % bound)
    print("independent of the repeat attributes; here it doubles with the repeat count while the input stays the same size")
    return 1 if bad else 0


if __name__ == "__main__":
    sys.exit(main())
