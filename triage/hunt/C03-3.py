"""C03 - ODT units: OdtContent.iterate_units treats every paragraph whose style
name starts with "Table" as the inside of a table and leaves it out of the unit
text. "Table" is LibreOffice's paragraph style for table CAPTIONS (Insert >
Caption, category Table), so captions vanish from the units."""
import io
import os
import sys
import zipfile

sys.path.insert(0, os.getcwd())
import logging

logging.disable(logging.CRITICAL)

from sharepoint2text.parsing.extractors.open_office.odt_extractor import read_odt

NS = (
    'xmlns:office="urn:oasis:names:tc:opendocument:xmlns:office:1.0" '
    'xmlns:text="urn:oasis:names:tc:opendocument:xmlns:text:1.0" '
    'xmlns:table="urn:oasis:names:tc:opendocument:xmlns:table:1.0" '
    'xmlns:draw="urn:oasis:names:tc:opendocument:xmlns:drawing:1.0" '
    'xmlns:style="urn:oasis:names:tc:opendocument:xmlns:style:1.0"'
)
body = (
    '<text:h text:style-name="Heading_20_1" text:outline-level="1">Results</text:h>'
    '<text:p text:style-name="Text_20_body">ParagraphBefore the table.</text:p>'
    "<table:table table:name=\"Table1\"><table:table-column/>"
    '<table:table-row><table:table-cell><text:p text:style-name="Table_20_Contents">CellOne</text:p></table:table-cell></table:table-row>'
    "</table:table>"
    '<text:p text:style-name="Table">Table 1: CaptionOfTheTable</text:p>'
    '<text:p text:style-name="Text_20_body">ParagraphAfter'
    '<draw:frame draw:name="Frame1" text:anchor-type="paragraph"><draw:text-box>'
    '<text:p text:style-name="Frame_20_contents">TextBoxContent</text:p>'
    "</draw:text-box></draw:frame></text:p>"
)
mt = "application/vnd.oasis.opendocument.text"
buf = io.BytesIO()
with zipfile.ZipFile(buf, "w") as z:
    z.writestr("mimetype", mt)
    z.writestr(
        "META-INF/manifest.xml",
        '<?xml version="1.0"?><manifest:manifest xmlns:manifest="urn:oasis:names:tc:opendocument:xmlns:manifest:1.0">'
        f'<manifest:file-entry manifest:full-path="/" manifest:media-type="{mt}"/>'
        '<manifest:file-entry manifest:full-path="content.xml" manifest:media-type="text/xml"/></manifest:manifest>',
    )
    z.writestr(
        "content.xml",
        f'<?xml version="1.0" encoding="UTF-8"?><office:document-content {NS}><office:body><office:text>{body}</office:text></office:body></office:document-content>',
    )

result = next(iter(read_odt(io.BytesIO(buf.getvalue()), None)))
units = list(result.iterate_units())
print("full text:", repr(result.get_full_text()))
for u in units:
    m = u.get_metadata()
    print(f"unit {m.unit_number}: heading_path={m.heading_path} text={u.get_text()!r} tables={[t.get_table() for t in u.get_tables()]}")

unit_text = "\n".join(u.get_text() for u in units)
problems = []
if "CaptionOfTheTable" not in unit_text:
    problems.append("caption paragraph (style 'Table') is in no unit")
note = unit_text.count("TextBoxContent")
print("expected : every body paragraph once, in the unit of its section")
print("observed :", problems or "ok")
if note != 1:
    print(f"note     : (separate root cause, not part of the verdict) the text box paragraph appears {note}x in the unit text,")
    print("           because _extract_paragraphs lists nested paragraphs on their own and inside their anchor paragraph")
sys.exit(1 if problems else 0)
