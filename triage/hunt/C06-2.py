"""C06: observing a result is idempotent and does not change what a later observation or
serialisation returns.  ImageInterface.get_bytes() of DOCX / XLSX / ODF / EPUB images hands out the
result's own internal BytesIO (the PDF, DOC, PPT, PPTX, XLS and RTF siblings return a fresh one).
Reading the picture the way streams are normally read - `with img.get_bytes() as fh:` - closes the
buffer inside the result: every later get_bytes(), unit.to_json() and result.to_json() fails."""
import io
import json
import os
import struct
import sys
import zipfile
import zlib

sys.path.insert(0, os.getcwd())


def png(w=2, h=2) -> bytes:
    def chunk(kind, data):
        body = kind + data
        return struct.pack(">I", len(data)) + body + struct.pack(">I", zlib.crc32(body) & 0xFFFFFFFF)

    raw = b"".join(b"\x00" + b"\xff\x00\x00" * w for _ in range(h))
    return (b"\x89PNG\r\n\x1a\n" + chunk(b"IHDR", struct.pack(">IIBBBBB", w, h, 8, 2, 0, 0, 0))
            + chunk(b"IDAT", zlib.compress(raw)) + chunk(b"IEND", b""))


def build_docx() -> bytes:
    w = "http://schemas.openxmlformats.org/wordprocessingml/2006/main"
    doc = (
        f'<?xml version="1.0" encoding="UTF-8" standalone="yes"?><w:document xmlns:w="{w}" '
        'xmlns:r="http://schemas.openxmlformats.org/officeDocument/2006/relationships" '
        'xmlns:wp="http://schemas.openxmlformats.org/drawingml/2006/wordprocessingDrawing" '
        'xmlns:a="http://schemas.openxmlformats.org/drawingml/2006/main" '
        'xmlns:pic="http://schemas.openxmlformats.org/drawingml/2006/picture"><w:body>'
        "<w:p><w:r><w:t>Logo:</w:t></w:r><w:r><w:drawing><wp:inline>"
        '<wp:extent cx="19050" cy="19050"/><wp:docPr id="1" name="Logo" descr="company logo"/>'
        '<a:graphic><a:graphicData uri="http://schemas.openxmlformats.org/drawingml/2006/picture">'
        '<pic:pic><pic:nvPicPr><pic:cNvPr id="1" name="logo.png"/><pic:cNvPicPr/></pic:nvPicPr>'
        '<pic:blipFill><a:blip r:embed="rId1"/></pic:blipFill><pic:spPr/></pic:pic>'
        "</a:graphicData></a:graphic></wp:inline></w:drawing></w:r></w:p></w:body></w:document>"
    )
    buf = io.BytesIO()
    with zipfile.ZipFile(buf, "w") as zf:
        zf.writestr("[Content_Types].xml",
                    '<?xml version="1.0"?><Types xmlns="http://schemas.openxmlformats.org/package/2006/content-types">'
                    '<Default Extension="rels" ContentType="application/vnd.openxmlformats-package.relationships+xml"/>'
                    '<Default Extension="xml" ContentType="application/xml"/><Default Extension="png" ContentType="image/png"/>'
                    '<Override PartName="/word/document.xml" ContentType="application/vnd.openxmlformats-officedocument.wordprocessingml.document.main+xml"/></Types>')
        zf.writestr("_rels/.rels",
                    '<?xml version="1.0"?><Relationships xmlns="http://schemas.openxmlformats.org/package/2006/relationships">'
                    '<Relationship Id="rId1" Type="http://schemas.openxmlformats.org/officeDocument/2006/relationships/officeDocument" Target="word/document.xml"/></Relationships>')
        zf.writestr("word/document.xml", doc)
        zf.writestr("word/_rels/document.xml.rels",
                    '<?xml version="1.0"?><Relationships xmlns="http://schemas.openxmlformats.org/package/2006/relationships">'
                    '<Relationship Id="rId1" Type="http://schemas.openxmlformats.org/officeDocument/2006/relationships/image" Target="media/image1.png"/></Relationships>')
        zf.writestr("word/media/image1.png", png())
    return buf.getvalue()


def main() -> int:
    import logging

    logging.disable(logging.CRITICAL)
    from sharepoint2text.parsing.extractors.ms_modern.docx_extractor import read_docx

    result = list(read_docx(io.BytesIO(build_docx()), "logo.docx"))[0]
    images = list(result.iterate_images())
    if not images:
        print("builder problem: no image extracted")
        return 0
    before = json.dumps(result.to_json(), sort_keys=True)

    # observation: read the picture like any stream (what PIL.Image.open / shutil.copyfileobj users write)
    with images[0].get_bytes() as fh:
        first = fh.read()
    print(f"observed image: {len(first)} bytes, PNG={first.startswith(bytes([0x89]) + b'PNG')}")

    failures = []
    for label, action in (
        ("get_bytes() again", lambda: next(iter(result.iterate_images())).get_bytes().read() == first),
        ("to_json() again", lambda: json.dumps(result.to_json(), sort_keys=True) == before),
        ("units to_json()", lambda: [json.dumps(u.to_json()) for u in result.iterate_units()] is not None),
    ):
        try:
            same = action()
            print(f"{label}: {'identical' if same else 'DIFFERENT'}")
            if not same:
                failures.append(label)
        except Exception as exc:  # noqa: BLE001
            print(f"{label}: raises {type(exc).__name__}: {exc}")
            failures.append(label)
    print("expected: every later observation / serialisation returns what it returned before "
          "(PdfImage, PptxImage, DocImage ... give each caller a fresh BytesIO)")
    return 1 if failures else 0


if __name__ == "__main__":
    sys.exit(main())
