"""C20: the built-in AES is used to open AES-encrypted PDFs when no crypto library is installed
(128-, 192- and 256-bit keys, CBC stream wrapper).

pdf_extractor._open_pdf_reader installs the built-in AES only when PdfReader(...) itself raises
pypdf's DependencyError.  That happens for AES-256 (R5/R6: the password check already needs AES).
For AES-128 (AESV2, /V 4 /R 4 - Acrobat 7+ default, by far the most common AES variant) the
password check uses MD5/RC4 only, so the constructor succeeds, the patch is never installed and
the first string/stream decryption raises DependencyError: the whole PDF fails, although the
built-in AES decrypts it correctly.  After any AES-256 file has been read in the same process the
patch is in place and the very same AES-128 file is extracted - the result depends on history.

The PDFs are written by pypdf in a child process (which needs the patch for writing); the parent
reads them with a pristine pypdf.
"""
import base64
import io
import json
import os
import subprocess
import sys

sys.path.insert(0, os.getcwd())

WRITER = r"""
import base64, io, json, os, sys
sys.path.insert(0, os.getcwd())
from pypdf import PdfWriter
from pypdf.generic import DecodedStreamObject, DictionaryObject, NameObject
from sharepoint2text.parsing.extractors.pdf._pypdf_aes_fallback import patch_pypdf_fallback_aes
patch_pypdf_fallback_aes()
out = {}
for alg in ("RC4-128", "AES-128", "AES-256-R5"):
    w = PdfWriter()
    p = w.add_blank_page(300, 200)
    font = DictionaryObject({NameObject("/Type"): NameObject("/Font"), NameObject("/Subtype"): NameObject("/Type1"), NameObject("/BaseFont"): NameObject("/Helvetica")})
    p[NameObject("/Resources")] = DictionaryObject({NameObject("/Font"): DictionaryObject({NameObject("/F1"): w._add_object(font)})})
    s = DecodedStreamObject()
    s.set_data(b"BT /F1 12 Tf 20 100 Td (Hello encrypted world) Tj ET")
    p[NameObject("/Contents")] = w._add_object(s)
    w.encrypt(user_password="", owner_password="owner", algorithm=alg)
    b = io.BytesIO()
    w.write(b)
    out[alg] = base64.b64encode(b.getvalue()).decode()
print(json.dumps(out))
"""


def read(data: bytes) -> str:
    from sharepoint2text.parsing.extractors.pdf.pdf_extractor import read_pdf

    try:
        return "text=%r" % next(read_pdf(io.BytesIO(data))).pages[0].text
    except Exception as exc:  # noqa: BLE001
        return f"{type(exc).__name__}: {exc} (cause: {exc.__cause__!r})"


def main() -> int:
    import pypdf._crypt_providers as providers

    if providers.crypt_provider[0] != "local_crypt_fallback":
        print("a crypto library is installed - the built-in AES is not in use; nothing to check")
        return 0
    raw = subprocess.run([sys.executable, "-c", WRITER], capture_output=True, text=True, check=True).stdout
    pdfs = {k: base64.b64decode(v) for k, v in json.loads(raw.strip().splitlines()[-1]).items()}

    r_rc4 = read(pdfs["RC4-128"])
    r_aes128_first = read(pdfs["AES-128"])
    r_aes256 = read(pdfs["AES-256-R5"])
    r_aes128_again = read(pdfs["AES-128"])
    print("RC4-128, empty user password          :", r_rc4)
    print("AES-128, empty user password (1st try):", r_aes128_first)
    print("AES-256 (R5), empty user password     :", r_aes256)
    print("AES-128, the same bytes, after AES-256:", r_aes128_again)
    print("property demands: text='Hello encrypted world' every time (the built-in AES opens")
    print("                  AES-encrypted PDFs with 128-bit keys as well, independent of history)")
    want = "text='Hello encrypted world'"
    return 0 if r_aes128_first == want and r_aes128_again == want and r_aes256 == want else 1


if __name__ == "__main__":
    sys.exit(main())
