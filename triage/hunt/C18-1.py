"""C18: if a request fails at any point the call raises an error of the client's own family
(for network failures the SharePointRequestError carrying the URL).

urllib.request.urlopen wraps only the failures of *sending* the request into URLError.  A server
that accepts the connection and then stalls (read timeout) or drops it makes urlopen raise
TimeoutError / http.client.RemoteDisconnected / ConnectionResetError directly.  _send catches
HTTPError and URLError only, so these escape from list_all_files as foreign exceptions.

Part 1 uses the real urlopen against a local socket that behaves like that; part 2 injects the same
exception types at every request index of a listing through a fake transport.
"""
import http.client
import io
import json
import os
import socket
import sys
import threading
from urllib.request import Request, urlopen

sys.path.insert(0, os.getcwd())

from sharepoint2text.sharepoint_io.client import (  # noqa: E402
    EntraIDAppCredentials,
    SharePointRestClient,
)
from sharepoint2text.sharepoint_io.exceptions import SharePointError  # noqa: E402

CRED = EntraIDAppCredentials("tenant", "client", "secret")
SITE = "https://contoso.sharepoint.com/sites/demo"


class Resp:
    def __init__(self, payload):
        self.status = 200
        self._body = json.dumps(payload).encode()
        self.closed = False

    def read(self):
        return self._body

    def close(self):
        self.closed = True


def healthy(request, timeout=None):
    url = request.full_url
    if "login.microsoftonline.com" in url:
        return Resp({"access_token": "tok"})
    if "/drive/" not in url:
        return Resp({"id": "SITE"})
    if "/root/children" in url:
        return Resp(
            {
                "value": [
                    {"id": "1", "name": "a.pdf", "file": {}, "webUrl": "u"},
                    {"id": "2", "name": "Docs", "folder": {}, "webUrl": "u"},
                ]
            }
        )
    return Resp({"value": [{"id": "3", "name": "b.docx", "file": {}, "webUrl": "u"}]})


def classify(call):
    try:
        call()
        return "no error"
    except SharePointError as exc:
        return f"own family: {type(exc).__name__}(url={getattr(exc, 'url', None)!r})"
    except Exception as exc:  # noqa: BLE001
        return f"FOREIGN {type(exc).__module__}.{type(exc).__name__}: {exc}"


def real_urlopen_part():
    """Real urllib against a local server that stalls / hangs up after reading the request."""
    results = {}
    try:
        srv = socket.socket()
        srv.bind(("127.0.0.1", 0))
        srv.listen(4)
    except OSError as exc:
        print("  (no local sockets available: %s - skipping part 1)" % exc)
        return results
    port = srv.getsockname()[1]
    mode = {"v": "stall"}
    stop = threading.Event()

    def serve():
        srv.settimeout(0.2)
        held = []
        while not stop.is_set():
            try:
                conn, _ = srv.accept()
            except OSError:
                continue
            conn.recv(65536)
            if mode["v"] == "stall":
                held.append(conn)  # never answer
            else:
                conn.close()  # hang up without a status line
        for c in held:
            c.close()

    t = threading.Thread(target=serve, daemon=True)
    t.start()

    def via_local(request, timeout=None):
        # same request, sent to the local socket instead of graph.microsoft.com
        local = Request(
            f"http://127.0.0.1:{port}/v1.0/x", headers=dict(request.header_items()), method="GET"
        )
        local.full_url_original = request.full_url
        return urlopen(local, timeout=timeout)

    for m in ("stall", "hangup"):
        mode["v"] = m
        client = SharePointRestClient(SITE, CRED, request_func=via_local, timeout=0.4)
        client._access_token = "tok"  # token already cached; the Graph request is the one that fails
        results[m] = classify(client.list_all_files)
    stop.set()
    t.join(1)
    srv.close()
    return results


def injected_part():
    out = []
    faults = [
        TimeoutError("The read operation timed out"),
        http.client.RemoteDisconnected("Remote end closed connection without response"),
        ConnectionResetError(104, "Connection reset by peer"),
    ]
    # count the requests of a healthy listing
    n = []
    SharePointRestClient(SITE, CRED, request_func=lambda r, timeout=None: (n.append(1), healthy(r))[1]).list_all_files()
    for fault in faults:
        for k in range(len(n)):
            count = {"i": -1}

            def transport(request, timeout=None, _k=k, _f=fault, _c=count):
                _c["i"] += 1
                if _c["i"] == _k:
                    raise _f
                return healthy(request)

            client = SharePointRestClient(SITE, CRED, request_func=transport)
            out.append((type(fault).__name__, k, classify(client.list_all_files)))
    return out


def main() -> int:
    bad = False
    print("part 1: real urllib.request.urlopen, server accepts the connection and ...")
    for mode, res in real_urlopen_part().items():
        print(f"  {mode:7}: {res}")
        bad |= res.startswith("FOREIGN")
    print("part 2: the same exception types injected at request index k of list_all_files")
    for name, k, res in injected_part():
        print(f"  {name:22} k={k}: {res}")
        bad |= res.startswith("FOREIGN")
    print("property demands: SharePointRequestError (status_code None, url of the failed request)")
    return 1 if bad else 0


if __name__ == "__main__":
    sys.exit(main())
