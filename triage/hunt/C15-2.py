"""C15: the result of extracting an AES-128 encrypted PDF (empty user password)
depends on what the process extracted BEFORE.  On pypdf's pure-Python crypto
provider the library installs its own AES only when *opening* a PDF raises
DependencyError (AES-256 files: the password check itself needs AES).  An AES-128
file opens fine (its password check is MD5/RC4) and then fails at the first stream.
So: fresh process -> ExtractionFailedError; after any AES-256 PDF -> full text.
The patch that makes the difference is also never undone (permanent residue)."""
import base64
import io
import logging
import os
import sys
import zlib

sys.path.insert(0, os.getcwd())
logging.disable(logging.CRITICAL)

import pypdf._crypt_providers as providers
import pypdf._crypt_providers._fallback as fb
import pypdf._encryption as enc

from sharepoint2text.parsing.extractors.pdf.pdf_extractor import read_pdf

# one-page PDFs "Hello AES-128" / "Hello AES-256", user password "", built once with pypdf.PdfWriter.encrypt
AES128 = zlib.decompress(base64.b64decode("eNqtVL1PFEEU76dSY2FsmEQoTJSd75k1FwxfF4kQCKc0SjG7MwNnYJfszRHQQv8AW2JhY4OxM1pY2mhsLYglJmpvb2Hi27sDLp6lk53JvK/f7+28NzOxMte8Tic5mvj+4/MRopjgMnuAGg2UrFSl6+a+wo0szQwXUltvbMiDM5oGSSTlRqXEMCUctYJSrjwR1phUOp9lqQBjrnUu2RSamkK+cDUyG2K4s7/jcbJiN3wHJbNlt4iYouR223XwPSzAcRWvD4XykdBZG+1WuYH6GLjGXh0KEP/kQsmq75TdKoeI2tIsgbe3oVieIMCXLHnXtjPlHiRDJklvMtKf6zVl5SGwzwnZFxHEDlZ/5SBHcqj5UNLqZrEn1kr46xnb8b1Mklt+a9fHdm6HUNQQyqIvNuImVqK2d2Ll7TZa+HDh19iXqwdP38b3v9M3Lx9du3Lx4/G7w/IZe/zt5uXJcyu7lz69vnFUfH2+MP5gbz17cv7++M/DtcWx48aLVweHNc8AasCohxjXsIBDq5cBN2UGDgALlopUaZYyOLz2VoReSVrRFs5WDiXLuCGVCtZo7j3nuU517niWEhGcdcFQYYPlwoXUchOUd4JmqRGe5cpZZq0KEopwF9rPpMQ5cOLeBBK8lRpcOPRXrkVuAzNZEF564bU00IhKEAKyCiFYQokBlNlmr8Kt6Aa76W7cnN+tC5jMlfnyji9qpyWcTM+31tjZj6qTZmjF7SbuA9RCdSqcFWmv8gERbBA5HVhJySUO+FRHoSF6luJUBzdnVKfZiI4xOqLjcjRWsFGd5PpMFyvb3vJVr7at9kMPKSerZRkx7zfzQhFKTAf7OWj/Bidc85QLqAGDlXLOtWKwKhhSCQU7SIWBjwJPouAxUPAwwAQnbqb+BwRcuvkir/Z3ItYnt6wTbRV7B2+EQBMT88tN9AcDNkho"))
AES256 = zlib.decompress(base64.b64decode("eNqtVDuPHEUQzghGckjeQjoJGezp7uqnNJzk29uVMVi7usUObDno53nR3sxpdtY6k4CEkMjI+AvkjhABiD8AAYIUiWeGeIQk1MzerVcsIbM7o6rqqe/7uqaqD2bHkxvsJhQHP/z49TcFI5Q0/u2iqopy1jZxHVJLKgkqSuGEi5lKzXMwlkJm2rAoc2YAmWqqIlimGec+ew1cZ5eNpkEESIfF4WGR6tgj8x2Gt56eJ1LO3GlaFeWoWdcdYUX5xiKuyEMi8MUT8mgnFfZSR65zy+a02GCQHvtkJ0H8J1dRnqRVs24DZvQrkwZ5B4MReYWA//Juigt31FygGHqTDjenm/tRT9kmTNxwovq6Q3dF1L80yD0NPV9Rzte+G9w+iLs+cqs0KClvp+WT1C2C20FROyhvpvq0e0yU6NdXXZvcWfHRg+l09cEvL7CXXvy++nn02V9f/vTxa69cf/XX60fLO1+8fO3Zb9/+bh/IT/9+WL1/8eG10bs3qvc+//OTZ/GPO1/NwuS7nucS6pJR7zDeJxKLRtSWm0u0Z0RwK6zS3HIs3mLZYa+U887V0bWxKKek0imlDCJFEJ4GybjRITkdBRc0gDQiGBaSz5prHwE7hZmoXYrWUS1sZM65BKBNDOgyk2kwWUE2LBuvAvX4ke6RSiWTQgDBdFKUOmm0z5JzbgM10fc03mXvpecp2ICSjewZOU05egsOgCbGIYH3ImQhI888Ugk+BGW4EcgymgwdMu/ipXVr3T0eP+kboDxuwvQ81f1Ld0l5azy/D9tCAb9qpnl3NiEbgN5pnzvTMaliUCrSqCFo5kzQVqAWmziTVLqgtBdJORopeBQXKO6MUmYCF9HiqPUTVt5DGBYcbgDnEAz3ijupVFZKCdwMomWHT2Vxkyx4G720hoJTPNAkjDHJGoSZpfYM58IZmqWK1mbIPClPKRZUS8HAOWBS7470RZtyQYkp6PYiSkqQJJNtjOEgDCv1NsYY7Mc034txzvZiIPdzBd+PSdDPY13rFsvUDj09X7yTUHJ50jQdgc0Qv17nhrBL+xjHvgILCrhiWESm8BgEAQz9PiaUVIMFGtc4oCT08HPgr3/ipfjh/wGBh824Du3T847oq9Nl1bm2GwrPKI7fwcF4Oin+AUJgiu0="))

print("pypdf crypto provider:", providers.crypt_provider)
if providers.crypt_provider[0] != "local_crypt_fallback":
    print("cryptography/pycryptodome installed: the fallback patch is not used here")
    sys.exit(0)


def snapshot():
    s = {}
    for mod in (fb, providers, enc):
        for name in ("aes_ecb_encrypt", "aes_ecb_decrypt", "aes_cbc_encrypt", "aes_cbc_decrypt", "CryptAES"):
            s[f"{mod.__name__}.{name}"] = getattr(mod, name)
    for meth in ("__init__", "encrypt", "decrypt"):
        s[f"{fb.__name__}.CryptAES.{meth}"] = fb.CryptAES.__dict__[meth]
    return s


def extract(data):
    try:
        return "text=" + repr(list(read_pdf(io.BytesIO(data)))[0].get_full_text())
    except Exception as exc:  # noqa: BLE001
        return f"{type(exc).__name__} (cause: {exc.__cause__!r})"


before = snapshot()
first = extract(AES128)
print("1. AES-128 PDF in a fresh process      :", first)
middle = extract(AES256)
print("2. AES-256 PDF                          :", middle)
second = extract(AES128)
print("3. the same AES-128 PDF again           :", second)
after = snapshot()
changed = sorted(k for k in before if before[k] is not after[k])
print("pypdf attributes replaced for the rest of the process:", len(changed))
for k in changed:
    print("   ", k)

bad = []
if first != second:
    bad.append("the same document gives a different result depending on whether an AES-256 PDF was extracted before")
if changed:
    bad.append("patched third-party functions are not back to what they were")
print("property demands: the result of extracting a document does not depend on what the process extracted before, "
      "and patched third-party functions are restored")
if bad:
    print("VIOLATED:")
    for b in bad:
        print("  ", b)
    sys.exit(1)
print("ok")
sys.exit(0)
