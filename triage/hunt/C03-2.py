"""C03 - DOCX units: in a document that has headings, everything in front of the
first heading (title page, abstract, introduction) is returned in NO unit; the
ODT reader returns the same content as a leading unit without heading path."""
import io
import os
import sys
import zipfile

sys.path.insert(0, os.getcwd())

from sharepoint2text.parsing.extractors.ms_modern.docx_extractor import read_docx

W = "http://schemas.openxmlformats.org/wordprocessingml/2006/main"


def p(text: str, style: str | None = None) -> str:
    ppr = f'<w:pPr><w:pStyle w:val="{style}"/></w:pPr>' if style else ""
    return f"<w:p>{ppr}<w:r><w:t>{text}</w:t></w:r></w:p>"


body = (
    p("ProjectReport2024", "Title")
    + p("AbstractSentence summarising the findings.")
    + p("Introduction", "Heading1")
    + p("IntroBody text.")
    + p("Methods", "Heading1")
    + p("MethodsBody text.")
)
styles = (
    f'<?xml version="1.0" encoding="UTF-8"?><w:styles xmlns:w="{W}">'
    '<w:style w:type="paragraph" w:styleId="Title"><w:name w:val="Title"/></w:style>'
    '<w:style w:type="paragraph" w:styleId="Heading1"><w:name w:val="heading 1"/></w:style>'
    "</w:styles>"
)
buf = io.BytesIO()
with zipfile.ZipFile(buf, "w") as z:
    z.writestr(
        "[Content_Types].xml",
        '<?xml version="1.0"?><Types xmlns="http://schemas.openxmlformats.org/package/2006/content-types">'
        '<Default Extension="rels" ContentType="application/vnd.openxmlformats-package.relationships+xml"/>'
        '<Default Extension="xml" ContentType="application/xml"/>'
        '<Override PartName="/word/document.xml" ContentType="application/vnd.openxmlformats-officedocument.wordprocessingml.document.main+xml"/></Types>',
    )
    z.writestr(
        "_rels/.rels",
        '<?xml version="1.0"?><Relationships xmlns="http://schemas.openxmlformats.org/package/2006/relationships">'
        '<Relationship Id="rId1" Type="http://schemas.openxmlformats.org/officeDocument/2006/relationships/officeDocument" Target="word/document.xml"/></Relationships>',
    )
    z.writestr(
        "word/_rels/document.xml.rels",
        '<?xml version="1.0"?><Relationships xmlns="http://schemas.openxmlformats.org/package/2006/relationships">'
        '<Relationship Id="rId1" Type="http://schemas.openxmlformats.org/officeDocument/2006/relationships/styles" Target="styles.xml"/></Relationships>',
    )
    z.writestr("word/styles.xml", styles)
    z.writestr(
        "word/document.xml",
        f'<?xml version="1.0" encoding="UTF-8"?><w:document xmlns:w="{W}"><w:body>{body}<w:sectPr/></w:body></w:document>',
    )

result = next(iter(read_docx(io.BytesIO(buf.getvalue()), None)))
units = list(result.iterate_units())
print("full text:", repr(result.get_full_text()))
for u in units:
    m = u.get_metadata()
    print(f"unit {m.unit_number}: heading_path={m.heading_path} text={u.get_text()!r}")

covered = " ".join(u.get_text() + " " + " ".join(u.get_metadata().heading_path) for u in units)
lost = [t for t in ("ProjectReport2024", "AbstractSentence", "IntroBody", "MethodsBody") if t not in covered]
print("expected : every body paragraph is in exactly one unit (text in front of the first heading in a leading unit)")
print("in no unit:", lost)
sys.exit(1 if lost else 0)
