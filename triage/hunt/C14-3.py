"""C14: a PPTX picture whose relationship target is an absolute part name
(/ppt/media/image1.png, as System.IO.Packaging / Open XML SDK write it) is lost:
_normalize_relative_path glues the absolute name behind the slide directory."""
import os
import sys

sys.path.insert(0, os.getcwd())

from sharepoint2text.parsing.extractors.ms_modern.pptx_extractor import read_pptx

# ---- minimal PPTX builder ----
import io
import struct
import zipfile
import zlib


def png(w, h, seed=0):
    def ch(t, d):
        return struct.pack(">I", len(d)) + t + d + struct.pack(">I", zlib.crc32(t + d) & 0xFFFFFFFF)

    raw = b"".join(b"\x00" + bytes([(seed + x + y) % 256 for x in range(w)]) for y in range(h))
    return (b"\x89PNG\r\n\x1a\n" + ch(b"IHDR", struct.pack(">IIBBBBB", w, h, 8, 0, 0, 0, 0))
            + ch(b"IDAT", zlib.compress(raw)) + ch(b"IEND", b""))


NS = ('xmlns:a="http://schemas.openxmlformats.org/drawingml/2006/main" '
      'xmlns:r="http://schemas.openxmlformats.org/officeDocument/2006/relationships" '
      'xmlns:p="http://schemas.openxmlformats.org/presentationml/2006/main"')
REL = "http://schemas.openxmlformats.org/officeDocument/2006/relationships"
PKG = "http://schemas.openxmlformats.org/package/2006/relationships"


def pic(rid, x=0, y=0):
    return ('<p:pic><p:nvPicPr><p:cNvPr id="4" name="Picture"/><p:cNvPicPr/><p:nvPr/></p:nvPicPr>'
            f'<p:blipFill><a:blip r:embed="{rid}"/><a:stretch><a:fillRect/></a:stretch></p:blipFill>'
            f'<p:spPr><a:xfrm><a:off x="{x}" y="{y}"/><a:ext cx="100" cy="100"/></a:xfrm></p:spPr></p:pic>')


def slide(shapes):
    return (f'<?xml version="1.0"?><p:sld {NS}><p:cSld><p:spTree><p:nvGrpSpPr><p:cNvPr id="1" name=""/>'
            f'<p:cNvGrpSpPr/><p:nvPr/></p:nvGrpSpPr><p:grpSpPr/>{shapes}</p:spTree></p:cSld></p:sld>')


def pptx(slides, media):
    """slides: list of (shapes_xml, [(rId, image target)]); media: part name -> bytes"""
    z = io.BytesIO()
    with zipfile.ZipFile(z, "w") as f:
        f.writestr("[Content_Types].xml",
                   '<?xml version="1.0"?><Types xmlns="http://schemas.openxmlformats.org/package/2006/content-types">'
                   '<Default Extension="rels" ContentType="application/vnd.openxmlformats-package.relationships+xml"/>'
                   '<Default Extension="xml" ContentType="application/xml"/><Default Extension="png" ContentType="image/png"/></Types>')
        f.writestr("_rels/.rels",
                   f'<?xml version="1.0"?><Relationships xmlns="{PKG}"><Relationship Id="rId1" '
                   f'Type="{REL}/officeDocument" Target="ppt/presentation.xml"/></Relationships>')
        ids = "".join(f'<p:sldId id="{256 + i}" r:id="rId{i + 1}"/>' for i in range(len(slides)))
        f.writestr("ppt/presentation.xml",
                   f'<?xml version="1.0"?><p:presentation {NS}><p:sldIdLst>{ids}</p:sldIdLst></p:presentation>')
        f.writestr("ppt/_rels/presentation.xml.rels",
                   f'<?xml version="1.0"?><Relationships xmlns="{PKG}">'
                   + "".join(f'<Relationship Id="rId{i + 1}" Type="{REL}/slide" Target="slides/slide{i + 1}.xml"/>'
                             for i in range(len(slides))) + "</Relationships>")
        for i, (shapes, rels) in enumerate(slides):
            f.writestr(f"ppt/slides/slide{i + 1}.xml", slide(shapes))
            f.writestr(f"ppt/slides/_rels/slide{i + 1}.xml.rels",
                       f'<?xml version="1.0"?><Relationships xmlns="{PKG}">'
                       + "".join(f'<Relationship Id="{rid}" Type="{REL}/image" Target="{t}"/>' for rid, t in rels)
                       + "</Relationships>")
        for k, v in media.items():
            f.writestr(k, v)
    z.seek(0)
    return z

# ---- the property ----
A = png(9, 4, 5)
bad = []
for label, target in [("parent-relative ../media/image1.png", "../media/image1.png"),
                      ("absolute /ppt/media/image1.png", "/ppt/media/image1.png")]:
    deck = pptx([(pic("rId1"), [("rId1", target)])], {"ppt/media/image1.png": A})
    doc = list(read_pptx(deck))[0]
    got = [(i.get_bytes().read() == A, i.get_content_type(), i.get_metadata().width, i.get_metadata().height,
            i.get_metadata().unit_number, i.get_metadata().image_number) for i in doc.iterate_images()]
    unit_view = [len(u.get_images()) for u in doc.iterate_units()]
    print(f"{label}: iterate_images -> {got}; images per slide -> {unit_view}")
    if got != [(True, "image/png", 9, 4, 1, 1)]:
        bad.append(f"{label}: expected the bit-exact 9x4 PNG on slide 1, got {got}")
print("property demands: the picture is returned bit-exact however the package references it "
      "(relative, parent-relative or absolute part names)")
if bad:
    print("VIOLATED:")
    for b in bad:
        print("  ", b)
    sys.exit(1)
print("ok")
sys.exit(0)
