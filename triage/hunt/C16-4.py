"""C16: one mbox message whose From header carries raw UTF-8 (RFC 6532 / SMTPUTF8,
also common from non-conforming senders) makes the WHOLE mailbox fail; in To/Cc the
display name comes back as replacement characters.  The .eml reader handles both."""
import io
import os
import sys

sys.path.insert(0, os.getcwd())

from sharepoint2text.parsing.exceptions import ExtractionError
from sharepoint2text.parsing.extractors.mail.eml_email_extractor import read_eml_format_mail
from sharepoint2text.parsing.extractors.mail.mbox_email_extractor import read_mbox_format_mail

MSG1 = "From: alice@example.com\nTo: bob@example.com\nSubject: first\nDate: Mon, 01 Jan 2024 10:00:00 +0000\n\nbody one\n"
MSG2 = ("From: Jörg Müller <joerg@example.com>\nTo: Zoë <zoe@example.com>\nSubject: second\n"
        "Date: Mon, 01 Jan 2024 11:00:00 +0000\nMIME-Version: 1.0\nContent-Type: text/plain; charset=utf-8\n"
        "Content-Transfer-Encoding: 8bit\n\nbody two\n")

eml = list(read_eml_format_mail(io.BytesIO(MSG2.encode("utf-8"))))[0]
print(".eml reader, message 2 :", eml.from_email, eml.to_emails)

mbox = ("From alice@example.com Mon Jan  1 10:00:00 2024\n" + MSG1 + "\n"
        "From joerg@example.com Mon Jan  1 11:00:00 2024\n" + MSG2 + "\n").encode("utf-8")
bad = []
try:
    res = list(read_mbox_format_mail(io.BytesIO(mbox)))
    got = [(m.subject, m.from_email.name, m.from_email.address, [(t.name, t.address) for t in m.to_emails]) for m in res]
    print(".mbox reader           :", got)
    want = [("first", "", "alice@example.com", [("", "bob@example.com")]),
            ("second", "Jörg Müller", "joerg@example.com", [("Zoë", "zoe@example.com")])]
    if got != want:
        bad.append(f"expected {want}")
except ExtractionError as exc:
    print(".mbox reader           : raised", type(exc).__name__, "-", exc, "| cause:", repr(exc.__cause__))
    bad.append("the mailbox of two messages yields no result at all")

# the same header in To only: no failure, but the name is destroyed
MSG3 = MSG2.replace("From: Jörg Müller <joerg@example.com>", "From: joerg@example.com")
res = list(read_mbox_format_mail(io.BytesIO(("From x@example.com Mon Jan  1 11:00:00 2024\n" + MSG3).encode("utf-8"))))
print(".mbox reader, To only  :", res[0].to_emails)
if res[0].to_emails[0].name != "Zoë":
    bad.append(f"recipient display name is {res[0].to_emails[0].name!r}, the .eml reader returns 'Zoë'")

print("property demands: one result per message, in order, with exact sender/recipient names; .eml and .mbox parsers agree")
if bad:
    print("VIOLATED:")
    for b in bad:
        print("  ", b)
    sys.exit(1)
print("ok")
sys.exit(0)
