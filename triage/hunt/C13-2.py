"""C13: XLS sheets are stored as dictionaries keyed by the header text, so columns
whose header cells are equal (or both empty) collapse into one column, and a
sheet that has only one row disappears."""
import io
import os
import struct
import sys

sys.path.insert(0, os.getcwd())

from sharepoint2text.parsing.extractors.ms_legacy.xls_extractor import read_xls


# ---- minimal BIFF8 + OLE2 writer -------------------------------------------
def rec(t, data=b""):
    return struct.pack("<HH", t, len(data)) + data


def ustr(s, lenfmt="<H"):
    return struct.pack(lenfmt, len(s)) + b"\x00" + s.encode("latin-1")


def cell(r, c, v):
    if v is None:
        return b""
    if isinstance(v, (int, float)):
        return rec(0x0203, struct.pack("<HHHd", r, c, 0, float(v)))
    return rec(0x0204, struct.pack("<HHH", r, c, 0) + ustr(str(v)))


def biff(sheets):
    bof = lambda typ: rec(0x0809, struct.pack("<HHHHII", 0x0600, typ, 0x0DBB, 0x07CC, 0, 6))
    streams = []
    for _name, rows in sheets:
        s = bof(0x0010)
        s += rec(0x0200, struct.pack("<IIHHH", 0, len(rows), 0, max(len(r) for r in rows), 0))
        for i, r in enumerate(rows):
            for j, v in enumerate(r):
                s += cell(i, j, v)
        streams.append(s + rec(0x000A))

    def globals_(offsets):
        g = bof(0x0005) + rec(0x0042, struct.pack("<H", 1200))
        for (name, _), off in zip(sheets, offsets):
            g += rec(0x0085, struct.pack("<IBB", off, 0, 0) + ustr(name, "<B"))
        return g + rec(0x000A)

    pos = len(globals_([0] * len(sheets)))
    offs = []
    for s in streams:
        offs.append(pos)
        pos += len(s)
    return globals_(offs) + b"".join(streams)


def ole(name, data):
    SEC = 512
    data += b"\x00" * max(0, 4096 - len(data))
    data += b"\x00" * (-len(data) % SEC)
    n = len(data) // SEC
    fat = [0xFFFFFFFD, 0xFFFFFFFE] + [3 + i if i < n - 1 else 0xFFFFFFFE for i in range(n)]
    fat += [0xFFFFFFFF] * (128 - len(fat))
    hdr = b"\xd0\xcf\x11\xe0\xa1\xb1\x1a\xe1" + b"\x00" * 16
    hdr += struct.pack("<HHHHH", 0x3E, 3, 0xFFFE, 9, 6) + b"\x00" * 6
    hdr += struct.pack("<IIIIIIIII", 0, 1, 1, 0, 4096, 0xFFFFFFFE, 0, 0xFFFFFFFE, 0)
    hdr += struct.pack("<I", 0) + b"\xff" * (4 * 108)
    NO = 0xFFFFFFFF

    def dirent(nm, typ, child, start, size):
        nb = nm.encode("utf-16-le") + b"\x00\x00"
        e = nb + b"\x00" * (64 - len(nb)) + struct.pack("<HBB", len(nb), typ, 1)
        e += struct.pack("<III", NO, NO, child) + b"\x00" * 36 + struct.pack("<II", start, size) + b"\x00" * 4
        return e

    empty = b"\x00" * 68 + struct.pack("<III", NO, NO, NO) + b"\x00" * 48
    ents = dirent("Root Entry", 5, 1, 0xFFFFFFFE, 0) + dirent(name, 2, NO, 2, len(data)) + empty * 2
    return hdr + struct.pack("<128I", *fat) + ents + data


def xls(sheets):
    return io.BytesIO(ole("Workbook", biff(sheets)))


# ---- the property -----------------------------------------------------------
sheets = [
    # an export with two "Amount" columns (net / gross) and two unnamed helper columns
    ("dup", [["Item", "Amount", "Amount"], ["pen", 1, 2], ["ink", 3, 4]]),
    ("blank", [["id", None, None], [1, "x", "y"]]),
    ("onerow", [["only", "row"]]),
]
doc = list(read_xls(xls(sheets)))[0]
tables = list(doc.iterate_tables())
bad = []
for (name, src), t in zip(sheets, tables):
    got = t.get_table()
    dim = t.get_dim()
    r, c = len(src), max(len(x) for x in src)
    print(f"sheet {name!r}: source {src}\n   returned {got} dim={tuple((dim.rows, dim.columns))}")
    if (dim.rows, dim.columns) != (r, c):
        bad.append(f"{name}: get_dim() is ({dim.rows},{dim.columns}), source grid is ({r},{c})")
    for i, row in enumerate(src):
        for j, v in enumerate(row):
            if i == 0 or v is None:
                continue
            try:
                g = got[i][j]
            except IndexError:
                g = "<missing>"
            if g != v:
                bad.append(f"{name}: source cell ({i},{j}) = {v!r}, returned {g!r}")
print("property demands: an r x c grid whose cell (i,j) holds the value of source cell (i,j); no table is lost")
if bad:
    print("VIOLATED:")
    for b in bad:
        print("  ", b)
    sys.exit(1)
print("ok")
sys.exit(0)
