"""C06: extraction is a pure function of (bytes, path): a fresh process must yield the identical
to_json() for the same bytes.  The content type of ODF (and EPUB) images is taken from the HOST's
MIME database (mimetypes.guess_type reads /etc/mime.types, the Windows registry, ...), so the same
ODT gives a different to_json() on two hosts / containers - and, because the lookup is lru_cached,
even in one process before/after another library calls mimetypes.add_type()."""
import hashlib
import io
import json
import os
import subprocess
import sys
import textwrap
import zipfile

sys.path.insert(0, os.getcwd())

NS = (
    'xmlns:office="urn:oasis:names:tc:opendocument:xmlns:office:1.0" '
    'xmlns:text="urn:oasis:names:tc:opendocument:xmlns:text:1.0" '
    'xmlns:draw="urn:oasis:names:tc:opendocument:xmlns:drawing:1.0" '
    'xmlns:svg="urn:oasis:names:tc:opendocument:xmlns:svg-compatible:1.0" '
    'xmlns:xlink="http://www.w3.org/1999/xlink"'
)


def build_odt() -> bytes:
    """What LibreOffice writes for a pasted Windows metafile: Pictures/<hash>.emf"""
    content = (
        f'<?xml version="1.0" encoding="UTF-8"?><office:document-content {NS} office:version="1.2">'
        "<office:body><office:text><text:p>Org chart:"
        '<draw:frame draw:name="Chart" svg:width="5cm" svg:height="3cm">'
        '<draw:image xlink:href="Pictures/100000010000.emf" xlink:type="simple"/></draw:frame>'
        "</text:p></office:text></office:body></office:document-content>"
    )
    manifest = (
        '<?xml version="1.0" encoding="UTF-8"?>'
        '<manifest:manifest xmlns:manifest="urn:oasis:names:tc:opendocument:xmlns:manifest:1.0">'
        '<manifest:file-entry manifest:full-path="/" manifest:media-type="application/vnd.oasis.opendocument.text"/>'
        '<manifest:file-entry manifest:full-path="content.xml" manifest:media-type="text/xml"/>'
        '<manifest:file-entry manifest:full-path="Pictures/100000010000.emf" manifest:media-type="image/x-emf"/>'
        "</manifest:manifest>"
    )
    emf = b"\x01\x00\x00\x00\x6c\x00\x00\x00" + b"\0" * 32 + b" EMF" + b"\0" * 64
    buf = io.BytesIO()
    with zipfile.ZipFile(buf, "w") as zf:
        zf.writestr(zipfile.ZipInfo("mimetype"), "application/vnd.oasis.opendocument.text")
        zf.writestr("content.xml", content)
        zf.writestr("META-INF/manifest.xml", manifest)
        zf.writestr("Pictures/100000010000.emf", emf)
    return buf.getvalue()


CHILD = textwrap.dedent(
    """
    import hashlib, io, json, logging, mimetypes, os, sys
    logging.disable(logging.CRITICAL)
    host = sys.argv[1]
    # The state of the host MIME database when the interpreter starts
    mimetypes.knownfiles[:] = []                   # minimal container: no /etc/mime.types at all
    mimetypes.init()
    if host == "debian":                           # Debian/Ubuntu media-types package
        mimetypes.add_type("image/emf", ".emf")
    elif host == "legacy":                         # older mime.types / Windows registry
        mimetypes.add_type("image/x-emf", ".emf")
    sys.path.insert(0, os.getcwd())
    from sharepoint2text.parsing.extractors.open_office.odt_extractor import read_odt
    data = sys.stdin.buffer.read()
    result = list(read_odt(io.BytesIO(data), "chart.odt"))[0]
    j = result.to_json()
    print(json.dumps({"sha": hashlib.sha256(json.dumps(j, sort_keys=True).encode()).hexdigest(),
                      "content_type": [i["content_type"] for i in j["images"]]}))
    """
)


def main() -> int:
    data = build_odt()
    seen = {}
    for host in ("slim", "debian", "legacy"):
        out = subprocess.run([sys.executable, "-c", CHILD, host], input=data, capture_output=True,
                             timeout=20, check=True, cwd=os.getcwd())
        seen[host] = json.loads(out.stdout)
        print(f"fresh process, host MIME db '{host}': image content_type={seen[host]['content_type']} "
              f"sha256(to_json)={seen[host]['sha'][:16]}")
    print("expected: one and the same to_json() for the same bytes and path in every fresh process "
          "(the DOCX/PPTX/XLSX siblings use a fixed table: image/x-emf)")
    return 0 if len({v["sha"] for v in seen.values()}) == 1 else 1


if __name__ == "__main__":
    sys.exit(main())
