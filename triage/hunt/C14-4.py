"""C14: XLSX pictures are attributed to sheets by the NUMBER in the part name
(xl/worksheets/sheet<N>.xml) instead of the workbook relationships.  When the tab
order differs from the part numbering (sheets re-ordered or deleted with POI,
EPPlus, ClosedXML, Open XML SDK ...) the picture lands on the wrong sheet or is lost."""
import io
import os
import struct
import sys
import zipfile
import zlib

sys.path.insert(0, os.getcwd())

from sharepoint2text.parsing.extractors.ms_modern.xlsx_extractor import read_xlsx


def png(w, h, seed=0):
    def ch(t, d):
        return struct.pack(">I", len(d)) + t + d + struct.pack(">I", zlib.crc32(t + d) & 0xFFFFFFFF)

    raw = b"".join(b"\x00" + bytes([(seed + x + y) % 256 for x in range(w)]) for y in range(h))
    return (b"\x89PNG\r\n\x1a\n" + ch(b"IHDR", struct.pack(">IIBBBBB", w, h, 8, 0, 0, 0, 0))
            + ch(b"IDAT", zlib.compress(raw)) + ch(b"IEND", b""))


R = "http://schemas.openxmlformats.org/officeDocument/2006/relationships"
PKG = "http://schemas.openxmlformats.org/package/2006/relationships"
MAIN = "http://schemas.openxmlformats.org/spreadsheetml/2006/main"
IMG = png(30, 20, 1)


def sheet(val, drawing):
    return (f'<?xml version="1.0"?><worksheet xmlns="{MAIN}" xmlns:r="{R}"><sheetData>'
            f'<row r="1"><c r="A1" t="inlineStr"><is><t>{val}</t></is></c><c r="B1" t="inlineStr"><is><t>h2</t></is></c></row>'
            '<row r="2"><c r="A2"><v>1</v></c><c r="B2"><v>2</v></c></row></sheetData>'
            + ('<drawing r:id="rId1"/>' if drawing else "") + "</worksheet>")


def xlsx(tabs, parts, drawing_part):
    """tabs: [(tab name, rId)], parts: {rId: part file name}, drawing_part: file name of the sheet with the picture"""
    z = io.BytesIO()
    with zipfile.ZipFile(z, "w") as f:
        f.writestr("[Content_Types].xml",
                   '<?xml version="1.0"?><Types xmlns="http://schemas.openxmlformats.org/package/2006/content-types">'
                   '<Default Extension="rels" ContentType="application/vnd.openxmlformats-package.relationships+xml"/>'
                   '<Default Extension="xml" ContentType="application/xml"/><Default Extension="png" ContentType="image/png"/>'
                   '<Override PartName="/xl/workbook.xml" ContentType="application/vnd.openxmlformats-officedocument.spreadsheetml.sheet.main+xml"/>'
                   + "".join(f'<Override PartName="/xl/worksheets/{p}" ContentType="application/vnd.openxmlformats-officedocument.spreadsheetml.worksheet+xml"/>' for p in parts.values())
                   + '<Override PartName="/xl/drawings/drawing1.xml" ContentType="application/vnd.openxmlformats-officedocument.drawing+xml"/></Types>')
        f.writestr("_rels/.rels", f'<?xml version="1.0"?><Relationships xmlns="{PKG}"><Relationship Id="rId1" Type="{R}/officeDocument" Target="xl/workbook.xml"/></Relationships>')
        f.writestr("xl/workbook.xml", f'<?xml version="1.0"?><workbook xmlns="{MAIN}" xmlns:r="{R}"><sheets>'
                   + "".join(f'<sheet name="{n}" sheetId="{i + 1}" r:id="{rid}"/>' for i, (n, rid) in enumerate(tabs)) + "</sheets></workbook>")
        f.writestr("xl/_rels/workbook.xml.rels", f'<?xml version="1.0"?><Relationships xmlns="{PKG}">'
                   + "".join(f'<Relationship Id="{rid}" Type="{R}/worksheet" Target="worksheets/{p}"/>' for rid, p in parts.items()) + "</Relationships>")
        for p in parts.values():
            f.writestr(f"xl/worksheets/{p}", sheet("cell-of-" + p, p == drawing_part))
        f.writestr(f"xl/worksheets/_rels/{drawing_part}.rels", f'<?xml version="1.0"?><Relationships xmlns="{PKG}"><Relationship Id="rId1" Type="{R}/drawing" Target="../drawings/drawing1.xml"/></Relationships>')
        f.writestr("xl/drawings/drawing1.xml",
                   f'<?xml version="1.0"?><xdr:wsDr xmlns:xdr="http://schemas.openxmlformats.org/drawingml/2006/spreadsheetDrawing" xmlns:a="http://schemas.openxmlformats.org/drawingml/2006/main" xmlns:r="{R}">'
                   '<xdr:twoCellAnchor><xdr:from><xdr:col>0</xdr:col><xdr:colOff>0</xdr:colOff><xdr:row>0</xdr:row><xdr:rowOff>0</xdr:rowOff></xdr:from>'
                   '<xdr:to><xdr:col>1</xdr:col><xdr:colOff>0</xdr:colOff><xdr:row>1</xdr:row><xdr:rowOff>0</xdr:rowOff></xdr:to>'
                   '<xdr:pic><xdr:nvPicPr><xdr:cNvPr id="2" name="Logo"/><xdr:cNvPicPr/></xdr:nvPicPr><xdr:blipFill><a:blip r:embed="rId1"/></xdr:blipFill><xdr:spPr/></xdr:pic>'
                   '<xdr:clientData/></xdr:twoCellAnchor></xdr:wsDr>')
        f.writestr("xl/drawings/_rels/drawing1.xml.rels", f'<?xml version="1.0"?><Relationships xmlns="{PKG}"><Relationship Id="rId1" Type="{R}/image" Target="../media/image1.png"/></Relationships>')
        f.writestr("xl/media/image1.png", IMG)
    z.seek(0)
    return z


def view(z):
    doc = list(read_xlsx(z))[0]
    units = [(u.get_metadata().sheet_name, u.get_tables()[0].get_table()[0][0],
              [i.get_bytes().read() == IMG for i in u.get_images()]) for u in doc.iterate_units()]
    total = [i.get_bytes().read() == IMG for i in doc.iterate_images()]
    return units, total


bad = []
# 1. tabs re-ordered: tab 1 "Summary" is sheet2.xml, tab 2 "Charts" is sheet1.xml and carries the picture
units, total = view(xlsx([("Summary", "rId2"), ("Charts", "rId1")], {"rId1": "sheet1.xml", "rId2": "sheet2.xml"}, "sheet1.xml"))
print("re-ordered tabs  :", units, "document images:", total)
holder = [name for name, _cell, imgs in units if imgs]
if holder != ["Charts"]:
    bad.append(f"picture sits on tab 'Charts' (sheet1.xml) but is attributed to {holder or 'no sheet'}")
# 2. first sheet deleted: the only tab "Charts" is stored as sheet2.xml
units, total = view(xlsx([("Charts", "rId1")], {"rId1": "sheet2.xml"}, "sheet2.xml"))
print("sheet1 deleted   :", units, "document images:", total)
if total != [True]:
    bad.append(f"workbook whose only sheet is stored as sheet2.xml: picture lost, iterate_images -> {total}")
print("property demands: every placed picture is returned, attributed to the sheet it sits on")
if bad:
    print("VIOLATED:")
    for b in bad:
        print("  ", b)
    sys.exit(1)
print("ok")
sys.exit(0)
