r"""C04 - RTF document properties: the {\info ...} strings are unescaped by a
private mini-decoder: \'xx becomes chr(0xXX) (Latin-1) whatever \ansicpg says, and
a \uN escape is deleted as an unknown control word, leaving only its '?' fallback.
Title / author / subject / keywords with a euro sign, typographic quotes, or any
non-Latin-1 letter are therefore reported wrong - while the body walk of the same
file decodes \uN correctly."""
import io
import os
import sys

sys.path.insert(0, os.getcwd())
import logging

logging.disable(logging.CRITICAL)

from sharepoint2text.parsing.extractors.ms_legacy.rtf_extractor import read_rtf

BS = "\\"
U = BS + "u"  # keeps literal backslash-u sequences out of this source file

title_rtf = "Budget 2024 " + U + "8211? 5" + BS + "'80 " + U + "321?" + U + "243?d" + U + "378?"
author_rtf = "Ji" + BS + "'f8" + U + "237? Nov" + BS + "'e1k"
expected_title = "Budget 2024 – 5€ Łódź"   # "Budget 2024 – 5€ Łódź"
expected_author_cp1250 = "Jiří Novák"               # "Jiří Novák" (\ansicpg1250)

rtf = (
    "{" + BS + "rtf1" + BS + "ansi" + BS + "ansicpg1250" + BS + "uc1" + BS + "deff0"
    "{" + BS + "fonttbl{" + BS + "f0" + BS + "fcharset238 Arial;}}"
    "{" + BS + "info{" + BS + "title " + title_rtf + "}{" + BS + "author " + author_rtf + "}}"
    + BS + "pard Body text" + BS + "par}"
).encode("ascii")

result = next(iter(read_rtf(io.BytesIO(rtf), "budget.rtf")))
meta = result.get_metadata()
print("source  :", rtf.decode())
print("observed: title  =", repr(meta.title))
print("expected: title  =", repr(expected_title))
print("observed: author =", repr(meta.author))
print("expected: author =", repr(expected_author_cp1250))
violated = meta.title != expected_title or meta.author != expected_author_cp1250
sys.exit(1 if violated else 0)
