"""C10: an unsupported member affects only itself.

7-Zip compresses x86 executables with the BCJ2 filter (always before v9.3x,
today at level Ultra / -mx=8,9).  Such an archive has two folders: one ordinary
LZMA2 folder with the documents and one BCJ2 folder (4 coders, BCJ2 is a
"complex" coder with 4 in-streams, 3 bind pairs and FOUR packed streams) with
the .exe/.dll files.  _parse_folder() never reads the packed-stream index list
that the 7z format puts after the bind pairs when a folder has more than one
packed stream, so the header parser loses its position and the whole archive is
rejected as invalid - although only setup.exe (an unsupported type anyway) lives
in the BCJ2 folder.
"""
import io
import logging
import lzma
import os
import struct
import sys
import zlib

sys.path.insert(0, os.getcwd())
logging.disable(logging.CRITICAL)
from sharepoint2text.parsing.extractors.archive_extractor import read_archive  # noqa: E402


def num(v):
    first, mask = 0, 0x80
    for i in range(8):
        if v < (1 << (7 * (i + 1))):
            return bytes([first | (v >> (8 * i))]) + (v & ((1 << (8 * i)) - 1)).to_bytes(i, "little")
        first |= mask
        mask >>= 1
    return b"\xff" + v.to_bytes(8, "little")


def lzma1(data, lc, lp, pb=2, dict_size=1 << 20):
    f = [{"id": lzma.FILTER_LZMA1, "dict_size": dict_size, "lc": lc, "lp": lp, "pb": pb}]
    props = bytes([(pb * 5 + lp) * 9 + lc]) + struct.pack("<I", dict_size)
    return lzma.compress(data, format=lzma.FORMAT_RAW, filters=f), props


def simple_coder(cid, props):
    return bytes([len(cid) | 0x20]) + cid + num(len(props)) + props


def build(docs, exe_name, exe_data, bcj2_first):
    # folder with the documents: one solid LZMA2 stream
    doc_blob = b"".join(d for _, d in docs)
    doc_packed = lzma.compress(doc_blob, format=lzma.FORMAT_RAW, filters=[{"id": lzma.FILTER_LZMA2, "dict_size": 1 << 20}])
    doc_folder = num(1) + simple_coder(b"\x21", bytes([18]))
    doc_sizes = num(len(doc_blob))

    # BCJ2 folder as 7-Zip lays it out: BCJ2 + 3 x LZMA; exe_data holds no
    # E8/E9/0F8x opcode, so main stream == data, call/jump streams are empty
    main_p, main_props = lzma1(exe_data, 3, 0)
    call_p, call_props = lzma1(b"", 0, 2)
    jump_p, jump_props = lzma1(b"", 0, 2)
    rc_p = b"\x00" * 5
    bcj2_folder = (
        num(4)
        + bytes([0x14]) + b"\x03\x03\x01\x1b" + num(4) + num(1)  # complex coder: 4 in, 1 out
        + simple_coder(b"\x03\x01\x01", main_props)
        + simple_coder(b"\x03\x01\x01", call_props)
        + simple_coder(b"\x03\x01\x01", jump_props)
        + num(0) + num(1) + num(1) + num(2) + num(2) + num(3)  # 3 bind pairs (in, out)
        + num(4) + num(5) + num(6) + num(3)  # 4 packed streams: LZMA inputs + BCJ2 rc stream
    )
    bcj2_sizes = num(len(exe_data)) + num(len(exe_data)) + num(0) + num(0)
    bcj2_packs = [main_p, call_p, jump_p, rc_p]

    if bcj2_first:
        folders, sizes, packs = bcj2_folder + doc_folder, bcj2_sizes + doc_sizes, bcj2_packs + [doc_packed]
        nstreams = [1, len(docs)]
        files = [(exe_name, exe_data)] + docs
    else:
        folders, sizes, packs = doc_folder + bcj2_folder, doc_sizes + bcj2_sizes, [doc_packed] + bcj2_packs
        nstreams = [len(docs), 1]
        files = docs + [(exe_name, exe_data)]

    h = bytearray(b"\x01\x04")
    h += b"\x06" + num(0) + num(len(packs)) + b"\x09" + b"".join(num(len(p)) for p in packs) + b"\x00"
    h += b"\x07\x0b" + num(2) + b"\x00" + folders + b"\x0c" + sizes + b"\x00"
    h += b"\x08\x0d" + b"".join(num(n) for n in nstreams)
    h += b"\x09" + b"".join(num(len(d)) for _, d in docs[:-1])
    h += b"\x0a\x01" + b"".join(struct.pack("<I", zlib.crc32(d)) for _, d in files) + b"\x00"
    h += b"\x00"
    names = b"\x00" + b"".join(n.encode("utf-16-le") + b"\x00\x00" for n, _ in files)
    h += b"\x05" + num(len(files)) + b"\x11" + num(len(names)) + names + b"\x00\x00"
    body = b"".join(packs)
    start = struct.pack("<QQI", len(body), len(h), zlib.crc32(bytes(h)))
    return b"7z\xbc\xaf\x27\x1c\x00\x04" + struct.pack("<I", zlib.crc32(start)) + start + body + bytes(h)


def run(blob):
    try:
        return [(r.get_metadata().filename, r.get_full_text()) for r in read_archive(io.BytesIO(blob), path="release.7z")]
    except Exception as exc:  # noqa: BLE001
        return "%s: %s" % (type(exc).__name__, exc)


def main() -> int:
    docs = [("README.txt", b"read me first"), ("CHANGES.md", b"# changes\n* 1.0"), ("manual.html", b"<html><body><p>Manual</p></body></html>")]
    exe = b"MZ" + bytes(range(0x10, 0x60)) * 40
    assert not any(b in exe for b in (0xE8, 0xE9, 0x0F))
    bad = False
    for bcj2_first in (False, True):
        got = run(build(docs, "setup.exe", exe, bcj2_first))
        print("BCJ2 folder %s the document folder ->" % ("before" if bcj2_first else "after"), got)
        if isinstance(got, str) or [n for n, _ in got] != [n for n, _ in docs]:
            bad = True
    print("property demands: README.txt, CHANGES.md and manual.html are returned; only setup.exe (unsupported) is left out")
    return 1 if bad else 0


if __name__ == "__main__":
    sys.exit(main())
