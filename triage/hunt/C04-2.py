"""C04 - DOC document properties: olefile returns the SummaryInformation
strings as bytes in the code page of the property set (1252 here);
_DocReader.get_metadata decodes them as UTF-8 with errors='replace', so every
non-ASCII letter of title / author / subject / keywords turns into U+FFFD.
(ppt_extractor._extract_metadata has the same decode_if_bytes helper.)

Input: the repository fixture Speech_Prime_Minister_of_The_Netherlands_EN.doc
(copied next to this script), author 'Toby Screech' -> 'T\\xf6by Screech'
(cp1252 'Töby Screech') changed in memory, same length."""
import io
import os
import sys

sys.path.insert(0, os.getcwd())
import logging

logging.disable(logging.CRITICAL)

import olefile

from sharepoint2text.parsing.extractors.ms_legacy.doc_extractor import read_doc

here = os.path.dirname(os.path.abspath(__file__))
data = open(os.path.join(os.getcwd(), "sharepoint2text/tests/resources/legacy_ms/Speech_Prime_Minister_of_The_Netherlands_EN.doc"), "rb").read()
assert data.count(b"Toby Screech\x00") == 1
patched = data.replace(b"Toby Screech\x00", b"T\xf6by Screech\x00")

meta = olefile.OleFileIO(io.BytesIO(patched)).get_metadata()
stored = meta.author.decode("cp%d" % meta.codepage)
print("stored in the file: codepage", meta.codepage, "author bytes", meta.author, "->", repr(stored))

result = next(iter(read_doc(io.BytesIO(patched), "speech.doc")))
author = result.get_metadata().author
print("observed          : metadata.author =", repr(author))
print("expected          : metadata.author =", repr(stored), "(reported unchanged)")
sys.exit(0 if author == stored else 1)
