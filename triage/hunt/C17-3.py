"""C17: style / script / comment content never appears in the text of an HTML mail body, and the
visible text around it is extracted - for every document of the grammar, however many blocks.

The tree builder has no implied end tags: every <li> (or <p>, <td>, <dd>, <option> ...) whose
optional end tag is omitted becomes a child of the previous one.  ~1000 such items make the
recursive tree walk hit the interpreter's recursion limit.  html_to_text() then returns the RAW
MARKUP (style sheet, comments, tags), read_html()/read_mhtml() fail the whole document.
"""
import io
import os
import sys

sys.path.insert(0, os.getcwd())

ITEMS = "".join(f"<li>build {i} ok\n" for i in range(1500))  # </li> is optional in HTML
PAGE = (
    '<html><head><style type="text/css">li{color:green}</style></head><body>'
    "<p>Nightly report</p><!-- HIDDEN-COMMENT --><ul>\n" + ITEMS + "</ul><p>End of report</p>"
    "</body></html>"
)
EML = (
    "From: ci@example.com\r\nTo: dev@example.com\r\nSubject: Nightly\r\n"
    "Date: Mon, 1 Jan 2024 10:00:00 +0000\r\nMessage-ID: <1@example.com>\r\nMIME-Version: 1.0\r\n"
    "Content-Type: text/html; charset=utf-8\r\n\r\n" + PAGE
).encode()


def main() -> int:
    from sharepoint2text.parsing.extractors.html_extractor import read_html
    from sharepoint2text.parsing.extractors.mail.eml_email_extractor import (
        read_eml_format_mail,
    )

    bad = False
    mail = next(read_eml_format_mail(io.BytesIO(EML)))
    text = [u.text for u in mail.iterate_units()][0]
    print("HTML-only e-mail, unit text starts with:", repr(text[:110]))
    hidden = [h for h in ("li{color:green}", "HIDDEN-COMMENT", "<style", "<li>") if h in text]
    if hidden:
        print("   -> hidden content / markup in the extracted text:", hidden)
        bad = True

    try:
        content = next(read_html(io.BytesIO(PAGE.encode()))).content
        print("same body as .html: %d characters" % len(content))
        if "Nightly report" not in content or "End of report" not in content or "build 1499 ok" not in content:
            print("   -> visible text lost")
            bad = True
    except Exception as exc:  # noqa: BLE001
        print("same body as .html:", type(exc).__name__, exc, "| cause:", repr(exc.__cause__)[:60])
        bad = True

    print("property demands: text == 'Nightly report', the 1500 items, 'End of report';")
    print("                  no style sheet, no comment, no tags")
    return 1 if bad else 0


if __name__ == "__main__":
    sys.exit(main())
