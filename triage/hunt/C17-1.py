"""C17: HTML mail bodies - comment and <style> content must never appear in the extracted text.

An Outlook .msg whose HTML body (PidTagHtml) is a fragment using XHTML-style <br/> and tags with
attributes is not recognised as HTML by msg_email_extractor._looks_like_html (its hint regex
contains a literal backslash + 's' instead of \\s), so the raw markup - including the comment
and the style sheet - becomes body_plain and the text unit.
"""
import io
import os
import struct
import sys

sys.path.insert(0, os.getcwd())


def build_ole(streams):
    """Minimal OLE2/CFB v3 writer (every stream padded to >= 4096 bytes, no mini stream)."""
    END, FREE, FATSECT, NOSTREAM = 0xFFFFFFFE, 0xFFFFFFFF, 0xFFFFFFFD, 0xFFFFFFFF
    names = sorted(streams, key=lambda n: (len(n), n.upper()))
    entries = [{"name": "Root Entry", "type": 5, "data": b""}]
    for name in names:
        data = bytes(streams[name])
        if len(data) < 4096:
            data = data + b"\0" * (4096 - len(data))
        entries.append({"name": name, "type": 2, "data": data, "size": len(data)})
    for e in entries[1:]:
        e["padded"] = e["data"] + b"\0" * (-len(e["data"]) % 512)
        e["nsect"] = len(e["padded"]) // 512
    n_dir = (len(entries) + 3) // 4
    n_data = sum(e["nsect"] for e in entries[1:])
    n_fat = 1
    while n_fat * 128 < n_fat + n_dir + n_data:
        n_fat += 1
    fat = [FREE] * (n_fat * 128)
    for i in range(n_fat):
        fat[i] = FATSECT
    sect = n_fat
    dir_start = sect
    for i in range(n_dir):
        fat[sect] = sect + 1 if i < n_dir - 1 else END
        sect += 1
    for e in entries[1:]:
        e["start"] = sect
        for i in range(e["nsect"]):
            fat[sect] = sect + 1 if i < e["nsect"] - 1 else END
            sect += 1
    header = b"\xd0\xcf\x11\xe0\xa1\xb1\x1a\xe1" + b"\0" * 16
    header += struct.pack("<HHHHH", 0x003E, 3, 0xFFFE, 9, 6) + b"\0" * 6
    header += struct.pack("<IIIIIIIII", 0, n_fat, dir_start, 0, 4096, END, 0, END, 0)
    header += struct.pack("<109I", *(list(range(n_fat)) + [FREE] * (109 - n_fat)))
    out = [header, struct.pack("<%dI" % len(fat), *fat)]
    dir_bytes = b""
    for idx, e in enumerate(entries):
        name = e["name"].encode("utf-16-le") + b"\0\0"
        if idx == 0:
            left, right, child, start, size = NOSTREAM, NOSTREAM, 1, END, 0
        else:
            left, child = NOSTREAM, NOSTREAM
            right = idx + 1 if idx + 1 < len(entries) else NOSTREAM
            start, size = e["start"], e["size"]
        dir_bytes += (
            name.ljust(64, b"\0")
            + struct.pack("<HBB", len(name), e["type"], 1)
            + struct.pack("<III", left, right, child)
            + b"\0" * 36
            + struct.pack("<IQ", start, size)
        )
    empty = b"\0" * 68 + struct.pack("<III", NOSTREAM, NOSTREAM, NOSTREAM) + b"\0" * 48
    dir_bytes += empty * (n_dir * 4 - len(entries))
    out.append(dir_bytes)
    for e in entries[1:]:
        out.append(e["padded"])
    return b"".join(out)


def build_msg(html: str) -> bytes:
    html = html + " " * (4096 - len(html.encode("utf-8")))  # avoid NUL padding in the body
    headers = (
        "Date: Mon, 1 Jan 2024 10:00:00 +0000\r\nFrom: Alice <alice@example.com>\r\n"
        "To: bob@example.com\r\nSubject: Report\r\n\r\n"
    )
    return build_ole(
        {
            "__substg1.0_0037001F": "Report".encode("utf-16-le"),  # PidTagSubject
            "__substg1.0_007D001F": headers.encode("utf-16-le"),  # PidTagTransportMessageHeaders
            "__substg1.0_10130102": html.encode("utf-8"),  # PidTagHtml
            "__properties_version1.0": b"\0" * 32,
        }
    )


def extract(html: str):
    from sharepoint2text.parsing.extractors.mail.msg_email_extractor import (
        read_msg_format_mail,
    )

    mail = next(read_msg_format_mail(io.BytesIO(build_msg(html))))
    units = [u.text for u in mail.iterate_units()]
    return mail.body_plain, units


HIDDEN = ["SECRET-TRACKING-ID", "color:red"]
BODY = (
    '<div style="font-family:Calibri">Hello Bob,<br/>the <b>report</b> is attached.'
    "<!-- SECRET-TRACKING-ID -->"
    '<style type="text/css">.x{color:red}</style></div>'
)


def main() -> int:
    # control: the same body written with <br> instead of <br/> is recognised as HTML
    control_plain, _ = extract(BODY.replace("<br/>", "<br>"))
    print("control (<br>)  body_plain:", repr(control_plain))
    plain, units = extract(BODY)
    print("input   (<br/>) body_plain:", repr(plain))
    print("input   (<br/>) unit text :", repr(units))
    leaked = [h for h in HIDDEN if h in plain or any(h in u for u in units)]
    markup = "<div" in plain or "<style" in plain
    print("property demands: comment / style content never appears in body_plain;")
    print("                  visible text 'Hello Bob,' / 'report' / 'is attached.' extracted")
    if leaked or markup:
        print("VIOLATION: hidden content in extracted text:", leaked, "| raw markup:", markup)
        return 1
    print("ok")
    return 0


if __name__ == "__main__":
    sys.exit(main())
