"""C09: results of an archive must be a function of the archive bytes only.

read_archive(BytesIO) without a path (the call shown in its own docstring) labels
every member through FileMetadataInterface.populate_from_path(member_name), which
asks the HOST file system about the member name (Path.exists / Path.resolve).
The same archive bytes therefore give different results in different working
directories, and host paths (the cwd, targets of host symlinks) appear in them.
"""
import io
import json
import os
import sys
import tarfile
import tempfile
import zipfile

sys.path.insert(0, os.getcwd())
from sharepoint2text.parsing.extractors.archive_extractor import read_archive  # noqa: E402

MEMBERS = [("notes.txt", b"top level note"), ("docs/readme.txt", b"read me")]


def make_zip() -> bytes:
    buf = io.BytesIO()
    with zipfile.ZipFile(buf, "w", zipfile.ZIP_DEFLATED) as zf:
        for name, data in MEMBERS:
            zf.writestr(name, data)
    return buf.getvalue()


def make_tar() -> bytes:
    buf = io.BytesIO()
    with tarfile.open(fileobj=buf, mode="w:gz") as tf:
        for name, data in MEMBERS:
            ti = tarfile.TarInfo(name)
            ti.size = len(data)
            tf.addfile(ti, io.BytesIO(data))
    return buf.getvalue()


def results(blob: bytes):
    return [r.to_json() for r in read_archive(io.BytesIO(blob))]


def main() -> int:
    bad = False
    start = os.getcwd()
    with tempfile.TemporaryDirectory(prefix="hostA-") as dir_a, tempfile.TemporaryDirectory(
        prefix="hostB-"
    ) as dir_b:
        # host B happens to own a directory "docs" and a symlink "notes.txt"
        os.mkdir(os.path.join(dir_b, "docs"))
        secret = os.path.join(dir_b, "SECRET-TARGET-OF-HOST-LINK")
        open(secret, "w").close()
        os.symlink(secret, os.path.join(dir_b, "notes.txt"))

        for label, blob in (("zip", make_zip()), ("tar.gz", make_tar())):
            try:
                os.chdir(dir_a)
                res_a = results(blob)
                os.chdir(dir_b)
                res_b = results(blob)
            finally:
                os.chdir(start)
            dump_a = json.dumps(res_a, sort_keys=True, default=str)
            dump_b = json.dumps(res_b, sort_keys=True, default=str)
            metas_a = [r.get("metadata", {}) for r in res_a]
            metas_b = [r.get("metadata", {}) for r in res_b]
            print(f"[{label}] cwd A = {dir_a}")
            for m in metas_a:
                print("    file_path=%r folder_path=%r" % (m.get("file_path"), m.get("folder_path")))
            print(f"[{label}] cwd B = {dir_b}  (owns ./docs and a symlink ./notes.txt)")
            for m in metas_b:
                print("    file_path=%r folder_path=%r" % (m.get("file_path"), m.get("folder_path")))
            leaks = [
                p
                for p in (os.path.realpath(dir_a), os.path.realpath(dir_b), "SECRET-TARGET-OF-HOST-LINK")
                if p in dump_a or p in dump_b
            ]
            if dump_a != dump_b:
                print(f"[{label}] VIOLATION: same archive bytes, different results in two working directories")
                bad = True
            if leaks:
                print(f"[{label}] VIOLATION: host file-system content inside the results: {leaks}")
                bad = True
    print("property demands: results depend on the archive bytes only; no host path may appear in them")
    return 1 if bad else 0


if __name__ == "__main__":
    sys.exit(main())
