"""C13: two RTF tables separated by an (empty or short) paragraph are returned as
ONE table; the narrower one is padded with invented empty cells."""
import io
import os
import sys

sys.path.insert(0, os.getcwd())

from sharepoint2text.parsing.extractors.ms_legacy.rtf_extractor import read_rtf


def row(cells):
    defs = "".join("\\cellx%d" % (1500 * (i + 1)) for i in range(len(cells)))
    return "\\trowd\\trgaph108" + defs + " " + "".join("\\pard\\intbl %s\\cell " % c for c in cells) + "\\row\n"


def rtf(body):
    return ("{\\rtf1\\ansi\\deff0{\\fonttbl{\\f0 Arial;}}\n" + body + "}").encode()


T1 = [["Name", "Qty"], ["pen", "2"]]
T2 = [["Year", "Net", "Gross"], ["2024", "10", "12"]]

cases = {
    "empty paragraph between the tables (what Word needs to keep two tables apart)": "\\pard\\par\n",
    "caption paragraph between the tables": "\\pard\\plain Table 2: totals per year\\par\n",
}
bad = []
for label, between in cases.items():
    body = "\\pard Intro\\par\n" + "".join(row(r) for r in T1) + between + "".join(row(r) for r in T2) + "\\pard End\\par"
    doc = list(read_rtf(io.BytesIO(rtf(body))))[0]
    got = [t.get_table() for t in doc.iterate_tables()]
    print(label)
    print("   returned:", got)
    if got != [T1, T2]:
        bad.append(f"{label}: {len(got)} table(s) returned instead of 2: {got}")
print("property demands: two tables, in source order:", [T1, T2], "- none merged with a neighbour, no invented cells")
if bad:
    print("VIOLATED:")
    for b in bad:
        print("  ", b)
    sys.exit(1)
print("ok")
sys.exit(0)
