"""C02 - DOCX: w:tab, w:br and w:cr inside a run are dropped, so the words on
both sides of a tab stop or a manual line break (Shift+Enter) are glued together."""
import io
import os
import sys
import zipfile

sys.path.insert(0, os.getcwd())

from sharepoint2text.parsing.extractors.ms_modern.docx_extractor import read_docx

W = "http://schemas.openxmlformats.org/wordprocessingml/2006/main"
body = (
    # name <TAB> value, as in any tab-aligned list or form
    "<w:p><w:r><w:t>Name:</w:t><w:tab/><w:t>Alice</w:t></w:r></w:p>"
    # address block with manual line breaks
    "<w:p><w:r><w:t>ACME</w:t><w:br/><w:t>Mainstreet</w:t><w:br/><w:t>Springfield</w:t></w:r></w:p>"
    # the tab in a run of its own (what Word writes after a formatting change)
    "<w:p><w:r><w:t>Total</w:t></w:r><w:r><w:tab/></w:r><w:r><w:t>1000</w:t></w:r></w:p>"
)
document = (
    f'<?xml version="1.0" encoding="UTF-8" standalone="yes"?>'
    f'<w:document xmlns:w="{W}"><w:body>{body}<w:sectPr/></w:body></w:document>'
)
buf = io.BytesIO()
with zipfile.ZipFile(buf, "w") as z:
    z.writestr(
        "[Content_Types].xml",
        '<?xml version="1.0"?><Types xmlns="http://schemas.openxmlformats.org/package/2006/content-types">'
        '<Default Extension="rels" ContentType="application/vnd.openxmlformats-package.relationships+xml"/>'
        '<Default Extension="xml" ContentType="application/xml"/>'
        '<Override PartName="/word/document.xml" ContentType="application/vnd.openxmlformats-officedocument.wordprocessingml.document.main+xml"/></Types>',
    )
    z.writestr(
        "_rels/.rels",
        '<?xml version="1.0"?><Relationships xmlns="http://schemas.openxmlformats.org/package/2006/relationships">'
        '<Relationship Id="rId1" Type="http://schemas.openxmlformats.org/officeDocument/2006/relationships/officeDocument" Target="word/document.xml"/></Relationships>',
    )
    z.writestr("word/document.xml", document)

result = next(iter(read_docx(io.BytesIO(buf.getvalue()), None)))
full = result.get_full_text()
tokens = full.split()
wanted = ["Name:", "Alice", "ACME", "Mainstreet", "Springfield", "Total", "1000"]

print("observed full text:", repr(full))
print("observed tokens   :", tokens)
print("expected tokens   :", wanted, "(tab and line-break boundaries stay separated by whitespace)")
violated = tokens != wanted
if violated:
    print("VIOLATION: pieces separated by <w:tab/> / <w:br/> are merged into one word")
sys.exit(1 if violated else 0)
