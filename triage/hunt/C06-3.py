"""C06: extraction is a pure function of (bytes, path): repeating it in the same process yields the
identical result.  (Same root cause as C08-1, seen from the determinism side.)
read_pdf() installs its pure-Python AES implementation into pypdf lazily and process-globally, only
when PdfReader() raises DependencyError - which happens for AES-256 files but not for AES-128 ones.
The outcome for one and the same AES-128 PDF therefore depends on what was extracted before."""
import base64
import io
import os
import subprocess
import sys
import textwrap

sys.path.insert(0, os.getcwd())

BUILDER = textwrap.dedent(
    '''
    import base64, io, os, sys
    sys.path.insert(0, os.getcwd())
    from pypdf import PdfReader, PdfWriter
    from pypdf.generic import DecodedStreamObject, DictionaryObject, NameObject
    from sharepoint2text.parsing.extractors.pdf._pypdf_aes_fallback import patch_pypdf_fallback_aes
    patch_pypdf_fallback_aes()
    w = PdfWriter()
    page = w.add_blank_page(width=400, height=200)
    font = DictionaryObject({NameObject("/Type"): NameObject("/Font"), NameObject("/Subtype"): NameObject("/Type1"),
                             NameObject("/BaseFont"): NameObject("/Helvetica")})
    page[NameObject("/Resources")] = DictionaryObject(
        {NameObject("/Font"): DictionaryObject({NameObject("/F1"): w._add_object(font)})})
    s = DecodedStreamObject(); s.set_data(b"BT /F1 12 Tf 20 100 Td (Invoice 4711) Tj ET")
    page[NameObject("/Contents")] = w._add_object(s)
    out = io.BytesIO(); w.write(out)
    w2 = PdfWriter(); w2.append_pages_from_reader(PdfReader(io.BytesIO(out.getvalue())))
    w2.encrypt(user_password="", owner_password="owner", algorithm=sys.argv[1])
    out = io.BytesIO(); w2.write(out)
    sys.stdout.write(base64.b64encode(out.getvalue()).decode())
    '''
)


def build(algorithm: str) -> bytes:
    out = subprocess.run([sys.executable, "-c", BUILDER, algorithm], capture_output=True, text=True,
                         timeout=20, check=True, cwd=os.getcwd())
    return base64.b64decode(out.stdout)


def main() -> int:
    import logging

    logging.disable(logging.CRITICAL)
    from sharepoint2text.parsing.extractors.pdf.pdf_extractor import read_pdf

    def extract(data: bytes) -> str:
        try:
            return "text=" + repr(list(read_pdf(io.BytesIO(data), "invoice.pdf"))[0].get_full_text())
        except Exception as exc:  # noqa: BLE001
            return f"{type(exc).__name__}: {exc}"

    aes128, aes256 = build("AES-128"), build("AES-256-R5")
    first = extract(aes128)
    between = extract(aes256)
    second = extract(aes128)
    print(f"1. AES-128 PDF (empty user password), fresh process : {first}")
    print(f"2. some AES-256 PDF in between                       : {between}")
    print(f"3. the same AES-128 bytes again                      : {second}")
    print("expected: run 1 and run 3 give the identical outcome")
    return 0 if first == second else 1


if __name__ == "__main__":
    sys.exit(main())
