"""C16: a supported attachment (report.docx, table.csv) that the sending client
labelled application/octet-stream is skipped by iterate_supported_attachments(),
although its file name routes to an extractor."""
import io
import os
import sys
import zipfile
from email.message import EmailMessage

sys.path.insert(0, os.getcwd())

from sharepoint2text.parsing.extractors.mail.eml_email_extractor import read_eml_format_mail
from sharepoint2text.parsing.extractors.mail.mbox_email_extractor import read_mbox_format_mail
from sharepoint2text.parsing.router import get_extractor

W = "http://schemas.openxmlformats.org/wordprocessingml/2006/main"


def docx(text):
    z = io.BytesIO()
    with zipfile.ZipFile(z, "w") as f:
        f.writestr("[Content_Types].xml",
                   '<?xml version="1.0"?><Types xmlns="http://schemas.openxmlformats.org/package/2006/content-types">'
                   '<Default Extension="rels" ContentType="application/vnd.openxmlformats-package.relationships+xml"/>'
                   '<Default Extension="xml" ContentType="application/xml"/>'
                   '<Override PartName="/word/document.xml" ContentType="application/vnd.openxmlformats-officedocument.wordprocessingml.document.main+xml"/></Types>')
        f.writestr("_rels/.rels",
                   '<?xml version="1.0"?><Relationships xmlns="http://schemas.openxmlformats.org/package/2006/relationships">'
                   '<Relationship Id="rId1" Type="http://schemas.openxmlformats.org/officeDocument/2006/relationships/officeDocument" Target="word/document.xml"/></Relationships>')
        f.writestr("word/document.xml",
                   f'<?xml version="1.0"?><w:document xmlns:w="{W}"><w:body><w:p><w:r><w:t>{text}</w:t></w:r></w:p><w:sectPr/></w:body></w:document>')
    return z.getvalue()


FILES = {"report.docx": docx("Quarterly report body"), "table.csv": b"name;qty\npen;2\n"}
alone = {n: [r.get_full_text() for r in get_extractor(n)(io.BytesIO(b), n)] for n, b in FILES.items()}
print("files on their own:", alone)


def message(mime_by_name):
    m = EmailMessage()
    m["From"] = "alice@example.com"
    m["To"] = "bob@example.com"
    m["Subject"] = "files"
    m["Date"] = "Mon, 01 Jan 2024 10:00:00 +0200"
    m.set_content("see attachments\n")
    for n, b in FILES.items():
        maintype, subtype = mime_by_name[n].split("/")
        m.add_attachment(b, maintype=maintype, subtype=subtype, filename=n)
    return m.as_bytes()


specific = {"report.docx": "application/vnd.openxmlformats-officedocument.wordprocessingml.document", "table.csv": "text/csv"}
generic = {n: "application/octet-stream" for n in FILES}
bad = []
for label, mimes in [("specific MIME types", specific), ("application/octet-stream", generic)]:
    raw = message(mimes)
    for reader_name, results in [
        ("eml", list(read_eml_format_mail(io.BytesIO(raw)))),
        ("mbox", list(read_mbox_format_mail(io.BytesIO(b"From a@example.com Mon Jan  1 10:00:00 2024\n" + raw)))),
    ]:
        mail = results[0]
        exact = [(a.filename, a.data.getvalue() == FILES[a.filename]) for a in mail.attachments]
        texts = [r.get_full_text() for r in mail.iterate_supported_attachments()]
        print(f"{label:26s} {reader_name:4s}: attachments {exact} -> extracted {texts}")
        want = [t for n in FILES for t in alone[n]]
        if texts != want:
            bad.append(f"{label} / {reader_name}: extracted {texts}, the files on their own give {want}")
print("property demands: a supported attachment extracts to the same content as the attached file on its own")
if bad:
    print("VIOLATED:")
    for b in bad:
        print("  ", b)
    sys.exit(1)
print("ok")
sys.exit(0)
