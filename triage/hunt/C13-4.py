"""C13: an XLSX sheet whose <dimension> element is stale (ref="A1", as several
non-Excel writers emit) is cut down to that range: every other cell is lost."""
import io
import os
import re
import sys
import zipfile

sys.path.insert(0, os.getcwd())

import openpyxl

from sharepoint2text.parsing.extractors.ms_modern.xlsx_extractor import read_xlsx

SRC = [["name", "qty", "price"], ["pen", 2, 1.5], ["ink", 3, 4.25]]

wb = openpyxl.Workbook()
ws = wb.active
for r in SRC:
    ws.append(r)
buf = io.BytesIO()
wb.save(buf)

# Same workbook, but the optional <dimension> hint says A1 (the sheetData is untouched)
out = io.BytesIO()
with zipfile.ZipFile(io.BytesIO(buf.getvalue())) as a, zipfile.ZipFile(out, "w", zipfile.ZIP_DEFLATED) as b:
    for n in a.namelist():
        data = a.read(n)
        if n == "xl/worksheets/sheet1.xml":
            data, k = re.subn(rb'<dimension ref="[^"]*"', b'<dimension ref="A1"', data)
            assert k == 1
        b.writestr(n, data)

doc = list(read_xlsx(io.BytesIO(out.getvalue())))[0]
t = list(doc.iterate_tables())[0]
got, dim = t.get_table(), t.get_dim()
print("source sheetData :", SRC)
print("returned table   :", got, "dim", (dim.rows, dim.columns))
print("property demands : a 3 x 3 grid with every source cell in place (the <dimension> element is only a hint; "
      "Excel and LibreOffice show all nine cells)")
if got != SRC or (dim.rows, dim.columns) != (3, 3):
    print("VIOLATED: cells outside the stale dimension range are lost")
    sys.exit(1)
print("ok")
sys.exit(0)
