"""C14: PPTX image numbers restart at 1 on every slide instead of running 1..n
through the document (as they do for ODP, XLSX, ODS, DOCX)."""
import os
import sys

sys.path.insert(0, os.getcwd())

from sharepoint2text.parsing.extractors.ms_modern.pptx_extractor import read_pptx

# ---- minimal PPTX builder ----
import io
import struct
import zipfile
import zlib


def png(w, h, seed=0):
    def ch(t, d):
        return struct.pack(">I", len(d)) + t + d + struct.pack(">I", zlib.crc32(t + d) & 0xFFFFFFFF)

    raw = b"".join(b"\x00" + bytes([(seed + x + y) % 256 for x in range(w)]) for y in range(h))
    return (b"\x89PNG\r\n\x1a\n" + ch(b"IHDR", struct.pack(">IIBBBBB", w, h, 8, 0, 0, 0, 0))
            + ch(b"IDAT", zlib.compress(raw)) + ch(b"IEND", b""))


NS = ('xmlns:a="http://schemas.openxmlformats.org/drawingml/2006/main" '
      'xmlns:r="http://schemas.openxmlformats.org/officeDocument/2006/relationships" '
      'xmlns:p="http://schemas.openxmlformats.org/presentationml/2006/main"')
REL = "http://schemas.openxmlformats.org/officeDocument/2006/relationships"
PKG = "http://schemas.openxmlformats.org/package/2006/relationships"


def pic(rid, x=0, y=0):
    return ('<p:pic><p:nvPicPr><p:cNvPr id="4" name="Picture"/><p:cNvPicPr/><p:nvPr/></p:nvPicPr>'
            f'<p:blipFill><a:blip r:embed="{rid}"/><a:stretch><a:fillRect/></a:stretch></p:blipFill>'
            f'<p:spPr><a:xfrm><a:off x="{x}" y="{y}"/><a:ext cx="100" cy="100"/></a:xfrm></p:spPr></p:pic>')


def slide(shapes):
    return (f'<?xml version="1.0"?><p:sld {NS}><p:cSld><p:spTree><p:nvGrpSpPr><p:cNvPr id="1" name=""/>'
            f'<p:cNvGrpSpPr/><p:nvPr/></p:nvGrpSpPr><p:grpSpPr/>{shapes}</p:spTree></p:cSld></p:sld>')


def pptx(slides, media):
    """slides: list of (shapes_xml, [(rId, image target)]); media: part name -> bytes"""
    z = io.BytesIO()
    with zipfile.ZipFile(z, "w") as f:
        f.writestr("[Content_Types].xml",
                   '<?xml version="1.0"?><Types xmlns="http://schemas.openxmlformats.org/package/2006/content-types">'
                   '<Default Extension="rels" ContentType="application/vnd.openxmlformats-package.relationships+xml"/>'
                   '<Default Extension="xml" ContentType="application/xml"/><Default Extension="png" ContentType="image/png"/></Types>')
        f.writestr("_rels/.rels",
                   f'<?xml version="1.0"?><Relationships xmlns="{PKG}"><Relationship Id="rId1" '
                   f'Type="{REL}/officeDocument" Target="ppt/presentation.xml"/></Relationships>')
        ids = "".join(f'<p:sldId id="{256 + i}" r:id="rId{i + 1}"/>' for i in range(len(slides)))
        f.writestr("ppt/presentation.xml",
                   f'<?xml version="1.0"?><p:presentation {NS}><p:sldIdLst>{ids}</p:sldIdLst></p:presentation>')
        f.writestr("ppt/_rels/presentation.xml.rels",
                   f'<?xml version="1.0"?><Relationships xmlns="{PKG}">'
                   + "".join(f'<Relationship Id="rId{i + 1}" Type="{REL}/slide" Target="slides/slide{i + 1}.xml"/>'
                             for i in range(len(slides))) + "</Relationships>")
        for i, (shapes, rels) in enumerate(slides):
            f.writestr(f"ppt/slides/slide{i + 1}.xml", slide(shapes))
            f.writestr(f"ppt/slides/_rels/slide{i + 1}.xml.rels",
                       f'<?xml version="1.0"?><Relationships xmlns="{PKG}">'
                       + "".join(f'<Relationship Id="{rid}" Type="{REL}/image" Target="{t}"/>' for rid, t in rels)
                       + "</Relationships>")
        for k, v in media.items():
            f.writestr(k, v)
    z.seek(0)
    return z

# ---- the property ----

A, B, C = png(3, 2, 1), png(5, 4, 2), png(7, 6, 3)
deck = pptx(
    [
        (pic("rId1") + pic("rId2", y=500), [("rId1", "../media/image1.png"), ("rId2", "../media/image2.png")]),
        (pic("rId1"), [("rId1", "../media/image3.png")]),
    ],
    {"ppt/media/image1.png": A, "ppt/media/image2.png": B, "ppt/media/image3.png": C},
)
doc = list(read_pptx(deck))[0]
names = {A: "A", B: "B", C: "C"}
got = [(names.get(i.get_bytes().read(), "?"), i.get_metadata().unit_number, i.get_metadata().image_number)
       for i in doc.iterate_images()]
print("images (which, slide, image_number):", got)
expected = [("A", 1, 1), ("B", 1, 2), ("C", 2, 3)]
print("property demands a running number 1..n in document order:", expected)
if got != expected:
    print("VIOLATED: numbers", [g[2] for g in got], "are not 1..%d" % len(got))
    sys.exit(1)
print("ok")
sys.exit(0)
