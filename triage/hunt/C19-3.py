"""C19 (call sites docx_extractor.py:307-321, 955-1005 / pptx _extract_formulas_from_element):
the conversion emits every run's text exactly once and in source order.

A math paragraph m:oMathPara holds ONE OR MORE m:oMath (CT_OMathPara: oMathParaPr?, oMath+); Word
writes one m:oMath per line of a multi-line display equation (Shift+Enter inside the equation).
The DOCX text assembly converts only omath_para.find(m:oMath) - the first line.  All further lines
are missing from the document text, and the formula list reports them as inline formulas.
"""
import io
import os
import sys
import zipfile

sys.path.insert(0, os.getcwd())

W = "http://schemas.openxmlformats.org/wordprocessingml/2006/main"
M = "http://schemas.openxmlformats.org/officeDocument/2006/math"


def r(t):
    return f'<m:r><w:rPr><w:rFonts w:ascii="Cambria Math" w:hAnsi="Cambria Math"/></w:rPr><m:t>{t}</m:t></m:r>'


DOCUMENT = f"""<?xml version="1.0" encoding="UTF-8" standalone="yes"?>
<w:document xmlns:w="{W}" xmlns:m="{M}"><w:body>
<w:p><w:r><w:t>The system is</w:t></w:r></w:p>
<w:p><m:oMathPara><m:oMathParaPr><m:jc m:val="center"/></m:oMathParaPr>
<m:oMath>{r("x+y=3")}<m:r><w:rPr><w:rFonts w:ascii="Cambria Math"/></w:rPr><w:br/></m:r></m:oMath>
<m:oMath>{r("x-y=1")}</m:oMath>
</m:oMathPara></w:p>
<w:p><w:r><w:t>so x is 2.</w:t></w:r></w:p>
<w:sectPr/></w:body></w:document>"""
CONTENT_TYPES = (
    '<?xml version="1.0" encoding="UTF-8"?><Types xmlns="http://schemas.openxmlformats.org/package/2006/content-types">'
    '<Default Extension="rels" ContentType="application/vnd.openxmlformats-package.relationships+xml"/>'
    '<Default Extension="xml" ContentType="application/xml"/>'
    '<Override PartName="/word/document.xml" ContentType="application/vnd.openxmlformats-officedocument.wordprocessingml.document.main+xml"/></Types>'
)
RELS = (
    '<?xml version="1.0" encoding="UTF-8"?><Relationships xmlns="http://schemas.openxmlformats.org/package/2006/relationships">'
    '<Relationship Id="rId1" Type="http://schemas.openxmlformats.org/officeDocument/2006/relationships/officeDocument" Target="word/document.xml"/></Relationships>'
)


def main() -> int:
    from sharepoint2text.parsing.extractors.ms_modern.docx_extractor import read_docx

    buf = io.BytesIO()
    with zipfile.ZipFile(buf, "w") as z:
        z.writestr("[Content_Types].xml", CONTENT_TYPES)
        z.writestr("_rels/.rels", RELS)
        z.writestr("word/document.xml", DOCUMENT)
    doc = next(read_docx(io.BytesIO(buf.getvalue())))
    text = doc.get_full_text()
    formulas = [(f.latex, f.is_display) for f in doc.formulas]
    print("full text:", repr(text))
    print("formulas :", formulas)
    print("property demands: both lines 'x+y=3' and 'x-y=1' once, in order, in the text;")
    print("                  both reported as display formulas")
    bad = False
    if text.count("x+y=3") != 1 or text.count("x-y=1") != 1 or text.find("x+y=3") > text.find("x-y=1"):
        print("VIOLATION: run text of the second m:oMath missing from the document text")
        bad = True
    if formulas != [("x+y=3", True), ("x-y=1", True)]:
        print("VIOLATION: second line reported as inline formula")
        bad = True
    return 1 if bad else 0


if __name__ == "__main__":
    sys.exit(main())
