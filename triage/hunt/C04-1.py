"""C04 - XLS document properties: the SummaryInformation strings of an .xls are
stored in the code page named by the property set (1252 in this fixture, as in
every workbook saved by a Western-European Excel). _read_metadata decodes them
as STRICT UTF-8, so one umlaut in the author name makes the whole workbook
unreadable.

Input: the repository fixture pb_2011_1_gen_web.xls (copied next to this script)
with one byte of the author name changed in memory: 'georgpi' -> 'ge\\xf6rgpi'
(cp1252 'geörgpi', same length)."""
import io
import os
import sys

sys.path.insert(0, os.getcwd())
import logging

logging.disable(logging.CRITICAL)

import olefile

from sharepoint2text.parsing.exceptions import ExtractionError
from sharepoint2text.parsing.extractors.ms_legacy.xls_extractor import read_xls

here = os.path.dirname(os.path.abspath(__file__))
data = open(os.path.join(os.getcwd(), "sharepoint2text/tests/resources/legacy_ms/pb_2011_1_gen_web.xls"), "rb").read()

old, new = b"georgpi\x00", b"ge\xf6rgpi\x00"
assert data.count(old) >= 1
patched = data.replace(old, new)

meta = olefile.OleFileIO(io.BytesIO(patched)).get_metadata()
print("stored in the file : codepage", meta.codepage, "author bytes", meta.author, "->", meta.author.decode("cp1252"))

original = next(iter(read_xls(io.BytesIO(data), "workbook.xls")))
print("original file      : author", repr(original.get_metadata().author), "| sheets", len(original.sheets))

try:
    result = next(iter(read_xls(io.BytesIO(patched), "workbook.xls")))
except ExtractionError as exc:
    print(f"observed           : {type(exc).__name__}: {exc} (cause: {exc.__cause__!r})")
    print("expected           : metadata.author == 'geörgpi' and the 13 sheets extracted as before")
    sys.exit(1)

author = result.get_metadata().author
print("observed           : author", repr(author))
print("expected           : 'geörgpi'")
sys.exit(0 if author == "geörgpi" else 1)
