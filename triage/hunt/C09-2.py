"""C09: hidden members never produce results.

_should_skip_file() looks only at the basename (and a leading "__MACOSX/"), so a
file inside a hidden directory (.git/, .pytest_cache/, .ipynb_checkpoints/,
.Trash-1000/ ...) is extracted although it is hidden on every Unix host.
"""
import io
import os
import sys
import tarfile
import zipfile

sys.path.insert(0, os.getcwd())
from sharepoint2text.parsing.extractors.archive_extractor import read_archive  # noqa: E402

VISIBLE = [("report.txt", b"visible report")]
HIDDEN = [
    (".hidden.txt", b"hidden file (already skipped today)"),
    (".pytest_cache/README.md", b"# pytest cache directory"),
    ("project/.ipynb_checkpoints/notes-checkpoint.txt", b"stale checkpoint copy"),
    (".Trash-1000/files/old-draft.txt", b"deleted draft"),
    (".git/description.txt", b"Unnamed repository"),
]


def make_zip(prefix=""):
    buf = io.BytesIO()
    with zipfile.ZipFile(buf, "w", zipfile.ZIP_DEFLATED) as zf:
        for name, data in VISIBLE + HIDDEN:
            zf.writestr(prefix + name, data)
    return buf.getvalue()


def make_tar(prefix=""):
    buf = io.BytesIO()
    with tarfile.open(fileobj=buf, mode="w") as tf:
        for name, data in VISIBLE + HIDDEN:
            ti = tarfile.TarInfo(prefix + name)
            ti.size = len(data)
            tf.addfile(ti, io.BytesIO(data))
    return buf.getvalue()


def is_hidden(member: str) -> bool:
    return any(part.startswith(".") and part not in (".", "..") for part in member.split("/"))


def main() -> int:
    bad = False
    cases = [
        ("zip", make_zip(), "a.zip"),
        ("tar", make_tar(), "a.tar"),
        ("tar created with `tar cf a.tar .` (./ prefix)", make_tar("./"), "a.tar"),
    ]
    for label, blob, path in cases:
        got = [r.get_metadata().file_path.split("!/", 1)[1] for r in read_archive(io.BytesIO(blob), path=path)]
        leaked = [m for m in got if is_hidden(m)]
        print(f"[{label}] results for members: {got}")
        if leaked:
            bad = True
            print(f"[{label}] VIOLATION: hidden members produced results: {leaked}")
    print("property demands: only report.txt produces a result; members below a dot-directory are hidden")
    return 1 if bad else 0


if __name__ == "__main__":
    sys.exit(main())
