"""C14: a DOCX whose image relationship uses an absolute part name
(/word/media/image1.png, as System.IO.Packaging / Open XML SDK write it) or a
parent-relative one (../media/image1.png) loses the picture."""
import io
import os
import struct
import sys
import zipfile
import zlib

sys.path.insert(0, os.getcwd())

from sharepoint2text.parsing.extractors.ms_modern.docx_extractor import read_docx


def png(w, h, seed=0):
    def ch(t, d):
        return struct.pack(">I", len(d)) + t + d + struct.pack(">I", zlib.crc32(t + d) & 0xFFFFFFFF)

    raw = b"".join(b"\x00" + bytes([(seed + x + y) % 256 for x in range(w)]) for y in range(h))
    return (b"\x89PNG\r\n\x1a\n" + ch(b"IHDR", struct.pack(">IIBBBBB", w, h, 8, 0, 0, 0, 0))
            + ch(b"IDAT", zlib.compress(raw)) + ch(b"IEND", b""))


NS = ('xmlns:w="http://schemas.openxmlformats.org/wordprocessingml/2006/main" '
      'xmlns:r="http://schemas.openxmlformats.org/officeDocument/2006/relationships" '
      'xmlns:wp="http://schemas.openxmlformats.org/drawingml/2006/wordprocessingDrawing" '
      'xmlns:a="http://schemas.openxmlformats.org/drawingml/2006/main" '
      'xmlns:pic="http://schemas.openxmlformats.org/drawingml/2006/picture"')
DRAWING = ('<w:p><w:r><w:drawing><wp:inline><wp:extent cx="1" cy="1"/><wp:docPr id="1" name="P"/>'
           '<a:graphic><a:graphicData uri="http://schemas.openxmlformats.org/drawingml/2006/picture">'
           '<pic:pic><pic:nvPicPr><pic:cNvPr id="0" name="n"/><pic:cNvPicPr/></pic:nvPicPr>'
           '<pic:blipFill><a:blip r:embed="rId1"/></pic:blipFill><pic:spPr/></pic:pic>'
           '</a:graphicData></a:graphic></wp:inline></w:drawing></w:r></w:p>')


def docx(target, part_name, data):
    z = io.BytesIO()
    with zipfile.ZipFile(z, "w") as f:
        f.writestr("[Content_Types].xml",
                   '<?xml version="1.0"?><Types xmlns="http://schemas.openxmlformats.org/package/2006/content-types">'
                   '<Default Extension="rels" ContentType="application/vnd.openxmlformats-package.relationships+xml"/>'
                   '<Default Extension="xml" ContentType="application/xml"/><Default Extension="png" ContentType="image/png"/>'
                   '<Override PartName="/word/document.xml" ContentType="application/vnd.openxmlformats-officedocument.wordprocessingml.document.main+xml"/></Types>')
        f.writestr("_rels/.rels",
                   '<?xml version="1.0"?><Relationships xmlns="http://schemas.openxmlformats.org/package/2006/relationships">'
                   '<Relationship Id="rId1" Type="http://schemas.openxmlformats.org/officeDocument/2006/relationships/officeDocument" Target="/word/document.xml"/></Relationships>')
        f.writestr("word/document.xml",
                   f'<?xml version="1.0"?><w:document {NS}><w:body><w:p><w:r><w:t>text</w:t></w:r></w:p>{DRAWING}<w:sectPr/></w:body></w:document>')
        f.writestr("word/_rels/document.xml.rels",
                   '<?xml version="1.0"?><Relationships xmlns="http://schemas.openxmlformats.org/package/2006/relationships">'
                   f'<Relationship Id="rId1" Type="http://schemas.openxmlformats.org/officeDocument/2006/relationships/image" Target="{target}"/></Relationships>')
        f.writestr(part_name, data)
    z.seek(0)
    return z


IMG = png(7, 5, 3)
cases = [
    ("relative      Target=media/image1.png", "media/image1.png", "word/media/image1.png"),
    ("absolute      Target=/word/media/image1.png", "/word/media/image1.png", "word/media/image1.png"),
    ("parent-rel.   Target=../media/image1.png", "../media/image1.png", "media/image1.png"),
]
bad = []
for label, target, part in cases:
    doc = list(read_docx(docx(target, part, IMG)))[0]
    got = [(i.get_bytes().read() == IMG, i.get_content_type(), i.get_metadata().width, i.get_metadata().height,
            i.get_metadata().image_number) for i in doc.iterate_images()]
    print(f"{label}: images -> {got}")
    if got != [(True, "image/png", 7, 5, 1)]:
        bad.append(f"{label}: expected one bit-exact 7x5 image/png numbered 1, got {got}")
print("property demands: the picture is returned bit-exact however the package references it "
      "(relative, parent-relative or absolute part names)")
if bad:
    print("VIOLATED:")
    for b in bad:
        print("  ", b)
    sys.exit(1)
print("ok")
sys.exit(0)
